"""C09 — birth–death skyline density agrees across epochs and with the constant model; JSON options select the
behaviour they name.

Lean side : TTModel/C09_BDSK.lean (scalar-polymorphic model of epidemiology_to_birth_death, log_p, log_q, p0, log_prob
            with its searchsorted / boundary-count conventions), TTModel/C09_Options.lean + TTGen/C09_Options.lean
            (REGENERATED from the AST of BDSKModel/BirthDeathModel: option plumbing, attributes read vs defined, inert
            handlers); theorems in TTProofs/Props/C09.lean.
Tie       : Float correspondence (rel 1e-10; epidemiology_to_birth_death bit-exact) of PiecewiseConstantBirthDeath.log_prob,
            .log_p, BDSKModel() and BirthDeathModel() built through from_json, with the Lean model run by drv_c09
            (1–8 epochs, boundaries exactly on sampling / node times, times given / equidistant / relative, origin as root
            edge, survival on/off, removal probability, rho at several boundaries); discrete parts (epoch indices via
            torch.searchsorted, n_i, N_i, rho-tip mask) exact.
Search    : the property's own oracles on the implementation: (m = 1, constant-rate density of Stadler 2010 written
            independently, 40 digits), (coarse, refined) pairs, JSON option vs the same option given directly, value after a
            tree change vs a freshly built model; RK4 integration of the master equations (exploration, *partial*).
"""
from __future__ import annotations

import json
import os
import math
import sys
import traceback
from pathlib import Path

from common import REPO, VERIF, Check, InfraError, f2h, h2f, use_repo

sys.path.insert(0, str(VERIF / "harness" / "translators"))
import tr_fromjson  # noqa: E402
import c09_oracle as O  # noqa: E402

LEVEL = "proof"
TOL_B = 1e-5
PROPS = "TTProofs/Props/C09.lean"
PROPS_MASTER = "TTProofs/Props/C09_Master.lean"
GEN = "TTGen/C09_Options.lean"
_T = {}


def T():
    if not _T:
        use_repo()
        import torch

        torch.set_num_threads(2)
        # imported under torch's own default (float32), as a user would: default arguments such as `rho=torch.zeros(1)` are
        # evaluated at import time
        from torchtree.evolution import bdsk, birth_death

        torch.set_default_dtype(torch.float64)
        _T.update(torch=torch, bdsk=bdsk, bd=birth_death)
    return _T


# ---------------------------------------------------------------------------- dtype regimes
# "f64": default dtype float64, float64 inputs (the regime every oracle and the Lean Float model speak about)
# "A"  : default dtype float32 (torch's and torchtree's own default), float64 inputs: the result must be float64 and as
#        accurate as in "f64" (rel 1e-10) — anything allocated inside without a dtype silently rounds to single
# "B"  : default dtype float64, float32 inputs: the result must be float32 and agree with the model to single precision
_REG = {"name": "f64"}
REGIME_TEXT = {"f64": "default dtype float64, float64 inputs", "A": "default dtype float32, float64 inputs",
               "B": "default dtype float64, float32 inputs"}


class regime:
    def __init__(self, name):
        self.name = name

    def __enter__(self):
        torch = T()["torch"]
        _REG["name"] = self.name
        torch.set_default_dtype(torch.float32 if self.name == "A" else torch.float64)
        return self

    def __exit__(self, *exc):
        torch = T()["torch"]
        _REG["name"] = "f64"
        torch.set_default_dtype(torch.float64)
        return False


def in_dtype():
    torch = T()["torch"]
    return torch.float32 if _REG["name"] == "B" else torch.float64


def TT(v):
    """an input tensor in the dtype of the current regime"""
    return T()["torch"].tensor(v, dtype=in_dtype())


# ============================================================================ cases
def rand_tree(rng, n, serial, grid=8, den=None):
    """nested tuples (age,) / (age, l, r); tip ages; internal ages (ascending). `den`: ages are k/den (tenths, thirds, sevenths:
    not representable in binary) instead of dyadic"""
    tips = [0.0] + [((rng.randrange(0, 2 * den) / den if den else rng.randrange(0, grid) / 4) if serial else 0.0) for _ in range(n - 1)]
    nodes = [(h,) for h in tips]
    ints = []
    while len(nodes) > 1:
        i, j = rng.sample(range(len(nodes)), 2)
        a, b = nodes[i], nodes[j]
        h = max(a[0], b[0]) + (rng.randrange(1, den + 3) / den if den else rng.randrange(1, grid) / 8)
        ints.append(h)
        nodes = [x for k, x in enumerate(nodes) if k not in (i, j)] + [(h, a, b)]
    return nodes[0], tips, sorted(ints)


def gen_case(rng, max_m=8, n_max=7, allow=("r", "rhomid", "coincide", "modes"), den=None):
    n = rng.randrange(2, n_max + 1)
    tree, tips, ints = rand_tree(rng, n, serial=rng.random() < 0.7, den=den)
    m = rng.choice([1, 1, 2, 2, 3, 4, 5, 8][: max(1, min(8, max_m + 2))])
    m = min(m, max_m)
    T_ = ints[-1] + (rng.randrange(1, 2 * den) / den if den else rng.choice([0.25, 0.5, 1.0, 1.75]))
    mode = rng.choice(["given", "given", "none", "relative"]) if "modes" in allow else "given"
    cands = sorted({T_ - h for h in tips + ints if 0 < T_ - h < T_})
    if mode == "none":
        times = [k * T_ / m for k in range(m)] + [T_]
    else:
        bs = set()
        guard = 0
        while len(bs) < m - 1 and guard < 200:
            guard += 1
            if "coincide" in allow and cands and rng.random() < 0.5:
                bs.add(rng.choice(cands))
            else:
                b = rng.randrange(1, 16) / 16 * T_ if mode == "relative" else (
                    rng.randrange(1, 40) / den if den else round(rng.uniform(0.05, 0.95) * T_ * 8) / 8)
                if 0 < b < T_:
                    bs.add(b)
            if mode == "relative":
                # the fraction handed to the code must give the boundary back exactly (else a coincidence with an event
                # would silently turn into a near miss)
                bs = {b for b in bs if (b / T_) * T_ == b}
        # on a non-dyadic grid a boundary drawn as k/den and one drawn as origin - height can be an ulp apart: an epoch of width
        # 1e-16 is legal but says nothing (and the RK4 oracle cannot integrate over it); keep one of the two
        kept = []
        for b in sorted(bs):
            if (not kept or b - kept[-1] > 1e-9) and T_ - b > 1e-9:
                kept.append(b)
        bs = kept
        m = len(bs) + 1
        times = [0.0] + sorted(bs) + [T_]
    if den:
        lam = [rng.randrange(5, 31) / 10 for _ in range(m)]
        mu = [rng.randrange(2, 21) / 10 for _ in range(m)]
        psi = [rng.randrange(1, 16) / 10 for _ in range(m)]
        # a boundary placed on a sampling time carries a rho event more often than not: rho-sampling in the past
        ys_ = {T_ - h for h in tips}
        rho = [(rng.choice([0.0, 0.3, 0.6]) if ("rhomid" in allow and times[i + 1] in ys_) else (rng.choice([0.0, 0.0, 0.3]) if "rhomid" in allow else 0.0))
               for i in range(m - 1)] + [rng.choice([0.0, 0.5, 0.7, 1.0])]
    else:
        lam = [rng.randrange(4, 25) / 8 for _ in range(m)]
        mu = [rng.randrange(2, 17) / 8 for _ in range(m)]
        psi = [rng.randrange(1, 13) / 8 for _ in range(m)]
        rho = [(rng.choice([0.0, 0.0, 0.25]) if "rhomid" in allow else 0.0) for _ in range(m - 1)] + [rng.choice([0.0, 0.5, 0.5, 1.0])]
    r = [rng.choice([0.0, 0.5, 1.0]) for _ in range(m)] if ("r" in allow and rng.random() < 0.3) else None
    return {"lam": lam, "mu": mu, "psi": psi, "rho": rho, "times": times, "r": r, "survival": rng.random() < 0.5,
            "tips": tips, "ints": ints, "tree": tree, "mode": mode, "root_edge": rng.random() < 0.25,
            "short_rho": not any(rho[:-1]) and rng.random() < 0.5, "no_rho": not any(rho) and rng.random() < 0.5,
            # the order in which the node heights are handed to the implementation: any numbering of the internal nodes (their
            # heights are NOT monotone in the node index in general; torchtree's one convention is that the ROOT is the last node)
            # and of the tips
            "iperm": rng.sample(range(len(ints) - 1), len(ints) - 1) + [len(ints) - 1], "tperm": rng.sample(range(len(tips)), len(tips))}


def heights_list(c):
    """node heights as handed to log_prob: tips then internal nodes, each in the case's own numbering (c['ints'] itself is kept
    ascending for the oracles and the Lean model, which are functions of the multiset)"""
    tp = c.get("tperm") or range(len(c["tips"]))
    ip = c.get("iperm") or range(len(c["ints"]))
    return [c["tips"][i] for i in tp] + [c["ints"][i] for i in ip]


def postorder_ints(node):
    """internal heights numbered children first (the numbering a tree model gives them): not monotone for balanced trees"""
    if len(node) == 1:
        return []
    return postorder_ints(node[1]) + postorder_ints(node[2]) + [node[0]]


def features(c):
    """which delicate regions of the input space a case touches (used for signatures / buckets)"""
    t, T_ = c["times"], c["times"][-1]
    m = len(c["lam"])
    ys = [T_ - h for h in c["tips"]]
    xs = [T_ - h for h in c["ints"]]
    f = []
    if c["r"] is not None and m > 1:
        f.append("removal-multi-epoch")
    if c["mode"] == "relative" and m > 1:
        f.append("relative-times")
    events = [i for i in range(m) if c["rho"][i] > 0 and any(y == t[i + 1] for y in ys)]
    if len(events) >= 2:
        f.append("several-rho-events")
    if any(y == t[i] for y in ys for i in range(1, m)):
        f.append("tip-on-boundary")
    if any(x == t[i] for x in xs for i in range(1, m)):
        f.append("node-on-boundary")
    if c["rho"][-1] == 0 and all(h == 0 for h in c["tips"]):
        f.append("present-day-psi-tips")
    if c["r"] is not None and m == 1:
        f.append("removal")
    return f or ["plain"]


def refine_case(c, i, frac):
    par = O.refine({k: c[k] for k in ("lam", "mu", "psi", "rho", "times", "r")}, i, frac)
    d = dict(c)
    d.update(par)
    d["mode"], d["root_edge"], d["short_rho"] = "given", False, False
    return d


# ============================================================================ the implementation
def impl_dist(c):
    t = T()
    torch, bdsk = t["torch"], t["bdsk"]
    m = len(c["lam"])
    tt = TT
    T_ = c["times"][-1]
    root = c["ints"][-1]
    origin = tt([T_ - root]) if c["root_edge"] else tt([T_])
    kw = {}
    if c["mode"] == "given" and m > 1:
        kw["times"] = tt(c["times"][:-1])
    elif c["mode"] == "relative" and m > 1:
        kw["times"] = tt([x / T_ for x in c["times"][:-1]])
        kw["relative_times"] = True
    rho = c["rho"][-1:] if c["short_rho"] else c["rho"]
    inputs = {"lambda_": tt(c["lam"]), "mu": tt(c["mu"]), "psi": tt(c["psi"]), "origin": origin}
    if not (c.get("no_rho") and not any(c["rho"])):
        inputs["rho"] = kw["rho"] = tt(rho)  # else: the constructor's own default `rho=torch.zeros(1)`
    if c["r"] is not None:
        inputs["removal_probability"] = tt(c["r"])
    if "times" in kw:
        inputs["times"] = kw["times"]
    d = bdsk.PiecewiseConstantBirthDeath(
        inputs["lambda_"], inputs["mu"], inputs["psi"], origin=origin, origin_is_root_edge=c["root_edge"],
        survival=c["survival"], removal_probability=inputs.get("removal_probability"), **kw)
    d._c09_inputs = inputs
    return d


def impl_value(c):
    """-> ('ok', float) | ('vector', shape) | ('raise', 'Type: msg') | ('dtype', msg) | ('mutated', msg) | ('unstable', msg),
    in the current dtype regime"""
    torch = T()["torch"]
    try:
        d = impl_dist(c)
        heights = TT(heights_list(c))
        supplied = {k: t_.clone() for k, t_ in d._c09_inputs.items()}
        supplied["node_heights"] = heights.clone()
        held = dict(d._c09_inputs, node_heights=heights)
        v = d.log_prob(heights)
        if v.dim() != 0 and v.numel() != 1:
            return "vector", list(v.shape)
        if v.dtype != in_dtype():
            return "dtype", f"the inputs are {in_dtype()}, the result is {v.dtype}"
        v1 = float(v.reshape(()).item())
        # the evaluation must not write into what it was given …
        for k, t_ in held.items():
            if not same_bits(t_, supplied[k]):
                return "mutated", f"{k}: supplied {supplied[k].tolist()}, after log_prob {t_.tolist()}"
        # … and evaluating the same object again must give the same value
        v2 = float(d.log_prob(heights).reshape(()).item())
        if not (v1 == v2 or (math.isnan(v1) and math.isnan(v2))):
            return "unstable", f"first evaluation {v1!r}, second evaluation of the same object {v2!r}"
        for k, t_ in held.items():
            if not same_bits(t_, supplied[k]):
                return "mutated", f"{k}: supplied {supplied[k].tolist()}, after the second log_prob {t_.tolist()}"
        return "ok", v1
    except Exception as e:
        return "raise", f"{type(e).__name__}: {str(e)[:120]}"


def same_bits(a, b) -> bool:
    """bit-identical tensors (shape, dtype, every element incl. the sign of zero; NaN equals NaN)"""
    torch = T()["torch"]
    if a.shape != b.shape or a.dtype != b.dtype:
        return False
    if a.dtype.is_floating_point:
        return bool(torch.equal(a.detach().contiguous().view(torch.int64) if a.dtype == torch.float64 else a.detach().to(torch.float64).contiguous().view(torch.int64),
                                b.detach().contiguous().view(torch.int64) if b.dtype == torch.float64 else b.detach().to(torch.float64).contiguous().view(torch.int64)))
    return bool(torch.equal(a, b))


def effective_times(c):
    """the times array as log_prob builds it (floats), to feed the Lean model with the same numbers"""
    torch = T()["torch"]
    m = len(c["lam"])
    T_ = c["times"][-1]
    tt = TT
    if c["root_edge"]:
        origin = tt([T_ - c["ints"][-1]]) + tt(c["ints"][-1:])
    else:
        origin = tt([T_])
    if c["mode"] == "none" or m == 1:
        dt = (origin / m).expand((m,))
        return torch.cat((torch.zeros(1, dtype=in_dtype()), dt), -1).cumsum(-1).tolist()
    if c["mode"] == "relative":
        return torch.cat((tt([x / T_ for x in c["times"][:-1]]) * origin, origin), -1).tolist()
    return torch.cat((tt(c["times"][:-1]), origin), -1).tolist()


def model_value(drv, c, times):
    m = len(c["lam"])
    ws = [str(m), "1" if c["survival"] else "0", "1" if c["r"] is not None else "0"]
    for k in ("lam", "mu", "psi", "rho"):
        ws += [f2h(x) for x in c[k]]
    if c["r"] is not None:
        ws += [f2h(x) for x in c["r"]]
    ws += [f2h(x) for x in times]
    ws += [str(len(c["tips"]))] + [f2h(x) for x in c["tips"]] + [str(len(c["ints"]))] + [f2h(x) for x in c["ints"]]
    rep = drv.ask("logprob " + " ".join(ws))
    if rep == "bad-op":
        return None
    parts = rep.split(" ")
    out = {"value": h2f(parts[0])}
    for name in ("ix", "iy", "rhotip", "n", "N"):
        s = parts[parts.index(name) + 1] if parts.index(name) + 1 < len(parts) and parts[parts.index(name) + 1] not in ("ix", "iy", "rhotip", "n", "N") else ""
        out[name] = [int(x) for x in s.split(",")] if s else []
    return out


def torch_discrete(c, times):
    """the discrete quantities recomputed with the torch calls the (fixed) code uses"""
    torch = T()["torch"]
    m = len(c["lam"])
    t = TT(times)
    x = t[-1:] - TT(c["ints"])
    y = t[-1:] - TT(c["tips"])
    ix = (torch.searchsorted(t, x, right=True) - 1).tolist()
    iy = torch.clamp(torch.searchsorted(t, y, right=False) - 1, min=0, max=m - 1)
    rho = TT(c["rho"])
    rt = (torch.sum(t.unsqueeze(-2) == y.unsqueeze(-1), -1) * rho.gather(-1, iy) > 0).long().tolist()
    n = ((torch.sum(x.unsqueeze(-2) < t[1:].unsqueeze(-1), -1) - torch.sum(y.unsqueeze(-2) <= t[1:].unsqueeze(-1), -1))[:-1] + 1).tolist()
    N = torch.sum(t[1:].unsqueeze(-2) == y.unsqueeze(-1), -2).tolist()
    return {"ix": ix, "iy": iy.tolist(), "rhotip": rt, "n": [int(v) for v in n], "N": [int(v) for v in N]}


def close(a, b, rel=1e-10):
    if a == b:
        return True
    if any(math.isnan(v) or math.isinf(v) for v in (a, b)):
        return False
    return abs(a - b) <= rel * max(1.0, abs(a), abs(b))


def slim(c):
    d = {k: c[k] for k in ("lam", "mu", "psi", "rho", "times", "r", "survival", "tips", "ints", "mode", "root_edge", "short_rho", "tree")}
    d["no_rho"] = bool(c.get("no_rho"))
    for k in ("iperm", "tperm"):
        if c.get(k):
            d[k] = list(c[k])
    return d


# ============================================================================ model builders through JSON
def to_newick(node, names, parent_age=None):
    if len(node) == 1:
        nm = names.pop(0)
        return nm[0], [(nm[0], node[0])]
    l, tl = to_newick(node[1], names)
    r, tr = to_newick(node[2], names)
    return f"({l}:{node[0] - node[1][0]},{r}:{node[0] - node[2][0]})", tl + tr


def tree_json(c):
    from torchtree.evolution.tree_model import TimeTreeModel

    names = [(f"T{i}",) for i in range(len(c["tips"]))]
    nwk, tips = to_newick(c["tree"], names)
    youngest = 0.0
    dates = {nm: youngest - age for nm, age in tips}  # date = -age (heights are max(date) - date)
    ints = postorder_ints(c["tree"])
    if sorted(ints) != sorted(c["ints"]):  # the heights were moved (histories, tree-change check): keep the numbering, take the new values
        rank = sorted(range(len(ints)), key=lambda i: ints[i])
        moved = sorted(c["ints"])
        ints = [0.0] * len(rank)
        for pos, i in enumerate(rank):
            ints[i] = moved[pos]
    tj = TimeTreeModel.json_factory("tree", nwk + ";", ints, dates, internal_heights_id="tree.heights")
    if _REG["name"] != "f64":
        tj["internal_heights"]["dtype"] = str(in_dtype())
    return tj


def P(id_, values):
    d = {"id": id_, "type": "Parameter", "tensor": values}
    if _REG["name"] != "f64":
        d["dtype"] = str(in_dtype())  # declared explicitly: the default dtype must not matter
    return d


def bdsk_json(c, times_as="parameter"):
    m = len(c["lam"])
    R = [l / (mu + ps) for l, mu, ps in zip(c["lam"], c["mu"], c["psi"])]
    delta = [mu + ps for mu, ps in zip(c["mu"], c["psi"])]
    s = [ps / (mu + ps) for mu, ps in zip(c["mu"], c["psi"])]
    spec = {"id": "bdsk", "type": "BDSKModel", "tree_model": tree_json(c), "R": P("R", R), "delta": P("delta", delta),
            "s": P("s", s), "rho": P("rho", c["rho"]), "origin": P("origin", [c["times"][-1]]), "survival": c["survival"]}
    if m > 1:
        if c["mode"] == "relative":
            tv = [x / c["times"][-1] for x in c["times"][:-1]]
            spec["relative_times"] = True
        else:
            tv = c["times"][:-1]
        spec["times"] = tv if times_as == "list" else P("times", tv)
    return spec


def build(spec):
    from torchtree.core.utils import process_object

    dic = {}
    return process_object(spec, dic), dic



# ============================================================================ fourth wave: how the object under test is reached
def bits(x):
    return f2h(float(x))


def grad_modes(c):
    """log_prob under torch.no_grad(), with autograd enabled, and with every floating leaf requiring grad: bitwise equal.
    -> None or a description of the disagreement"""
    torch = T()["torch"]
    out = {}
    for mode in ("autograd", "no_grad", "requires_grad"):
        try:
            d = impl_dist(c)
            heights = TT(heights_list(c))
            if mode == "requires_grad":
                for t_ in list(d._c09_inputs.values()) + [heights]:
                    t_.requires_grad_(True)
            if mode == "no_grad":
                with torch.no_grad():
                    v = d.log_prob(heights)
            else:
                v = d.log_prob(heights)
            out[mode] = bits(v.reshape(()).item()) if v.numel() == 1 else f"shape {list(v.shape)}"
            if mode == "requires_grad" and v.numel() == 1 and torch.isfinite(v).all():
                if not v.requires_grad:
                    out[mode] += " (result does not require grad)"
                else:
                    v.reshape(()).backward()
        except Exception as e:
            out[mode] = f"raises {type(e).__name__}: {str(e)[:100]}"
    if len(set(out.values())) > 1:
        return ", ".join(f"{k}: {h2f(v)!r}" if len(v) == 16 and " " not in v else f"{k}: {v}" for k, v in out.items())
    return None


def model_routes(c):
    """name -> thunk building a BDSKModel for the case through one construction route; all must evaluate bitwise alike"""
    from torchtree import Parameter
    from torchtree.core.utils import process_object
    from torchtree.evolution.bdsk import BDSKModel

    m = len(c["lam"])
    base = bdsk_json(c, "parameter")

    def built(spec, pre=()):
        def go():
            dic = {}
            for e in pre:
                process_object(json.loads(json.dumps(e)), dic)
            return process_object(json.loads(json.dumps(spec)), dic)
        return go

    def reverse(o):
        if isinstance(o, dict):
            return {k: reverse(o[k]) for k in reversed(list(o))}
        return o

    routes = {"json": built(base), "json, keys in reverse order": built(reverse(base))}
    explicit = dict(base)
    explicit.setdefault("origin_is_root_edge", False)
    explicit.setdefault("relative_times", c["mode"] == "relative" and m > 1)
    explicit.setdefault("survival", c["survival"])
    routes["json, every optional key explicit"] = built(explicit)
    if c["survival"]:
        absent = dict(base)
        absent.pop("survival")
        routes["json, survival absent (default true)"] = built(absent)
    full = json.loads(json.dumps(base))
    full["type"] = "torchtree.evolution.bdsk.BDSKModel"
    for k in ("R", "delta", "s", "rho", "origin", "times"):
        if isinstance(full.get(k), dict):
            full[k]["type"] = "torchtree.Parameter"
    routes["json, full type names"] = built(full)
    refd = dict(base)
    pre = [base["tree_model"]]
    refd["tree_model"] = "tree"
    for k in ("R", "delta", "s", "rho", "origin", "times"):
        if isinstance(base.get(k), dict):
            pre.append(base[k])
            refd[k] = base[k]["id"]
    routes["json, sub-objects defined before and referenced by id"] = built(refd, pre)
    if m > 1:
        routes["json, times as a plain list"] = built(bdsk_json(c, "list"))
        if c["mode"] != "relative" and all(float(x).is_integer() for x in c["times"][:-1]):
            il = bdsk_json(c, "list")
            il["times"] = [int(x) for x in il["times"]]
            routes["json, times as a list of integers"] = built(il)

    def ctor(positional):
        def go():
            dic = {}
            tree = process_object(json.loads(json.dumps(base["tree_model"])), dic)
            P_ = lambda k: Parameter(k, TT(base[k]["tensor"]))  # noqa: E731
            times = P_("times") if m > 1 else None
            if positional:
                return BDSKModel("bdsk", tree, P_("R"), P_("delta"), P_("s"), P_("rho"), P_("origin"), False, times, c["mode"] == "relative" and m > 1, c["survival"], None)
            return BDSKModel(id_="bdsk", survival=c["survival"], relative_times=c["mode"] == "relative" and m > 1, times=times, origin=P_("origin"), rho=P_("rho"),
                             s=P_("s"), delta=P_("delta"), R=P_("R"), tree_model=tree)
        return go

    routes["constructor, keywords"] = ctor(False)
    routes["constructor, positional"] = ctor(True)
    return routes


def routes_pass(ck, fail, n):
    torch = T()["torch"]
    rng = ck.rng
    done = 0
    guard = 0
    while done < n and guard < 10 * n:
        guard += 1
        c = gen_case(rng, max_m=3, n_max=4, allow=("coincide", "rhomid", "modes"))
        if c["mode"] == "none" or c["root_edge"] or c["r"] is not None:
            continue
        c["short_rho"], c["no_rho"] = False, False
        done += 1
        vals = {}
        for name, thunk in model_routes(c).items():
            try:
                mdl = thunk()
                res = mdl()
                vals[name] = bits(res.reshape(()).item()) if res.numel() == 1 else f"shape {list(res.shape)}"
                # the object is the one the options name
                seen = {"survival": mdl.survival, "relative_times": mdl.relative_times, "origin_is_root_edge": mdl.origin_is_root_edge,
                        "removal_probability": mdl.removal_probability}
                want = {"survival": c["survival"], "relative_times": c["mode"] == "relative" and len(c["lam"]) > 1, "origin_is_root_edge": False,
                        "removal_probability": None}
                if seen != want:
                    fail(f"BDSKModel:route-options:{name.split(',')[0]}", f"BDSKModel built through [{name}] holds {seen}, the case names {want}", {"case": slim(c), "route": name})
            except Exception as e:
                vals[name] = f"raises {type(e).__name__}: {str(e)[:100]}"
            ck.case(("route", done, name), nontrivial=True, bucket="route/" + name)
        ref = vals["json"]
        for name, v in vals.items():
            if v != ref:
                fail(f"BDSKModel:route-differs:{name}", f"BDSKModel built through [{name}] gives {h2f(v) if len(v) == 16 else v!r}, through from_json {h2f(ref) if len(ref) == 16 else ref!r}",
                     {"case": slim(c), "route": name, "values": vals})
        # the distributions: keyword / positional
        if len(c["lam"]) == 1:
            bd = T()["bd"].BirthDeath
            a = [TT(c[k]) for k in ("lam", "mu", "psi", "rho")] + [TT([c["times"][-1]])]
            hs = TT(heights_list(c))
            try:
                v1 = bd(*a, c["survival"]).log_prob(hs)
                v2 = bd(survival=c["survival"], origin=a[4], rho=a[3], psi=a[2], mu=a[1], lambda_=a[0]).log_prob(hs)
                ck.case(("route-bd", done), nontrivial=True, bucket="route/BirthDeath positional vs keyword")
                if bits(v1.reshape(()).item()) != bits(v2.reshape(()).item()):
                    fail("BirthDeath:route-differs", f"BirthDeath positional {v1!r} vs keyword {v2!r}", {"case": slim(c)})
            except Exception as e:
                fail(f"BirthDeath:route-raises:{type(e).__name__}", f"BirthDeath constructor route raises {e!r}"[:200], {"case": slim(c)})
    # ---- the JSON the command line interface emits for a BDSK / constant birth–death prior (it declares no dtype: reference regime only)
    if _REG["name"] != "f64":
        return
    try:
        import types

        from torchtree.cli.evolution import create_bdsk, create_constant_birth_death
        from torchtree.core.utils import process_object

        for kind in ("bdsk", "constant"):
            for _ in range(50):
                c = gen_case(rng, max_m=1, n_max=4, allow=())
                if all(h == 0 for h in c["tips"]):
                    break
            else:
                continue
            grid = 3 if kind == "bdsk" else 1
            arg = types.SimpleNamespace(grid=grid, dates=0, birth_death=kind)
            spec = create_bdsk("bd", "tree", arg) if kind == "bdsk" else create_constant_birth_death("bd", "tree", arg)
            dic = {}
            process_object(tree_json(c), dic)
            process_object({"id": "tree.root_height", "type": "Parameter", "tensor": [c["ints"][-1]]}, dic)
            mdl = process_object(json.loads(json.dumps(spec)), dic)
            v = float(mdl().reshape(()).item())
            T_ = c["ints"][-1] + 1.0
            if kind == "bdsk":
                cd = dict(c, lam=[9.0] * grid, mu=[3.0] * grid, psi=[0.0] * grid, rho=[0.0] * (grid - 1) + [1e-6], short_rho=True, no_rho=False, r=None,
                          times=[k * T_ / grid for k in range(grid)] + [T_], mode="none", root_edge=False, survival=True)
                kd, vd = impl_value(cd)
            else:
                bdv = T()["bd"].BirthDeath(TT([3.0]), TT([2.0]), TT([1.0]), TT([1e-6]), TT([T_]), survival=True).log_prob(TT(c["tips"] + c["ints"]))
                kd, vd = "ok", float(bdv.reshape(()).item())
            ck.case(("route-cli", kind), nontrivial=True, bucket="route/cli " + kind)
            if kd != "ok" or not (bits(v) == bits(vd) or close(v, vd, 1e-12)):
                fail(f"route-cli:{kind}", f"the {kind} birth–death block emitted by the command line interface evaluates to {v!r}; the distribution built directly "
                     f"with the values it names gives {kd} {vd!r}", {"case": slim(c), "spec": spec})
    except ImportError as e:
        ck.notes.append(f"cli route not available: {e}")
    except Exception as e:
        fail(f"route-cli:raises:{type(e).__name__}", f"building the command-line JSON for a birth–death prior raises {e!r}"[:220], {"case": slim(c)})


def fresh_process_values(cases):
    """the cases evaluated as the FIRST objects of a fresh interpreter (direct distribution, BDSKModel from JSON)"""
    import subprocess
    import sys as _sys
    import tempfile

    with tempfile.NamedTemporaryFile("w", suffix=".json", delete=False) as f:
        json.dump([slim(c) for c in cases], f)
        path = f.name
    code = ("import sys, json; sys.path.insert(0, %r); import c09\n"
            "cs=[c09._fix_tree(x) for x in json.load(open(%r))]\nout=[]\n"
            "for c in cs:\n"
            "    k,v=c09.impl_value(c)\n"
            "    try:\n"
            "        m=float(c09.build(c09.bdsk_json(c))[0]().reshape(()).item()) if (c['r'] is None and not c['root_edge'] and c['mode']!='none') else None\n"
            "    except Exception as e:\n"
            "        m='raises '+type(e).__name__\n"
            "    out.append([k, c09.f2h(v) if k=='ok' else v, c09.f2h(m) if isinstance(m,float) else m])\n"
            "print('C09FRESH'+json.dumps(out))\n") % (str(Path(__file__).parent), path)
    r = subprocess.run([_sys.executable, "-c", code], capture_output=True, text=True, timeout=120, env=dict(os.environ, OMP_NUM_THREADS="2"))
    os.unlink(path)
    line = next((l for l in r.stdout.splitlines() if l.startswith("C09FRESH")), None)
    if line is None:
        raise InfraError("fresh-process evaluation failed: " + r.stderr[-300:])
    return json.loads(line[len("C09FRESH"):])


def second_instance(ck, fail, first):
    """objects built LATE in this process (after hundreds of others of the same classes) vs the same cases built first in a fresh
    interpreter, and vs their own first evaluation in this process"""
    cases = [c for c, _ in first]
    fresh = fresh_process_values(cases)
    for (c, v0), (k1, v1, m1) in zip(first, fresh):
        k2, v2 = impl_value(c)
        ck.case(None, nontrivial=False, bucket="second-instance")
        late = bits(v2) if k2 == "ok" else str(v2)
        if k1 != k2 or (k1 == "ok" and v1 != late):
            fail("bdsk:second-instance:fresh-process", f"log_prob of an object built late in a long-running process is {v2!r}; the same case built first in a fresh "
                 f"interpreter gives {h2f(v1) if k1 == 'ok' else v1!r}", {"case": slim(c), "late": [k2, v2], "fresh": [k1, v1]})
        if k2 == "ok" and bits(v0) != late:
            fail("bdsk:second-instance:same-process", f"log_prob of a new object for a case evaluated earlier in this process: then {v0!r}, now {v2!r}", {"case": slim(c)})
        if isinstance(m1, str) and len(m1) == 16 and c["r"] is None and not c["root_edge"] and c["mode"] != "none":
            try:
                m2 = bits(build(bdsk_json(c))[0]().reshape(()).item())
            except Exception as e:
                m2 = "raises " + type(e).__name__
            if m2 != m1:
                fail("BDSKModel:second-instance:fresh-process", f"BDSKModel() built late in this process gives {h2f(m2) if len(m2) == 16 else m2!r}, built first in a fresh "
                     f"interpreter {h2f(m1)!r}", {"case": slim(c)})


def copies_and_moves(ck, fail, model, dic, spec_of, st, names, replay, cls):
    """copy.deepcopy of a live model: the copy evaluates like the original, updates of the copy do not reach the original
    (and vice versa); model.cpu() / model.to(dtype) leave the value alone"""
    import copy

    torch = T()["torch"]
    try:
        v0 = model()
        twin = copy.deepcopy(model)
        v1 = twin()
        if bits(v0.reshape(()).item()) != bits(v1.reshape(()).item()):
            fail(f"{cls}:deepcopy-differs", f"copy.deepcopy({cls}) evaluates to {v1!r}, the original to {v0!r}", replay)
            return
        tp = {p.id: p for p in twin.parameters()}
        nm = next((n for n in ("R", "lambda", "origin") if n in tp and n in dic), None)
        if nm is None or tp[nm] is dic[nm]:
            fail(f"{cls}:deepcopy-shares-parameters", f"copy.deepcopy({cls}) shares the Parameter objects of the original ({sorted(tp)})", replay)
            return
        new = dict(st)
        new[nm] = [v * 1.25 for v in st[nm]]
        tp[nm].tensor = TT(new[nm])
        v_twin = twin()
        v_orig = model()
        fresh_new = build(spec_of(new))[0]()
        ck.case(None, nontrivial=False, bucket=f"deepcopy/{cls}")
        if bits(v_orig.reshape(()).item()) != bits(v0.reshape(()).item()) or not same_bits(dic[nm].tensor, TT(st[nm])):
            fail(f"{cls}:deepcopy-update-reaches-original", f"after updating {nm} on a deep copy the ORIGINAL {cls} evaluates to {v_orig!r} (before: {v0!r})", replay)
        if not close(float(v_twin.reshape(()).item()), float(fresh_new.reshape(()).item()), 1e-12):
            fail(f"{cls}:deepcopy-stale", f"after updating {nm} on a deep copy the copy evaluates to {v_twin!r}, a freshly built model to {fresh_new!r}", replay)
        # moves that change nothing
        model.cpu()
        v_cpu = model()
        model.to(in_dtype())
        v_to = model()
        model.lp_needs_update = True
        v_again = model()
        for what, v in (("cpu()", v_cpu), (f"to({in_dtype()})", v_to), ("to(...) and re-evaluation", v_again)):
            if v.dtype != v0.dtype or bits(v.reshape(()).item()) != bits(v0.reshape(()).item()):
                fail(f"{cls}:move-changes-value", f"{cls}: after model.{what} the value is {v!r}, before {v0!r}", replay)
    except Exception as e:
        fail(f"{cls}:deepcopy-raises:{type(e).__name__}", f"{cls}: deepcopy / update of the copy / cpu() / to() raises {e!r}"[:220], replay)



# ============================================================================ fifth-round classes: ordering and option products
def spec_for(c, r_scalar=None):
    """BDSKModel JSON for the case with EVERY convention option spelled as the case says"""
    spec = bdsk_json(dict(c, mode="given" if c["mode"] == "none" else c["mode"]), "parameter")
    if c["mode"] == "none":
        spec.pop("times", None)
    if c["root_edge"]:
        spec["origin"] = P("origin", [c["times"][-1] - c["ints"][-1]])
        spec["origin_is_root_edge"] = True
    if r_scalar is not None:
        spec["removal_probability"] = P("rem", [r_scalar] * len(c["lam"]))
    return spec


def products_pass(ck, drv, fail, n):
    """every combination of the convention options — times None / absolute / relative x origin_is_root_edge x survival x removal —
    through the constructor AND through BDSKModel JSON; each against the Lean model, against the same case spelled in the other
    time convention, and constructor against JSON"""
    rng = ck.rng
    done = 0
    guard = 0
    while done < n and guard < 40 * n:
        guard += 1
        base = gen_case(rng, max_m=3, n_max=4, allow=("coincide", "rhomid"))
        m = len(base["lam"])
        if m < 2 or len(set(base["lam"])) < 2:
            continue
        T_ = base["times"][-1]
        if any((b / T_) * T_ != b for b in base["times"][:-1]):
            continue
        done += 1
        base.update(short_rho=False, no_rho=False, mode="given", root_edge=False, r=None)
        for surv in (False, True):
            for rem in (None, 0.5):
                absolute = {}
                for root_edge in (False, True):
                    for mode in ("given", "relative", "none"):
                        c0 = dict(base, survival=surv, root_edge=root_edge, mode=mode)
                        if mode == "none":
                            c0["times"] = [k * T_ / m for k in range(m)] + [T_]
                        c = with_removal(c0, rem) if rem is not None else c0
                        combo = f"times={ {'given': 'absolute', 'relative': 'relative', 'none': 'None'}[mode]},origin_is_root_edge={root_edge},removal={'r' if rem else 'None'}"
                        kind, val = impl_value(c)
                        ck.case(("product", done, surv, rem, root_edge, mode), nontrivial=True, bucket=f"product/{combo}")
                        rp = {"case": slim(c), "combination": combo, "survival": surv}
                        if kind != "ok":
                            fail(f"bdsk:product-fails:{combo}", f"[{combo}, survival={surv}] log_prob {kind}: {val}", rp)
                            continue
                        if drv:
                            mv = model_value(drv, c, effective_times(c))
                            if mv is not None and not close(val, mv["value"]):
                                fail(f"bdsk:product-vs-model:{combo}", f"[{combo}, survival={surv}] log_prob = {val!r}, the Lean model gives {mv['value']!r}",
                                     dict(rp, impl=val, model=mv["value"]))
                        if mode == "given":
                            absolute[root_edge] = val
                        elif mode == "relative" and root_edge in absolute and not close(val, absolute[root_edge], 1e-10):
                            fail(f"bdsk:relative-vs-absolute:origin_is_root_edge={root_edge}",
                                 f"[survival={surv}, removal={rem}] relative times {[x / T_ for x in c['times'][:-1]]} with origin_is_root_edge={root_edge} "
                                 f"(origin argument {T_ - c['ints'][-1] if root_edge else T_}, root height {c['ints'][-1]}) give {val!r}; the same shifts spelled "
                                 f"absolutely {c['times'][:-1]} give {absolute[root_edge]!r}", dict(rp, impl=val, absolute=absolute[root_edge]))
                        if root_edge and False in absolute and mode == "given" and not close(val, absolute[False], 1e-10):
                            fail("bdsk:root-edge-vs-origin", f"origin given as root edge {T_ - c['ints'][-1]} + root height gives {val!r}, given as origin {T_} gives "
                                 f"{absolute[False]!r}", rp)
                        # the same combination through BDSKModel JSON
                        try:
                            spec = spec_for(c0, rem)
                            vj = float(build(spec)[0]().reshape(()).item())
                            if not close(vj, val, 1e-9):
                                fail(f"BDSKModel:product-differs:{combo}", f"[{combo}, survival={surv}] BDSKModel() = {vj!r}, the distribution built directly gives {val!r}",
                                     dict(rp, spec=spec, impl=val))
                        except Exception as e:
                            fail(f"BDSKModel:product-raises:{combo}:{type(e).__name__}", f"[{combo}, survival={surv}] BDSKModel from JSON raises {e!r}"[:220], rp)


def ordering_pass(ck, drv, fail, n_trees):
    """the density is a function of the SET of node times: every numbering of the internal nodes (root last) and of the tips must
    give the same value, with a rate shift placed between every adjacent pair of event times (identical rates: equal to the
    single-epoch value; different rates: equal across numberings and to the Lean model)"""
    import itertools

    rng = ck.rng
    for tno in range(n_trees):
        c = gen_case(rng, max_m=1, n_max=5, allow=())
        while len(c["ints"]) < 3:
            c = gen_case(rng, max_m=1, n_max=5, allow=())
        c.update(mode="given", root_edge=rng.random() < 0.3, short_rho=False, no_rho=False, r=None)
        T_ = c["times"][-1]
        k_, v1 = impl_value(c)
        if k_ != "ok":
            continue
        events = sorted({T_ - h for h in c["tips"] + c["ints"]} | {0.0, T_})
        mids = [(a + b) / 2 for a, b in zip(events, events[1:])]
        perms = list(itertools.permutations(range(len(c["ints"]) - 1)))
        if len(perms) > 6:
            perms = [perms[0], perms[-1]] + rng.sample(perms[1:-1], 4)
        natural = [sorted(c["ints"]).index(h) for h in postorder_ints(c["tree"])]  # the numbering a tree model gives
        numberings = [list(p_) + [len(c["ints"]) - 1] for p_ in perms]
        if natural[-1] == len(c["ints"]) - 1 and natural not in numberings:
            numberings.append(natural)
        for b in mids:
            same = dict(c, lam=c["lam"] * 2, mu=c["mu"] * 2, psi=c["psi"] * 2, rho=[0.0] + c["rho"], times=[0.0, b, T_])
            diff = dict(same, lam=[c["lam"][0], c["lam"][0] * 1.5], psi=[c["psi"][0] * 0.75, c["psi"][0]])
            want = None
            if drv:
                mv = model_value(drv, diff, effective_times(dict(diff, iperm=None, tperm=None)))
                want = mv["value"] if mv else None
            seen = {}
            for ip in numberings:
                tp = rng.sample(range(len(c["tips"])), len(c["tips"]))
                for label, cc, ref in (("identical rates", same, v1), ("different rates", diff, want)):
                    cc = dict(cc, iperm=ip, tperm=tp)
                    kk, vv = impl_value(cc)
                    ck.case(("ordering", tno, b, tuple(ip), label), nontrivial=True, bucket="ordering/" + label)
                    hl = heights_list(cc)[len(c["tips"]):]
                    rp = {"case": slim(cc), "shift": b, "internal_heights_in_node_order": hl}
                    if kk != "ok":
                        fail(f"bdsk:ordering-fails:{label}", f"log_prob {kk}: {vv} with internal heights numbered {hl}", rp)
                        continue
                    if ref is not None and not close(vv, ref, 1e-9):
                        fail(f"bdsk:ordering:{'split' if label == 'identical rates' else 'model'}",
                             f"internal heights in node order {hl} (not monotone in the node index), rate shift at {b} between two adjacent events, {label}: "
                             f"log_prob = {vv!r}; " + (f"the single epoch gives {ref!r}" if label == "identical rates" else f"the Lean model gives {ref!r}"),
                             dict(rp, impl=vv, reference=ref))
                    first = seen.setdefault(label, (vv, hl))
                    if not close(vv, first[0], 1e-11):
                        fail("bdsk:ordering:renumbering", f"renumbering the internal nodes of the same tree changes log_prob: heights {first[1]} -> {first[0]!r}, "
                             f"heights {hl} -> {vv!r} (rate shift at {b}, {label})", dict(rp, impl=vv, other=first[0]))



# ============================================================================ mathematically equal, bitwise different
def decimal_coincidence_pass(ck, drv, fail, n):
    """rho-sampling events IN THE PAST placed exactly on a tip's sampling time, with values that have no binary representation
    (tenths, thirds, sevenths: origin 6.1, height 1.3), the shift time supplied the way a user computes it: t = origin - height
    in floats. CONTRACT (documented in design.d/C09.md): the library recognises the coincidence by comparing forward times,
    `times == origin - tip_heights` — the same expression — so it IS recognised; comparing heights, `origin - t == h`, is a
    different statement in floats and loses it. Checked against the intended coincidence computed in exact rationals (N_i, rho-tip
    mask), the Lean model and the RK4 integration of the master equations."""
    from fractions import Fraction

    torch = T()["torch"]
    rng = ck.rng
    done = guard = 0
    while done < n and guard < 50 * n:
        guard += 1
        den = rng.choice([10, 3, 7])
        c = gen_case(rng, max_m=1, n_max=5, allow=(), den=den)
        past = sorted({h for h in c["tips"] if h > 0})
        if not past:
            continue
        T_ = c["times"][-1]
        # prefer a height for which the two spellings of the coincidence differ bitwise
        past.sort(key=lambda h: T_ - (T_ - h) == h)
        hs = past[: rng.choice([1, 2])]
        # the shift times as a user computes them: origin - height, in float64 tensor arithmetic
        bs = sorted(set((torch.tensor([T_], dtype=torch.float64) - torch.tensor(hs, dtype=torch.float64)).tolist()))
        if any(not (0 < b < T_) for b in bs):
            continue
        done += 1
        m = len(bs) + 1
        c.update(times=[0.0] + bs + [T_], lam=[rng.randrange(5, 31) / 10 for _ in range(m)], mu=[rng.randrange(2, 21) / 10 for _ in range(m)],
                 psi=[rng.randrange(1, 16) / 10 for _ in range(m)], rho=[rng.choice([0.3, 0.6]) for _ in bs] + [rng.choice([0.0, 0.5])],
                 mode="given", root_edge=False, short_rho=False, no_rho=False, r=None if rng.random() < 0.7 else [rng.choice([0.0, 0.5, 1.0])] * m)
        bitwise_differs = any(T_ - (T_ - h) != h for h in hs)
        ck.case(("decimal", done), nontrivial=True, bucket=f"decimal-coincidence/den={den}/{'height-spelling-differs' if bitwise_differs else 'both-spellings-agree'}")
        # the intended coincidences, in exact rationals
        Fr = lambda x: Fraction(x).limit_denominator(10 * den * den)  # noqa: E731
        exactN = [sum(1 for h in c["tips"] if Fr(T_) - Fr(h) == Fr(t_)) for t_ in c["times"][1:]]
        rp = {"case": slim(c), "denominator": den, "intended_N": exactN, "tips_on_rho_events": hs}
        kind, val = impl_value(c)
        if kind != "ok":
            fail(f"bdsk:coincidence-decimal:{kind}", f"log_prob {kind}: {val} [origin {T_}, rho events at origin - {hs}]", rp)
            continue
        td = torch_discrete(c, effective_times(c))
        if td["N"] != exactN:
            ck.mismatch("N_i by the comparison the code uses (times == origin - tips) differs from the intended coincidences in rationals",
                        {"case": slim(c), "torch": td["N"], "exact": exactN})
        ref = None
        if drv:
            mv = model_value(drv, c, effective_times(c))
            if mv is not None:
                if mv["N"] != exactN:
                    ck.mismatch("Lean model: N_i differs from the intended coincidences in rationals", {"case": slim(c), "model": mv["N"], "exact": exactN})
                ref = mv["value"]
                if not close(val, ref):
                    fail("bdsk:coincidence-decimal:model", f"origin {T_}, tips at heights {hs} sampled at rho events (rho = {c['rho'][:-1]}) whose times were passed as "
                         f"origin - height = {bs}: log_prob = {val!r}, the Lean model on the intended coincidence gives {ref!r} "
                         f"(origin - (origin - h) == h bitwise: {not bitwise_differs})", dict(rp, impl=val, model=ref))
        try:
            rk = O.master_equations({k: c[k] for k in ("lam", "mu", "psi", "rho", "times", "r")}, c["tree"], c["survival"], 1200)
        except (ValueError, ZeroDivisionError):
            rk = None
        if rk is not None:
            off = math.log(2.0) * (len(c["tips"]) - 1) if c["r"] is not None else 0.0
            if not close(val - off, rk, 1e-6):
                fail("bdsk:coincidence-decimal:master-equations", f"origin {T_}, tips at heights {hs} on rho events passed as origin - height: log_prob = {val - off!r}, "
                     f"RK4 integration of the master equations with those tips rho-sampled gives {rk!r}", dict(rp, impl=val - off, rk4=rk))
            if ref is not None and not close(ref - off, rk, 1e-6):
                ck.mismatch("Lean model and RK4 oracle disagree on a decimal coincidence", {"case": slim(c), "model": ref - off, "rk4": rk})



def spec_reuse_pass(ck, fail, n):
    """the JSON route must leave the caller's specification alone: the SAME spec object built twice (fresh `dic` each time) gives
    the same model — options as named, same value — and the spec is, after each build, equal to a deep copy taken before"""
    import copy

    from torchtree.core.utils import process_object

    rng = ck.rng
    done = guard = 0
    while done < n and guard < 40 * n:
        guard += 1
        c = gen_case(rng, max_m=3, n_max=4, allow=("coincide", "rhomid", "modes"))
        m = len(c["lam"])
        if c["mode"] == "none" or c["r"] is not None:
            continue
        done += 1
        c.update(short_rho=False, no_rho=False)
        # every option away from its default at least in some cases
        c["survival"] = done % 2 == 0
        c["root_edge"] = done % 3 != 0
        specs = [("BDSKModel", spec_for(c, 0.5 if done % 4 == 0 else None))]
        if m == 1 and not c["root_edge"]:
            specs.append(("BirthDeathModel", {"id": "bd", "type": "BirthDeathModel", "tree_model": tree_json(c), "lambda": P("l", c["lam"]), "mu": P("mu", c["mu"]),
                                              "psi": P("psi", c["psi"]), "rho": P("rho", c["rho"]), "origin": P("origin", [c["times"][-1]]),
                                              "survival": c["survival"]}))
        for cls, spec in specs:
            before = copy.deepcopy(spec)
            seen = []
            rp = {"case": slim(c), "spec": before, "class": cls}
            try:
                for build_no in (1, 2, 3):
                    mdl = process_object(spec, {})
                    v = mdl()
                    opts = {k: getattr(mdl, k) for k in ("survival", "relative_times", "origin_is_root_edge") if hasattr(mdl, k)}
                    seen.append((bits(v.reshape(()).item()), opts))
                    ck.case(("spec-reuse", done, cls, build_no), nontrivial=True, bucket=f"spec-reuse/{cls}")
                    if spec != before:
                        gone = sorted(set(before) - set(spec))
                        fail(f"{cls}:from_json-mutates-spec", f"{cls}.from_json changes the specification it is given: after build {build_no} "
                             + (f"the keys {gone} are gone" if gone else "its content differs") + " (the caller's dict, e.g. one template reused for several models)",
                             dict(rp, after=copy.deepcopy(spec)))
                        break
            except Exception as e:
                fail(f"{cls}:spec-reuse-raises:{type(e).__name__}", f"{cls}: building the same specification object again raises {e!r}"[:220], rp)
                continue
            for i, (b_, o_) in enumerate(seen[1:], start=2):
                if (b_, o_) != seen[0]:
                    fail(f"{cls}:second-build-differs", f"{cls} built {i} times from the SAME specification object: build 1 holds {seen[0][1]} and evaluates to "
                         f"{h2f(seen[0][0])!r}, build {i} holds {o_} and evaluates to {h2f(b_)!r}", dict(rp, builds=[[h2f(x), y] for x, y in seen]))
                    break


# ============================================================================ tensor constructors without a dtype
CTORS = ("ones", "zeros", "tensor", "arange", "full", "eye", "empty", "linspace", "as_tensor", "ones_like", "zeros_like", "full_like")
REACHABLE = ("_call", "__init__", "from_json", "log_p", "log_q", "log_prob", "epidemiology_to_birth_death", "_sample_shape")
# (class.function, constructor) -> the bucket of cases (regime A: default float32, float64 inputs) that goes through it
COVER = {
    ("BDSKModel._call", "zeros"): "BDSKModel/dtype-A:no-rho",
    ("BDSKModel.from_json", "tensor"): "BDSKModel/dtype-A:list",
    ("PiecewiseConstantBirthDeath.__init__", "zeros"): "dtype-A/default-rho",
    ("PiecewiseConstantBirthDeath.log_prob", "tensor"): "dtype-A/removal",
    ("PiecewiseConstantBirthDeath.log_p", "ones"): "dtype-A/several-epochs",
    ("PiecewiseConstantBirthDeath.log_p", "zeros"): "dtype-A/several-epochs",
    ("PiecewiseConstantBirthDeath.log_prob", "zeros"): "dtype-A/several-epochs",
    ("PiecewiseConstantBirthDeath.log_prob", "ones"): "dtype-A/several-epochs",
    ("BirthDeathModel._call", "zeros"): "BirthDeathModel/dtype-A:empty-rho",
    ("BirthDeath.log_prob", "ones"): "BirthDeathModel/dtype-A:",
    ("BirthDeath.log_prob", "zeros"): "BirthDeathModel/dtype-A:",
    ("BirthDeath.log_prob", "tensor"): "BirthDeathModel/dtype-A:",
}


def constructor_scan():
    """every torch tensor constructor in bdsk.py / birth_death.py: where, and whether it names a dtype"""
    import ast

    rows = []
    for rel in ("torchtree/evolution/bdsk.py", "torchtree/evolution/birth_death.py"):
        tree = ast.parse((Path(REPO) / rel).read_text())

        def walk(node, stack):
            for ch in ast.iter_child_nodes(node):
                st = stack + [ch.name] if isinstance(ch, (ast.FunctionDef, ast.ClassDef)) else stack
                if (isinstance(ch, ast.Call) and isinstance(ch.func, ast.Attribute) and isinstance(ch.func.value, ast.Name)
                        and ch.func.value.id == "torch" and ch.func.attr in CTORS):
                    kws = {k.arg for k in ch.keywords}
                    fn = ch.func.attr
                    if "dtype" in kws or None in kws:
                        kind = "dtype given"
                    elif fn.endswith("_like"):
                        kind = "inherits (…_like)"
                    elif fn == "arange" and all(isinstance(a, (ast.Constant, ast.BinOp, ast.UnaryOp, ast.Name)) for a in ch.args):
                        kind = "integer index (arange)"
                    else:
                        kind = "NO DTYPE"
                    # a default argument is evaluated at import time, inside the `def`'s signature
                    rows.append({"file": rel, "line": ch.lineno, "where": ".".join(st), "call": ast.unparse(ch)[:90], "dtype": kind,
                                 "reachable_from_log_prob": bool(st) and st[-1] in REACHABLE,
                                 "covered_by": COVER.get((".".join(st), fn)) if kind == "NO DTYPE" else None})
                if isinstance(ch, ast.FunctionDef):
                    # default values belong to the function being defined
                    for dflt in ch.args.defaults + [d for d in ch.args.kw_defaults if d is not None]:
                        for sub in ast.walk(dflt):
                            if (isinstance(sub, ast.Call) and isinstance(sub.func, ast.Attribute) and isinstance(sub.func.value, ast.Name)
                                    and sub.func.value.id == "torch" and sub.func.attr in CTORS and "dtype" not in {k.arg for k in sub.keywords}):
                                rows.append({"file": rel, "line": sub.lineno, "where": ".".join(stack + [ch.name]), "call": ast.unparse(sub)[:90],
                                             "dtype": "NO DTYPE", "default_argument": True, "reachable_from_log_prob": ch.name in REACHABLE,
                                             "covered_by": COVER.get((".".join(stack + [ch.name]), sub.func.attr))})
                    for part in ch.body:
                        walk(ast.Module(body=[part], type_ignores=[]), st)
                else:
                    walk(ch, st)

        walk(tree, [])
    return rows


# ============================================================================ run
def run(ck: Check):
    ck.rule = (
        "one case = one (tree times, rates per epoch, rho per boundary, epoch times, options) evaluated by the real "
        "PiecewiseConstantBirthDeath.log_prob / BDSKModel() / BirthDeathModel() and by the Lean model (value rel 1e-10, "
        "discrete parts exact), and by the oracles (m=1 vs constant-rate density, coarse vs refined, RK4 master equations, "
        "JSON option vs direct option). distinct = distinct case; non-trivial = more than one epoch or a boundary "
        "coinciding with an event or an option other than the defaults"
    )
    ck.assumptions += [
        "times[0] = 0, epoch times strictly increasing, node heights below the origin; rates positive; one sample (batched "
        "evaluation is C10's subject)",
        "with a removal probability the code returns the density of the labelled tree (adds (n-1) log 2); the oracles follow",
        "master equations: that the coded closed forms solve them, uniquely, on every epoch and glued over all epochs is PROVED "
        "(Props/C09_Master.lean); the RK4 integration of those same equations along the tree (rel 1e-6) ties that specification to "
        "the implementation numerically",
    ]
    ck.trusted += ["torch.searchsorted / gather / exp / log / sqrt as modelled", "mpmath (constant-rate oracle)"]
    lean_src, tr_ok, note, table = tr_fromjson.translate(REPO)
    if not tr_ok:
        ck.notes.append("translator: " + note)
    ok, broken = ck.lean_side({GEN: lean_src}, ["TTGen.C09_Options", "TTProofs.Props.C09", "TTProofs.Props.C09_Master", "drv_c09"], PROPS)
    # the companion file Props/C09_Master.lean (closed forms solve the master equations, uniqueness, assembly) is built and
    # audited by common.lean_side together with Props/C09.lean
    ck.extra["translator_recognised_source"] = tr_ok
    drv = None
    try:
        drv = ck.driver("drv_c09")
    except Exception as e:
        ck.notes.append(f"driver unavailable: {e}")
    T()
    torch = T()["torch"]
    fails = []  # (sig, what, replay)

    def fail(sig, what, replay):
        reg = _REG["name"]
        if reg != "f64" and "dtype-" not in sig:
            sig, what = f"dtype-{reg}/{sig}", f"[{REGIME_TEXT[reg]}] {what}"
        if not any(f[0] == sig for f in fails):
            fails.append((sig, what, dict(replay, regime=replay.get("regime", reg))))

    worst = ck.extra.setdefault("dtype_regimes", {"A": {"cases": 0, "worst_rel": 0.0}, "B": {"cases": 0, "skipped": 0, "worst_rel": 0.0}})

    def other_regimes(c, ref, ref_text, feats, td=None):
        """the case again with (A) default float32 / float64 inputs and (B) default float64 / float32 inputs"""
        m = len(c["lam"])
        part = "removal" if c["r"] is not None else ("single-epoch" if m == 1 else "several-epochs")
        out = {}
        for reg, tol in (("A", 1e-10), ("B", TOL_B)):
            with regime(reg):
                if reg == "B":
                    # only where single precision sees the same coincidences of events and boundaries
                    try:
                        same = td is not None and torch_discrete(c, effective_times(c)) == td
                    except Exception:
                        same = False
                    if not same:
                        worst["B"]["skipped"] += 1
                        continue
                k, v = impl_value(c)
            ck.case(None, nontrivial=False, bucket=f"dtype-{reg}/{part}")
            if c.get("no_rho") and not any(c["rho"]):
                ck.bucket(f"dtype-{reg}/default-rho")
            rp = {"case": slim(c), "regime": reg, "impl": [k, v], "reference": ref}
            if k == "dtype":
                fail(f"bdsk:dtype-{reg}:result-dtype", f"[{REGIME_TEXT[reg]}] {v} [{', '.join(feats)}]", rp)
            elif k != "ok":
                fail(f"bdsk:dtype-{reg}:{k}:{part}", f"[{REGIME_TEXT[reg]}] log_prob {k}: {v}; with default dtype float64 and float64 inputs it gives {ref!r} "
                     f"[{', '.join(feats)}]", rp)
            else:
                worst[reg]["cases"] += 1
                if not (math.isnan(v) or math.isinf(v) or math.isinf(ref)):
                    worst[reg]["worst_rel"] = max(worst[reg]["worst_rel"], abs(v - ref) / max(1.0, abs(ref)))
                out[reg] = v
                if not close(v, ref, tol):
                    fail(f"bdsk:dtype-{reg}:value:{part}", f"[{REGIME_TEXT[reg]}] log_prob = {v!r}; {ref_text} = {ref!r} (rel {tol:g} allowed) "
                         f"[{', '.join(feats)}; {m} epoch(s)]", rp)
        return out

    try:
        # ---------------------------------------------------------------- generated table vs the live classes
        if drv:
            rep = drv.ask("opts")
            ck.extra["options_table"] = rep
        th = ck.thorough()
        options_behaviour(ck, fail)
        histories(ck, fail, 30 if th else 6)
        batches(ck, drv, fail, 80 if th else 12)
        with regime("A"):  # the same three passes with torch's own default dtype and float64 inputs / Parameters
            options_behaviour(ck, fail, 6 if th else 3)
            histories(ck, fail, 12 if th else 3)
            batches(ck, drv, fail, 30 if th else 6)
        # ---------------------------------------------------------------- epidemiology_to_birth_death, bit-exact
        if drv:
            for _ in range(40):
                R, d, s = (ck.rng.randrange(1, 64) / 16 for _ in range(3))
                s = min(s, 0.9375) / 4
                r = ck.rng.choice([None, 0.0, 0.5, 1.0, 0.3])
                got = T()["bdsk"].epidemiology_to_birth_death(*(torch.tensor(v, dtype=torch.float64) for v in (R, d, s)),
                                                              None if r is None else torch.tensor(r, dtype=torch.float64))
                rep = drv.ask("epi " + " ".join(f2h(v) for v in ([R, d, s] + ([] if r is None else [r]))))
                ck.case(("epi", R, d, s, r), nontrivial=False, bucket="epi")
                if rep.split() != [f2h(float(v)) for v in got]:
                    ck.mismatch("epidemiology_to_birth_death differs from the model", {"in": [R, d, s, r], "impl": [float(v) for v in got], "model": rep})
        # ---------------------------------------------------------------- corpus then generated cases
        decimal_coincidence_pass(ck, drv, fail, 60 if th else 15)
        ordering_pass(ck, drv, fail, 12 if th else 4)
        products_pass(ck, drv, fail, 8 if th else 2)
        spec_reuse_pass(ck, fail, 12 if th else 5)
        routes_pass(ck, fail, 12 if th else 5)
        with regime("A"):
            routes_pass(ck, fail, 4 if th else 2)
        first_seen = []
        cases = []
        for f in sorted((VERIF / "corpus" / "C09").glob("*.json")):
            obj = json.loads(f.read_text())
            if "case" in obj:
                cases.append(_fix_tree(obj["case"]))
        n_small, n_big = (120, 260) if not ck.thorough() else (400, 1500)
        for i in range(n_small):  # small first: failing inputs found here are already minimal
            cases.append(gen_case(ck.rng, max_m=2, n_max=3, den=ck.rng.choice([10, 3, 7]) if i % 3 == 0 else None))
        for i in range(n_big):
            # every third case on a non-dyadic grid (tenths, thirds, sevenths): coincidences supplied as origin - height in floats
            cases.append(gen_case(ck.rng, den=ck.rng.choice([10, 3, 7]) if i % 3 == 0 else None))
        for idx, c in enumerate(cases):
            feats = features(c)
            m = len(c["lam"])
            kind, val = impl_value(c)
            ck.case(json.dumps(slim(c), sort_keys=True), nontrivial=(m > 1 or feats != ["plain"] or c["mode"] != "given"),
                    bucket=f"m={m if m < 5 else '5-8'}/{feats[0]}",
                    sample={"case": {k: c[k] for k in ('lam', 'rho', 'times', 'r', 'tips', 'ints', 'survival', 'mode')}, "impl": val} if idx % 97 == 0 else None)
            replay = {"case": slim(c)}
            if kind == "ok" and math.isnan(val):
                fail(f"bdsk:log_prob-nan:{'rho-one' if 1.0 in c['rho'] else feats[0]}", f"log_prob is NaN on a valid input [{', '.join(feats)}; rho = {c['rho']}, r = {c['r']}]",
                     dict(replay, impl="nan"))
                continue
            if kind in ("mutated", "unstable"):
                fail(f"bdsk:{'mutates-input' if kind == 'mutated' else 'second-evaluation-differs'}:{'relative-times' if c['mode'] == 'relative' else feats[0]}",
                     f"log_prob {'writes into a tensor it was given — ' if kind == 'mutated' else 'is not repeatable — '}{val} "
                     f"[{', '.join(feats)}; mode {c['mode']}]", dict(replay, impl=[kind, val]))
                continue
            if kind != "ok":
                fail(f"bdsk:log_prob-fails:{feats[0]}", f"log_prob {'returns a vector ' + str(val) if kind == 'vector' else 'raises ' + val} [{', '.join(feats)}]",
                     dict(replay, impl=[kind, val]))
                continue
            if len(first_seen) < 12 and idx % 3 == 0:
                first_seen.append((c, val))
            gm = grad_modes(c)
            ck.bucket("grad-modes")
            if gm is None and idx % 4 == 0:
                with regime("A"):
                    gm = grad_modes(c)
            if gm:
                fail(f"bdsk:grad-mode-differs:{feats[0]}", f"log_prob depends on the autograd mode — {gm} [{', '.join(feats)}]", dict(replay, grad_modes=gm))
            # ---- Lean model
            if drv:
                times = effective_times(c)
                mv = model_value(drv, c, times)
                if mv is None:
                    raise InfraError("drv_c09 rejected a well-formed request")
                if not close(val, mv["value"]):
                    ck.mismatch("log_prob differs from the Lean model", {"case": slim(c), "impl": val, "model": mv["value"], "features": feats})
                    conv = "+".join(x for x, on in (("relative-times", c["mode"] == "relative" and m > 1), ("no-times", c["mode"] == "none" and m > 1),
                                                    ("root-edge", c["root_edge"]), ("removal", c["r"] is not None),
                                                    ("heights-not-monotone", heights_list(c)[len(c["tips"]):] != sorted(c["ints"]))) if on) or "plain"
                    fail(f"bdsk:model-differs:{conv}", f"log_prob = {val!r}, the Lean model (proved specification, evaluated in doubles) gives {mv['value']!r} "
                         f"[{conv}; {', '.join(feats)}; {m} epoch(s); node heights handed over as {heights_list(c)}]", dict(replay, impl=val, model=mv["value"]))
                    continue
                td = torch_discrete(c, times)
                for k in ("ix", "iy", "rhotip", "n", "N"):
                    if td[k] != mv[k]:
                        ck.mismatch(f"discrete part {k} (torch calls of the code) differs from the Lean model", {"case": slim(c), "torch": td[k], "model": mv[k]})
                if idx % 7 == 0:
                    pab_check(ck, drv, c, times)
                    with regime("A"):
                        pab_check(ck, drv, c, times)
                vals = other_regimes(c, mv["value"], "the Lean model in doubles", feats, td)
            else:
                vals = other_regimes(c, val, "with default dtype float64 and float64 inputs", feats, None)
            # ---- oracle 1: single epoch = constant-rate density
            if m == 1:
                want = float(O.const_logdensity(c["lam"][0], c["mu"][0], c["psi"][0], c["rho"][0], c["times"][-1], c["tips"], c["ints"], c["survival"],
                                                None if c["r"] is None else c["r"][0]))
                if True:  # with or without a removal probability (the oracle follows the labelled-tree convention)
                    off = 0.0
                    if not close(val - off, want, 1e-9):
                        fail(f"bdsk:single-epoch-vs-constant:{feats[0]}",
                             f"single epoch: log_prob = {val - off!r}, constant-rate birth–death-sampling density = {want!r} [{', '.join(feats)}]",
                             dict(replay, impl=val, oracle=want))
            # ---- oracle 2: refinement
            i = ck.rng.randrange(m)
            # the coarse grid is the one the implementation itself builds (equidistant / relative / root-edge modes compute their
            # times in floats: the harness's own k*T/m can differ from it by an ulp, and with it a coincidence)
            ct = effective_times(c)
            ev = sorted({ct[-1] - h for h in c["tips"] + c["ints"]})
            inside = [e for e in ev if ct[i] < e < ct[i + 1]]
            if inside and ck.rng.random() < 0.5:
                frac = (ck.rng.choice(inside) - ct[i]) / (ct[i + 1] - ct[i])
            else:
                frac = ck.rng.choice([0.25, 0.5, 0.75])
            c2 = refine_case(dict(c, times=ct, mode="given", root_edge=False), i, frac)
            if not (ct[i] < c2["times"][i + 1] < ct[i + 1]):
                continue
            if drv and idx % 4 == 0:
                ws = [str(m), str(i), f2h(c2["times"][i + 1])]
                for kk in ("lam", "mu", "psi", "rho"):
                    ws += [f2h(x) for x in c[kk]]
                ws += [f2h(x) for x in ct]
                rep = drv.ask("refine " + " ".join(ws)).split(" ")
                if rep[0] != "bad-op":
                    got = {rep[j]: [h2f(x) for x in rep[j + 1].split(",")] for j in range(0, len(rep), 2)}
                    for kk in ("lam", "mu", "psi", "rho", "times"):
                        if [f2h(x) for x in got[kk]] != [f2h(x) for x in c2[kk]]:
                            ck.mismatch("refined grid (harness) differs from the Lean cutRates/cutTimes", {"field": kk, "harness": c2[kk], "model": got[kk]})
            if len(set(c2["times"])) == len(c2["times"]) and len(c2["lam"]) <= 9:
                k2, v2 = impl_value(c2)
                f2 = features(c2)
                inherited = [x for x in feats if x in ("relative-times", "removal-multi-epoch", "several-rho-events", "present-day-psi-tips")]
                tag = inherited[0] if inherited else next((x for x in f2 if x not in feats), f2[0])
                ck.case(None, nontrivial=False, bucket="refined/" + tag)
                if k2 != "ok":
                    fail(f"bdsk:refined-fails:{tag}", f"after splitting epoch {i} (identical rates, rho = 0 at the new boundary) log_prob "
                         f"{'returns a vector' if k2 == 'vector' else 'raises ' + str(v2)} [{', '.join(f2)}]", {"case": slim(c2), "coarse": slim(c), "impl": [k2, v2]})
                elif close(val, v2, 1e-9):
                    with regime("A"):
                        kA, vA = impl_value(c2)
                    cA = vals.get("A", val)  # both sides in regime A: what the split itself changes
                    if kA != "ok" or not close(vA, cA, 1e-9):
                        fail(f"bdsk:dtype-A:refinement:{'removal' if c['r'] is not None else 'plain'}", f"[{REGIME_TEXT['A']}] after splitting epoch {i} at "
                             f"{c2['times'][i + 1]} (identical rates, rho = 0 there) log_prob is {vA!r}; the unsplit grid gives {cA!r}",
                             {"case": slim(c2), "coarse": slim(c), "regime": "A", "impl": [kA, vA], "coarse_value": cA})
                else:
                    fail(f"bdsk:refinement:{tag}", f"splitting epoch {i} at {c2['times'][i + 1]} (identical rates, rho = 0 there) changes log_prob "
                         f"from {val!r} to {v2!r} [{', '.join(f2)}]", {"case": slim(c2), "coarse": slim(c), "impl": v2, "coarse_value": val})
            # ---- oracle 3 (exploration): master equations
            if idx % (3 if ck.thorough() else 9) == 0 and len(c["tips"]) <= 5:
                par = dict({k: c[k] for k in ("lam", "mu", "psi", "rho", "r")}, times=effective_times(c))
                try:
                    rk = O.master_equations(par, c["tree"], c["survival"], 1200)
                except (ValueError, ZeroDivisionError):
                    rk = None
                if rk is not None:
                    off = math.log(2.0) * (len(c["tips"]) - 1) if c["r"] is not None else 0.0
                    ck.case(None, nontrivial=False, bucket="rk4")
                    if not close(val - off, rk, 1e-6):
                        fail(f"bdsk:master-equations:{feats[0]}", f"log_prob = {val - off!r} but RK4 integration of the birth–death master "
                             f"equations along the tree gives {rk!r} [{', '.join(feats)}]", dict(replay, impl=val - off, rk4=rk))
            # ---- the models built through from_json
            if (idx % 5 == 0 or (m == 1 and not any(c["rho"]))) and c["r"] is None and not c["root_edge"] and c["mode"] != "none":
                json_models(ck, c, val, fail, drv)
                for reg in ("A", "B"):
                    if reg == "B" and "B" not in vals:
                        continue
                    with regime(reg):
                        json_models(ck, c, val, fail, drv)
        second_instance(ck, fail, first_seen)
    finally:
        if drv:
            drv.close()
    # ---------------------------------------------------------------- constructors without a dtype, and the cases through them
    scan = constructor_scan()
    ck.extra["tensor_constructors"] = scan
    missing = [r for r in scan if r["dtype"] == "NO DTYPE"]
    ck.extra["constructors_without_dtype"] = [f"{r['file']}:{r['line']} {r['where']}: {r['call']}" for r in missing]
    for r in missing:
        if not r["reachable_from_log_prob"]:
            continue
        n = sum(v for k, v in ck.dist.items() if r["covered_by"] and k.startswith(r["covered_by"]))
        r["cases_through_it"] = n
        if n == 0:
            ck.notes.append(f"constructor without dtype reachable from log_prob and not exercised in the float32-default regime: "
                            f"{r['file']}:{r['line']} {r['call']}")
    for sig, what, replay in fails:
        ck.violation(sig, what, dict(replay, broken_obligations=broken, replay_cmd="./check C09 --replay <this file>"))
    if not fails and (not ok or ck.mismatches):
        ck.violation("C09:unproved", "C09 theorems or the model/implementation correspondence no longer check",
                     {"broken_obligations": broken, "mismatches": ck.mismatches[:5], "translator_note": note}, found_input=False)


def _fix_tree(c):
    def tup(x):
        return tuple(tup(y) if isinstance(y, list) else y for y in x)

    c = dict(c)
    c["tree"] = tup(c["tree"])
    return c


def pab_check(ck, drv, c, times):
    torch = T()["torch"]
    m = len(c["lam"])
    try:
        d = impl_dist(dict(c, short_rho=False, no_rho=False))
        t = TT(times)
        p, A, B = d.log_p(t[1:], t[:-1], TT(c["rho"]))
    except Exception as e:
        ck.mismatch("log_p raises", {"case": slim(c), "error": repr(e)})
        return
    ws = [str(m)]
    for k in ("lam", "mu", "psi", "rho"):
        ws += [f2h(x) for x in c[k]]
    ws += [f2h(x) for x in times]
    rep = drv.ask("pab " + " ".join(ws)).split(" ")
    mp_, mA, mB = ([h2f(x) for x in rep[i].split(",")] for i in (1, 3, 5))
    for name, a, b in (("p", p.tolist(), mp_), ("A", A.tolist(), mA), ("B", B.tolist(), mB)):
        if len(a) != len(b) or not all(close(x, y) for x, y in zip(a, b)):
            ck.mismatch(f"log_p: {name} differs from the Lean model", {"case": slim(c), "impl": a, "model": b})


def json_models(ck, c, direct_value, fail, drv=None):
    """BDSKModel / BirthDeathModel built by from_json must give the value of the distribution built directly (in the current
    dtype regime the Parameters are declared with the input dtype; `direct_value` is the float64 reference)"""
    m = len(c["lam"])
    reg = _REG["name"]
    pre = "" if reg == "f64" else f"dtype-{reg}:"
    txt = "" if reg == "f64" else f"[{REGIME_TEXT[reg]}; Parameters declared {in_dtype()}] "
    tol = TOL_B if reg == "B" else 1e-9
    want_dtype = in_dtype()
    replay = {"case": slim(c), "regime": reg}
    variants = [("parameter", bdsk_json(c, "parameter"))]
    if m > 1:
        variants.append(("list", bdsk_json(c, "list")))
    if not any(c["rho"]):
        sp = bdsk_json(c, "parameter")
        del sp["rho"]  # BDSKModel then supplies `torch.zeros(1)` itself
        variants.append(("no-rho", sp))
    for times_as, spec in variants:
        try:
            model, _ = build(spec)
            res = model()
            v = float(res.reshape(()).item())
        except Exception as e:
            fail(f"BDSKModel:{pre}raises:{'times-as-list' if times_as == 'list' else ('relative-times' if c['mode'] == 'relative' else 'plain')}:{type(e).__name__}",
                 f"{txt}BDSKModel built from JSON ({'times given as a list' if times_as == 'list' else 'times given as a Parameter'}"
                 f"{', relative_times' if c['mode'] == 'relative' else ''}{', no rho' if times_as == 'no-rho' else ''}) raises {type(e).__name__}: {str(e)[:120]}",
                 dict(replay, spec=spec))
            continue
        ck.case(None, nontrivial=False, bucket=f"BDSKModel/{pre}{times_as}")
        if res.dtype != want_dtype:
            fail(f"BDSKModel:{pre}result-dtype:{times_as}", f"{txt}BDSKModel() has dtype {res.dtype}", dict(replay, spec=spec))
        elif not close(v, direct_value, tol):
            fail(f"BDSKModel:{pre}value" + (":times-as-list" if times_as == "list" and pre else ""),
                 f"{txt}BDSKModel() = {v!r}" + (" (times given as a plain list)" if times_as == "list" else "") +
                 f", the distribution built directly {'(default float64, float64 inputs) ' if pre else ''}gives {direct_value!r}", dict(replay, spec=spec))
    if m == 1:
        spec = {"id": "bd", "type": "BirthDeathModel", "tree_model": tree_json(c), "lambda": P("l", c["lam"]), "mu": P("mu", c["mu"]),
                "psi": P("psi", c["psi"]), "rho": P("rho", c["rho"]), "origin": P("origin", [c["times"][-1]]), "survival": c["survival"]}
        if not any(c["rho"]):
            # an empty rho is padded by BirthDeathModel itself (`torch.zeros(...)` without a dtype)
            try:
                res = build(dict(spec, rho=P("rho", [])))[0]()
                ck.case(None, nontrivial=False, bucket=f"BirthDeathModel/{pre}empty-rho")
                if res.dtype != want_dtype or not close(float(res.reshape(()).item()), direct_value, tol):
                    fail(f"BirthDeathModel:{pre}empty-rho", f"{txt}BirthDeathModel with an empty rho gives {float(res.reshape(()).item())!r} of dtype {res.dtype}; with rho = [0] the density is {direct_value!r}",
                         dict(replay, spec=dict(spec, rho=P("rho", []))))
            except Exception as e:
                fail(f"BirthDeathModel:{pre}empty-rho:raises:{type(e).__name__}", f"{txt}BirthDeathModel with an empty rho raises {e!r}"[:200], dict(replay, spec=spec))
        try:
            model, dic = build(spec)
            res = model()
            v = float(res.reshape(()).item())
        except Exception as e:
            fail(f"BirthDeathModel:{pre}raises:{type(e).__name__}", f"{txt}BirthDeathModel built from JSON raises {type(e).__name__}: {str(e)[:120]}", dict(replay, spec=spec))
            return
        ck.case(None, nontrivial=False, bucket=f"BirthDeathModel{'/' + pre if pre else ''}")
        if res.dtype != want_dtype:
            fail(f"BirthDeathModel:{pre}result-dtype", f"{txt}BirthDeathModel() has dtype {res.dtype}", dict(replay, spec=spec))
        if pre:
            if not close(v, direct_value, tol):
                fail(f"BirthDeathModel:{pre}value", f"{txt}BirthDeathModel() = {v!r}; with default dtype float64 and float64 inputs the density is {direct_value!r}",
                     dict(replay, spec=spec))
            return
        if drv:
            ws = ["1" if c["survival"] else "0"] + [f2h(x) for x in (c["lam"][0], c["mu"][0], c["psi"][0], c["rho"][0], c["times"][-1])]
            ws += [str(len(c["tips"]))] + [f2h(x) for x in c["tips"]] + [str(len(c["ints"]))] + [f2h(x) for x in c["ints"]]
            rep = drv.ask("constlogprob " + " ".join(ws))
            if rep == "bad-op" or not close(v, h2f(rep)):
                ck.mismatch("BirthDeathModel() differs from the Lean constant model", {"case": slim(c), "impl": v, "model": rep})
        want = float(O.const_logdensity(c["lam"][0], c["mu"][0], c["psi"][0], c["rho"][0], c["times"][-1], c["tips"], c["ints"], c["survival"]))
        if not close(v, want, 1e-9):
            feats = features(c)
            rho_tips = c["rho"][0] > 0 and any(h == 0 for h in c["tips"])
            fail(f"BirthDeathModel:value:{'rho-tips' if rho_tips else feats[0]}",
                 f"BirthDeathModel() = {v!r}, constant-rate birth–death-sampling density = {want!r}" + (" (tips sampled at the present with rho > 0)" if rho_tips else ""),
                 dict(replay, spec=spec, oracle=want))
        # a change of the tree must reach the cached value
        try:
            hp = dic["tree.heights"]
            hp.tensor = hp.tensor * 1.0 + 0.015625
            after = float(model().reshape(()).item())
            c2 = dict(c, ints=[h + 0.015625 for h in c["ints"]])
            fresh, _ = build(dict(spec, tree_model=tree_json(c2)))
            fv = float(fresh().reshape(()).item())
            if not close(after, fv, 1e-9):
                fail("BirthDeathModel:stale-after-tree-change", f"after moving the internal node heights BirthDeathModel() still returns {after!r}; a freshly built model gives {fv!r}",
                     dict(replay, spec=spec))
        except Exception as e:
            fail(f"BirthDeathModel:update-raises:{type(e).__name__}", f"re-evaluation after a tree change raises {e!r}"[:200], dict(replay, spec=spec))


def with_removal(c, r):
    """the rates BDSKModel derives from (R, delta, s) when a removal probability is given"""
    lam, mu, psi = [], [], []
    for l, m_, p in zip(c["lam"], c["mu"], c["psi"]):
        R, delta, s = l / (m_ + p), m_ + p, p / (m_ + p)
        ps = s * delta / (1.0 + (r - 1.0) * s)
        lam.append(R * delta)
        psi.append(ps)
        mu.append(delta - ps * r)
    return dict(c, lam=lam, mu=mu, psi=psi, r=[r] * len(lam))


def options_behaviour(ck, fail, trials=6):
    """every JSON option of BDSKModel selects the behaviour it names: the model built from JSON with the option equals
    the distribution built directly with that option"""
    torch = T()["torch"]
    rng = ck.rng
    for trial in range(trials):
        c = gen_case(rng, max_m=3, n_max=4, allow=("coincide",))
        c["mode"], c["root_edge"], c["short_rho"], c["r"] = "given", False, False, None
        m = len(c["lam"])
        base = bdsk_json(c)
        variants = {
            "survival": ({"survival": not c["survival"]}, dict(c, survival=not c["survival"])),
            "removal_probability": ({"removal_probability": P("rem", [0.5] * m)}, with_removal(c, 0.5)),
            "origin_is_root_edge": ({"origin_is_root_edge": True, "origin": P("origin", [c["times"][-1] - c["ints"][-1]])}, dict(c, root_edge=True)),
        }
        if m > 1:
            variants["relative_times"] = ({"relative_times": True, "times": P("times", [x / c["times"][-1] for x in c["times"][:-1]])}, dict(c, mode="relative"))
        for opt, (patch, cd) in variants.items():
            spec = dict(base)
            spec.update(patch)
            kd, vd = impl_value(cd)
            ck.case(("option", opt, trial), nontrivial=True, bucket="option/" + opt)
            try:
                model, _ = build(spec)
                v = float(model().reshape(()).item())
            except Exception as e:
                fail(f"BDSKModel.from_json:{opt}:raises:{type(e).__name__}", f"BDSKModel from JSON with option '{opt}' raises {type(e).__name__}: {str(e)[:120]}",
                     {"option": opt, "spec": spec, "case": slim(c)})
                continue
            if kd != "ok":
                continue  # the direct form does not work either: reported by the main loop
            if not close(v, vd, 1e-9):
                base_v = impl_value(c)[1]
                ignored = isinstance(base_v, float) and close(v, base_v, 1e-12)
                fail(f"BDSKModel.from_json:{opt}:{'ignored' if ignored else 'value'}",
                     f"JSON option '{opt}' {'is ignored' if ignored else 'does not select the behaviour it names'}: BDSKModel() = {v!r}, "
                     f"the distribution built directly with {opt} gives {vd!r}", {"option": opt, "spec": spec, "case": slim(c)})


def histories(ck, fail, trials=6):
    """live objects: build BDSKModel / BirthDeathModel once, then change ONE parameter at a time through
    Parameter.tensor and re-evaluate; every value must equal that of a model built afresh from the current values"""
    torch = T()["torch"]
    rng = ck.rng
    tt = TT
    for trial in range(trials):
        c = gen_case(rng, max_m=3, n_max=4, allow=("coincide", "rhomid"))
        c["mode"], c["root_edge"], c["short_rho"], c["r"] = "given", False, False, None
        m = len(c["lam"])
        with_r = rng.random() < 0.4
        rel = m > 1 and c["times"][-1] != 1.0 and trial % 2 == 0  # explicit RELATIVE times, origin != 1
        for cls in (("BDSKModel", "BirthDeathModel") if m == 1 else ("BDSKModel",)):
            st = {"R": [l / (mu + ps) for l, mu, ps in zip(c["lam"], c["mu"], c["psi"])], "delta": [mu + ps for mu, ps in zip(c["mu"], c["psi"])],
                  "s": [ps / (mu + ps) for mu, ps in zip(c["mu"], c["psi"])], "lambda": list(c["lam"]), "mu": list(c["mu"]), "psi": list(c["psi"]),
                  "rho": list(c["rho"]), "origin": [c["times"][-1]],
                  "times": [x / c["times"][-1] for x in c["times"][:-1]] if rel else list(c["times"][:-1]),
                  "tree.heights": postorder_ints(c["tree"]), "rem": [0.5] * m}

            def spec_of(st):
                cc = dict(c, ints=list(st["tree.heights"]))
                if cls == "BDSKModel":
                    sp = {"id": "model", "type": "BDSKModel", "tree_model": tree_json(cc), "R": P("R", st["R"]), "delta": P("delta", st["delta"]),
                          "s": P("s", st["s"]), "rho": P("rho", st["rho"]), "origin": P("origin", st["origin"]), "survival": c["survival"]}
                    if m > 1:
                        sp["times"] = P("times", st["times"])
                        if rel:
                            sp["relative_times"] = True
                    if with_r:
                        sp["removal_probability"] = P("rem", st["rem"])
                    return sp
                return {"id": "model", "type": "BirthDeathModel", "tree_model": tree_json(cc), "lambda": P("lambda", st["lambda"]), "mu": P("mu", st["mu"]),
                        "psi": P("psi", st["psi"]), "rho": P("rho", st["rho"]), "origin": P("origin", st["origin"]), "survival": c["survival"]}

            def inputs_intact(dic, st, names):
                """every Parameter still holds, bit for bit, the tensor it was given"""
                for nm_ in names:
                    if nm_ in dic and not same_bits(dic[nm_].tensor, tt(st[nm_])):
                        return f"{nm_}: supplied {st[nm_]}, now {dic[nm_].tensor.tolist()}"
                return None

            try:
                model, dic = build(spec_of(st))
                model()
            except Exception as e:
                fail(f"{cls}:history-raises:{type(e).__name__}", f"{cls} built from JSON raises {e!r}"[:200], {"case": slim(c), "spec": spec_of(st)})
                continue
            names = (["R", "delta", "s"] if cls == "BDSKModel" else ["lambda", "mu", "psi"]) + ["rho", "origin", "tree.heights"]
            if cls == "BDSKModel" and m > 1:
                names.append("times")
            if cls == "BDSKModel" and with_r:
                names.append("rem")
            hist = []
            for step in range(6):
                nm = rng.choice(names)
                if nm in ("R", "delta", "lambda", "mu", "psi"):
                    st[nm] = [v * rng.choice([0.75, 1.25]) for v in st[nm]]
                elif nm == "s":
                    st[nm] = [min(0.875, v * rng.choice([0.75, 1.125])) for v in st[nm]]
                elif nm == "rho":
                    st[nm] = st[nm][:-1] + [rng.choice([0.0, 0.25, 0.5, 1.0])]
                elif nm == "origin":
                    st[nm] = [st[nm][0] + 0.125]
                elif nm == "tree.heights":
                    st[nm] = [h + 1 / 64 for h in st[nm]]
                elif nm == "times":
                    st[nm] = [0.0] + [v - 1 / 128 for v in st[nm][1:]]
                elif nm == "rem":
                    st[nm] = [rng.choice([0.0, 0.25, 1.0])] * m
                hist.append(nm)
                replay = {"case": slim(c), "class": cls, "history": list(hist), "state": dict(st), "with_removal": with_r}
                try:
                    dic[nm].tensor = tt(st[nm])
                    v = float(model().reshape(()).item())
                    broken = inputs_intact(dic, st, names)
                    # a second evaluation of the SAME object with nothing changed (cache bypassed)
                    model.lp_needs_update = True
                    v_again = float(model().reshape(()).item())
                    broken = broken or inputs_intact(dic, st, names)
                    fresh, _ = build(spec_of(st))
                    fv = float(fresh().reshape(()).item())
                except Exception as e:
                    fail(f"{cls}:history-raises:{type(e).__name__}", f"{cls}: after updating {hist} evaluation raises {e!r}"[:220], replay)
                    break
                ck.case(("history", cls, trial, step), nontrivial=True, bucket=f"history/{cls}/{'relative/' if rel else ''}{nm}")
                replay["relative_times"] = rel
                if broken:
                    fail(f"{cls}:mutates-input:{'relative-times' if rel else 'plain'}", f"{cls}: evaluation wrote into a Parameter's tensor — {broken} "
                         f"(history {hist}{', relative_times' if rel else ''})", replay)
                    break
                if not (v == v_again or (math.isnan(v) and math.isnan(v_again))):
                    fail(f"{cls}:second-evaluation-differs:{'relative-times' if rel else 'plain'}", f"{cls}: evaluating the same object twice gives {v!r} then {v_again!r} "
                         f"(history {hist}{', relative_times' if rel else ''})", replay)
                    break
                if not (close(v, fv, 1e-12) or (math.isnan(v) and math.isnan(fv))):
                    fail(f"{cls}:stale-after-update:{nm}", f"{cls}: after updating {nm} through Parameter.tensor (history {hist}) the model returns {v!r}, "
                         f"a freshly built model {fv!r}", replay)
                    break
            else:
                if not math.isnan(v):
                    copies_and_moves(ck, fail, model, dic, spec_of, st, names, dict(replay, deepcopy=True), cls)


def batches(ck, drv, fail, trials=12):
    """batched evaluation in which ONE sample holds a special value (rho exactly 0 or 1 at the present, equal rates across
    epochs, a boundary exactly on a sampling time, all tips contemporaneous) and the others do not: every row must equal
    the evaluation of that sample alone (implementation) and the Lean model on that slice"""
    torch = T()["torch"]
    bdsk = T()["bdsk"]
    rng = ck.rng
    tt = TT
    for trial in range(trials):
        base = gen_case(rng, max_m=4, n_max=5, allow=("rhomid",))
        if len(base["lam"]) < 2 or all(h == 0 for h in base["tips"]):
            continue
        base["mode"], base["root_edge"], base["short_rho"] = "given", False, False
        m = len(base["lam"])
        T_ = base["times"][-1]
        use_r = rng.random() < 0.3
        base["r"] = [rng.choice([0.0, 0.5, 1.0]) for _ in range(m)] if use_r else None
        special = rng.choice(["rho-last-0", "rho-last-1", "equal-rates", "boundary-on-tip", "all-contemporaneous"])
        samples = []
        for k in range(3):
            c = dict(base)
            c["lam"] = [v * (1 + 0.125 * k) for v in base["lam"]]
            c["rho"] = base["rho"][:-1] + [0.5]
            if k == 1:
                if special == "rho-last-0":
                    c["rho"] = base["rho"][:-1] + [0.0]
                elif special == "rho-last-1":
                    c["rho"] = base["rho"][:-1] + [1.0]
                elif special == "equal-rates":
                    c["lam"], c["mu"], c["psi"] = [base["lam"][0]] * m, [base["mu"][0]] * m, [base["psi"][0]] * m
                elif special == "boundary-on-tip":
                    ys = sorted({T_ - h for h in base["tips"] if 0 < T_ - h < T_})
                    if ys:
                        y = rng.choice(ys)
                        inner = sorted(set([b for b in base["times"][1:-1] if b != y][: m - 2] + [y]))
                        if len(inner) == m - 1:
                            c["times"] = [0.0] + inner + [T_]
                elif special == "all-contemporaneous":
                    shift = max(base["tips"])
                    c["tips"] = [0.0] * len(base["tips"])
                    c["ints"] = sorted(min(T_ - 1 / 16, h) for h in base["ints"])
            samples.append(c)
        try:
            d = bdsk.PiecewiseConstantBirthDeath(
                tt([c["lam"] for c in samples]), tt([c["mu"] for c in samples]), tt([c["psi"] for c in samples]),
                rho=tt([c["rho"] for c in samples]), origin=tt([[T_]] * 3), times=tt([c["times"][:-1] for c in samples]),
                survival=base["survival"], removal_probability=None if not use_r else tt([c["r"] for c in samples]))
            held = {"lambda_": d.lambda_, "mu": d.mu, "psi": d.psi, "rho": d.rho, "origin": d.origin, "times": d.times}
            if use_r:
                held["removal_probability"] = d.removal_probability
            before = {k: t_.clone() for k, t_ in held.items()}
            v = d.log_prob(tt([heights_list(c) for c in samples]))
            rows = [float(x) for x in v.reshape(-1).tolist()]
            err = None if len(rows) == 3 else f"result has shape {list(v.shape)}"
            for k, t_ in held.items():
                if not same_bits(t_, before[k]):
                    fail(f"bdsk:mutates-input:batch", f"batched log_prob wrote into its input {k}: {before[k].tolist()} -> {t_.tolist()}",
                         {"special": special, "samples": [slim(c) for c in samples], "case": slim(samples[1])})
        except Exception as e:
            rows, err = None, f"{type(e).__name__}: {str(e)[:120]}"
        replay = {"special": special, "samples": [slim(c) for c in samples], "case": slim(samples[1])}
        ck.case(("batch", trial), nontrivial=True, bucket="batch/" + special)
        singles = [impl_value(c) for c in samples]
        if err is not None:
            if all(k == "ok" for k, _ in singles):
                fail(f"bdsk:batch-fails:{special}", f"batched log_prob (sample 1 special: {special}) fails: {err}; every sample alone evaluates", replay)
            continue
        for k, (c, (kind, sv)) in enumerate(zip(samples, singles)):
            if kind != "ok":
                continue
            if math.isnan(rows[k]):
                fail(f"bdsk:log_prob-nan:{'rho-one' if 1.0 in c['rho'] else special}", f"batched log_prob row {k} is NaN on a valid sample (sample 1 special: {special}; "
                     f"rho = {c['rho']}, r = {c['r']})", dict(replay, case=slim(c), row=k, batched=rows))
                break
            if not close(rows[k], sv, 1e-12):
                fail(f"bdsk:batch-row-differs:{special}", f"batched log_prob row {k} = {rows[k]!r}, the same sample alone gives {sv!r} "
                     f"(sample 1 special: {special})", dict(replay, row=k, batched=rows, alone=[x[1] for x in singles]))
                break
            if drv:
                mv = model_value(drv, c, effective_times(c))
                if mv is not None and not close(rows[k], mv["value"]):
                    ck.mismatch("batched row differs from the Lean model on that slice", {"special": special, "row": k, "impl": rows[k], "model": mv["value"], "case": slim(c)})


def histories_replay(obj, out):
    """re-run a recorded update history on a live model"""
    torch = T()["torch"]
    c = _fix_tree(obj["case"])
    cls, m = obj["class"], len(obj["case"]["lam"])
    st = {"R": [l / (mu + ps) for l, mu, ps in zip(c["lam"], c["mu"], c["psi"])], "delta": [mu + ps for mu, ps in zip(c["mu"], c["psi"])],
          "s": [ps / (mu + ps) for mu, ps in zip(c["mu"], c["psi"])], "lambda": list(c["lam"]), "mu": list(c["mu"]), "psi": list(c["psi"]),
          "rho": list(c["rho"]), "origin": [c["times"][-1]],
          "times": [x / c["times"][-1] for x in c["times"][:-1]] if obj.get("relative_times") else list(c["times"][:-1]),
          "tree.heights": postorder_ints(c["tree"]), "rem": [0.5] * m}

    def spec_of(st):
        cc = dict(c, ints=list(st["tree.heights"]))
        if cls == "BDSKModel":
            sp = {"id": "model", "type": "BDSKModel", "tree_model": tree_json(cc), "R": P("R", st["R"]), "delta": P("delta", st["delta"]),
                  "s": P("s", st["s"]), "rho": P("rho", st["rho"]), "origin": P("origin", st["origin"]), "survival": c["survival"]}
            if m > 1:
                sp["times"] = P("times", st["times"])
                if obj.get("relative_times"):
                    sp["relative_times"] = True
            if obj.get("with_removal"):
                sp["removal_probability"] = P("rem", st["rem"])
            return sp
        return {"id": "model", "type": "BirthDeathModel", "tree_model": tree_json(cc), "lambda": P("lambda", st["lambda"]), "mu": P("mu", st["mu"]),
                "psi": P("psi", st["psi"]), "rho": P("rho", st["rho"]), "origin": P("origin", st["origin"]), "survival": c["survival"]}

    try:
        model, dic = build(spec_of(st))
        model()
        # the final state is recorded; apply it parameter by parameter in the order of the history
        for nm in obj["history"]:
            st[nm] = obj["state"][nm]
            dic[nm].tensor = TT(st[nm])
            v = float(model().reshape(()).item())
            model.lp_needs_update = True
            v2 = float(model().reshape(()).item())
            for k_ in st:
                if k_ in dic and not same_bits(dic[k_].tensor, TT(st[k_])):
                    out.append(f"after updating {nm}: Parameter {k_} was given {st[k_]}, now holds {dic[k_].tensor.tolist()}")
            if not (v == v2 or (math.isnan(v) and math.isnan(v2))):
                out.append(f"after updating {nm}: the same object evaluates to {v!r} then {v2!r}")
            fv = float(build(spec_of(st))[0]().reshape(()).item())
            if not (close(v, fv, 1e-12) or (math.isnan(v) and math.isnan(fv))):
                out.append(f"after updating {nm}: live model {v!r}, fresh model {fv!r}")
    except Exception as e:
        out.append("raises " + repr(e)[:200])


def replay(path: str) -> int:
    obj = json.loads(Path(path).read_text())
    T()
    sig = obj.get("signature", "")
    if "case" not in obj:
        print("replay names broken obligations only:", obj.get("broken_obligations"))
        return 1
    c = _fix_tree(obj["case"])
    bad = False
    reg = obj.get("regime", "f64")
    if reg != "f64":
        print(f"dtype regime {reg}: {REGIME_TEXT[reg]}")
        if sig.startswith("bdsk:dtype-"):
            k0, v0 = impl_value(_fix_tree(obj["coarse"]) if "coarse" in obj else c)
            with regime(reg):
                k1, v1 = impl_value(c)
                kc, vc = impl_value(_fix_tree(obj["coarse"])) if "coarse" in obj else (k0, v0)
            tol = TOL_B if reg == "B" else (1e-9 if "coarse" in obj else 1e-10)
            print(f"default float64 / float64 inputs{' (unsplit grid)' if 'coarse' in obj else ''}: {k0} {v0!r}")
            if "coarse" in obj:
                print(f"regime {reg}, unsplit grid: {kc} {vc!r}")
            print(f"regime {reg}: {k1} {v1!r}")
            ref = vc if "coarse" in obj else v0
            bad = k1 != "ok" or not isinstance(ref, float) or not close(v1, ref, tol)
            print("VIOLATES" if bad else "ok")
            return 1 if bad else 0
        obj["_ref"] = impl_value(c)
        with regime(reg):
            return _replay(obj, c, sig.split("/", 1)[1] if sig.startswith("dtype-") and "/" in sig else sig)
    return _replay(obj, c, sig)


def _replay(obj, c, sig) -> int:
    bad = False
    if "history" in obj or "samples" in obj:
        ck = Check("C09", "quick", 0)
        print("histories and batches are re-searched with the recorded seed stream; recorded failing input:")
        print(json.dumps({k: obj[k] for k in ("class", "history", "state", "special", "row", "batched", "alone") if k in obj})[:600])
        if "samples" in obj:
            torch, bdsk = T()["torch"], T()["bdsk"]
            tt = TT
            ss = [_fix_tree(x) for x in obj["samples"]]
            singles = [impl_value(x) for x in ss]
            try:
                d = bdsk.PiecewiseConstantBirthDeath(tt([x["lam"] for x in ss]), tt([x["mu"] for x in ss]), tt([x["psi"] for x in ss]),
                                                      rho=tt([x["rho"] for x in ss]), origin=tt([[ss[0]["times"][-1]]] * len(ss)), times=tt([x["times"][:-1] for x in ss]),
                                                      survival=ss[0]["survival"], removal_probability=None if ss[0]["r"] is None else tt([x["r"] for x in ss]))
                rows = d.log_prob(tt([x["tips"] + x["ints"] for x in ss])).reshape(-1).tolist()
            except Exception as e:
                rows = repr(e)
            print("batched:", rows, "\nalone  :", singles)
            bad = not (isinstance(rows, list) and len(rows) == len(ss) and all(k != "ok" or close(r, v, 1e-12) for r, (k, v) in zip(rows, singles)))
        else:
            out = []
            histories_replay(obj, out)
            bad = bool(out)
            for line in out:
                print(line)
        print("VIOLATES" if bad else "ok")
        return 1 if bad else 0
    if sig.startswith("BDSKModel") or sig.startswith("BirthDeathModel"):
        ck = Check("C09", "quick", 0)
        out = []
        f = lambda s, w, r: out.append((s, w))  # noqa: E731
        if "option" in obj:
            ck.rng.seed(0)
            try:
                model, _ = build(obj["spec"])
                print("BDSKModel() =", float(model().reshape(()).item()))
            except Exception as e:
                print("raises", repr(e)[:200])
                bad = True
            cd = {"survival": dict(c, survival=not c["survival"]), "removal_probability": with_removal(c, 0.5),
                  "origin_is_root_edge": dict(c, root_edge=True), "relative_times": dict(c, mode="relative")}[obj["option"]]
            print("direct with option:", impl_value(cd), " direct without:", impl_value(c))
            if not bad:
                v = float(build(obj["spec"])[0]().reshape(()).item())
                kd, vd = impl_value(cd)
                bad = kd == "ok" and not close(v, vd, 1e-9)
        else:
            ref = obj.get("_ref", impl_value(c))
            json_models(ck, c, ref[1] if ref[0] == "ok" else float("nan"), f)
            for s, w in out:
                print(("* " if s == sig else "  ") + s + " — " + w)
            bad = any(s == sig for s, _ in out)
    else:
        kind, val = impl_value(c)
        print("log_prob:", kind, val, "features:", features(c))
        if "coarse" in obj:
            kc, vc = impl_value(_fix_tree(obj["coarse"]))
            print("coarse  :", kc, vc)
            bad = kind != "ok" or not close(val, vc, 1e-9)
        elif "oracle" in obj:
            m = len(c["lam"])
            want = float(O.const_logdensity(c["lam"][0], c["mu"][0], c["psi"][0], c["rho"][0], c["times"][-1], c["tips"], c["ints"], c["survival"]))
            off = math.log(2.0) * (len(c["tips"]) - 1) if c["r"] is not None else 0.0
            print("constant-rate oracle:", want)
            bad = kind != "ok" or not close(val - off, want, 1e-9)
        elif "rk4" in obj:
            par = {k: c[k] for k in ("lam", "mu", "psi", "rho", "times", "r")}
            rk = O.master_equations(par, c["tree"], c["survival"], 1200)
            off = math.log(2.0) * (len(c["tips"]) - 1) if c["r"] is not None else 0.0
            print("RK4 master equations:", rk)
            bad = kind != "ok" or not close(val - off, rk, 1e-6)
        elif any(k in obj for k in ("model", "reference", "absolute", "other")):
            name, ref = next((k, obj[k]) for k in ("model", "reference", "absolute", "other") if k in obj)
            print({"model": "Lean model", "reference": "reference value", "absolute": "same shifts spelled absolutely", "other": "other numbering"}[name] + ":", ref,
                  " node heights as handed over:", heights_list(c))
            bad = kind != "ok" or not close(val, ref, 1e-9)
        else:
            bad = kind != "ok" or math.isnan(val)
    print("VIOLATES" if bad else "ok")
    return 1 if bad else 0
