"""C12 scenario catalogue: every density reachable in torchtree, built the way /repo/test builds
them (JSON through process_object, or the constructors the tests use), as a function of its
continuous leaf parameters.

A *spec* is a plain JSON-able dict that fixes everything concrete (family, options, tree, dates,
sequences, grid, base point).  `scenario(spec)` returns a `Scen` whose `make(vals, grad)` builds a
FRESH object graph with the leaf parameters set to `vals` (float64) and returns a `Built`
(callable model, leaf Parameter objects, event times for the tie signature).  Fresh builds keep the
oracle independent of cache-staleness questions (that is C11's subject).

Every random choice comes from the `random.Random` handed in.
"""
from __future__ import annotations

import math

import torch

_IMPORTED = False


def _imports():
    global _IMPORTED
    if _IMPORTED:
        return
    import torchtree  # noqa: F401
    import torchtree.distributions.bayesian_bridge  # noqa: F401
    import torchtree.distributions.ctmc_scale  # noqa: F401
    import torchtree.distributions.distributions  # noqa: F401
    import torchtree.distributions.gmrf  # noqa: F401
    import torchtree.distributions.gmrf_integrated  # noqa: F401
    import torchtree.distributions.inverse_gamma  # noqa: F401
    import torchtree.distributions.joint_distribution  # noqa: F401
    import torchtree.distributions.log_normal  # noqa: F401
    import torchtree.distributions.multivariate_normal  # noqa: F401
    import torchtree.distributions.normal  # noqa: F401
    import torchtree.distributions.one_on_x  # noqa: F401
    import torchtree.distributions.scale_mixture  # noqa: F401
    import torchtree.distributions.transforms  # noqa: F401
    import torchtree.distributions.tree_prior  # noqa: F401
    import torchtree.evolution.alignment  # noqa: F401
    import torchtree.evolution.bdsk  # noqa: F401
    import torchtree.evolution.birth_death  # noqa: F401
    import torchtree.evolution.branch_model  # noqa: F401
    import torchtree.evolution.coalescent  # noqa: F401
    import torchtree.evolution.datatype  # noqa: F401
    import torchtree.evolution.site_model  # noqa: F401
    import torchtree.evolution.site_pattern  # noqa: F401
    import torchtree.evolution.substitution_model  # noqa: F401
    import torchtree.evolution.taxa  # noqa: F401
    import torchtree.evolution.tree_likelihood  # noqa: F401
    import torchtree.evolution.tree_model  # noqa: F401

    _IMPORTED = True


class Built:
    def __init__(self, model, params, events=None, n_fixed=0):
        self.model = model  # callable -> tensor
        self.params = params  # leaf name -> object with .tensor / .grad
        self._events = events
        self.n_fixed = n_fixed  # leading entries of events() that are sampling times (data; may tie)

    def events(self):
        """event times whose ORDER the density depends on (None: no ordering involved)"""
        if self._events is None:
            return None
        with torch.no_grad():
            return [float(v) for v in self._events()]


class Scen:
    def __init__(self, spec, make):
        self.spec = spec
        self.name = spec["name"]
        self.family = spec["family"]
        self.x = {k: list(v) for k, v in spec["x"].items()}
        self.bounds = spec["bounds"]  # leaf -> [lo, hi] (None = unbounded)
        self.coords = spec.get("coords", {})  # leaf -> list of coordinates that are parameters
        self.make = make


def hold_fixed(spec, name):
    """the leaf `name` sits at an admissible SPECIAL value: it is built like every other parameter but no
    derivative is taken with respect to it (the other parameters are differentiated at interior points)"""
    spec.setdefault("coords", {})[name] = []
    spec.setdefault("fixed", []).append(name)


# ----------------------------------------------------------------------------- JSON helpers
PDT = {"name": "torch.float64", "t": torch.float64}  # dtype of the leaf parameters (see c12.dtype_regime)


def _fl(v):
    """floats of a (possibly nested: one row per sample) list"""
    return [_fl(x) for x in v] if isinstance(v, (list, tuple)) else float(v)


def P(id_, vals, grad=False):
    return {"id": id_, "type": "Parameter", "tensor": _fl(vals), "dtype": PDT["name"], "requires_grad": bool(grad)}


def TP(id_, transform, x, parameters=None):
    d = {"id": id_, "type": "TransformedParameter", "transform": transform, "x": x}
    if parameters is not None:
        d["parameters"] = parameters
    return d


FULL = {
    "Parameter": "torchtree.core.parameter.Parameter",
    "TransformedParameter": "torchtree.core.parameter.TransformedParameter",
    "Taxa": "torchtree.evolution.taxa.Taxa", "Taxon": "torchtree.evolution.taxa.Taxon",
    "Alignment": "torchtree.evolution.alignment.Alignment", "SitePattern": "torchtree.evolution.site_pattern.SitePattern",
    "NucleotideDataType": "torchtree.evolution.datatype.NucleotideDataType",
    "JC69": "torchtree.evolution.substitution_model.nucleotide.JC69",
    "HKY": "torchtree.evolution.substitution_model.nucleotide.HKY",
    "GTR": "torchtree.evolution.substitution_model.nucleotide.GTR",
    "ConstantSiteModel": "torchtree.evolution.site_model.ConstantSiteModel",
    "WeibullSiteModel": "torchtree.evolution.site_model.WeibullSiteModel",
    "InvariantSiteModel": "torchtree.evolution.site_model.InvariantSiteModel",
    "UnRootedTreeModel": "torchtree.evolution.tree_model.UnRootedTreeModel",
    "TimeTreeModel": "torchtree.evolution.tree_model.TimeTreeModel",
    "ReparameterizedTimeTreeModel": "torchtree.evolution.tree_model.ReparameterizedTimeTreeModel",
    "StrictClockModel": "torchtree.evolution.branch_model.StrictClockModel",
    "SimpleClockModel": "torchtree.evolution.branch_model.SimpleClockModel",
    "TreeLikelihoodModel": "torchtree.evolution.tree_likelihood.TreeLikelihoodModel",
}
for _k in ("ConstantCoalescentModel", "ExponentialCoalescentModel", "PiecewiseConstantCoalescentModel",
           "PiecewiseConstantCoalescentGridModel", "PiecewiseLinearCoalescentGridModel"):
    FULL[_k] = "torchtree.evolution.coalescent." + _k


def restyle(js):
    """the same JSON written another way: full dotted type names, keys in reverse order"""
    if isinstance(js, dict):
        out = {}
        for k in reversed(list(js.keys())):
            v = js[k]
            if k == "type" and isinstance(v, str):
                v = FULL.get(v, v)
            out[k] = restyle(v)
        return out
    if isinstance(js, list):
        return [restyle(v) for v in js]
    return js


def hoist(js, dic, process_object, keep=()):
    """process every nested object FIRST, on its own, and replace it by a reference to its id: inline vs
    referenced sub-objects must give the same model"""
    if not isinstance(js, dict):
        return js
    out = {}
    for k, v in js.items():
        if isinstance(v, dict) and "id" in v and "type" in v and k not in keep:
            process_object(hoist(v, dic, process_object), dic)
            out[k] = v["id"]
        else:
            out[k] = v
    return out


def route_eligible(spec):
    if spec["family"] == "like":
        return (spec["subst"] in ("JC69", "HKY", "GTR") and spec["tree"]["kind"] in ("unrooted", "time", "ratio")
                and spec["seqkind"] == "nuc")
    if spec["family"] == "coal":
        return (spec["kind"] in ("constant", "exponential", "skyride", "skygrid", "pwlinear")
                and spec["tree"]["kind"] in ("time", "ratio") and not spec["theta_tp"])
    return False


def _param(id_, vals, grad):
    from torchtree.core.parameter import Parameter

    return Parameter(id_, torch.tensor(_fl(vals), dtype=PDT["t"], requires_grad=grad))


def _tree_ctor(t, vals, grad, dic):
    """trees through the json_factory helpers of the tree classes (+ from_json), as /repo/test does"""
    from torchtree.evolution.tree_model import ReparameterizedTimeTreeModel, TimeTreeModel, UnRootedTreeModel

    names = ["T%d" % i for i in range(t["n"])]
    taxa = dict(zip(names, [float(d) for d in t["dates"]]))
    if t["kind"] == "unrooted":
        js = UnRootedTreeModel.json_factory("tree", t["newick"], P("bl", vals["bl"], grad), taxa)
        return UnRootedTreeModel.from_json(js, dic)
    if t["kind"] == "time":
        js = TimeTreeModel.json_factory("tree", t["newick"], P("heights", vals["heights"], grad), taxa)
        return TimeTreeModel.from_json(js, dic)
    js = ReparameterizedTimeTreeModel.json_factory("tree", t["newick"], taxa, ratios=P("ratios", vals["ratios"], grad),
                                                   root_height=P("root", vals["root"], grad))
    return ReparameterizedTimeTreeModel.from_json(js, dic)


def taxa_json(dates):
    return {"id": "taxa", "type": "Taxa",
            "taxa": [{"id": "T%d" % i, "type": "Taxon", "attributes": {"date": float(d)}} for i, d in enumerate(dates)]}


def random_newick(rng, n):
    nodes = ["T%d" % i for i in range(n)]
    rng.shuffle(nodes)
    while len(nodes) > 1:
        a = nodes.pop(rng.randrange(len(nodes)))
        b = nodes.pop(rng.randrange(len(nodes)))
        nodes.append("(%s,%s)" % (a, b))
    return nodes[0] + ";"


def random_dates(rng, n, hetero):
    if not hetero:
        return [0.0] * n
    d = [0.0] + [rng.choice([0.0, 0.5, 1.0, 1.5, 2.0]) for _ in range(n - 1)]
    rng.shuffle(d)
    return d


NUC = "ACGT"
CODONS = [a + b + c for a in "ACGT" for b in "ACGT" for c in "ACGT" if a + b + c not in ("TAA", "TAG", "TGA")]
AAS = "ACDEFGHIKLMNPQRSTVWY"


def random_seqs(rng, n, sites, kind="nuc", ambig=True):
    out = []
    if kind == "nuc":
        root = [rng.choice(NUC) for _ in range(sites)]
        for _ in range(n):
            s = [c if rng.random() < 0.6 else rng.choice(NUC) for c in root]
            if ambig:
                s = [c if rng.random() > 0.08 else rng.choice("-NRY") for c in s]
            out.append("".join(s))
    elif kind == "codon":
        root = [rng.choice(CODONS) for _ in range(sites)]
        for _ in range(n):
            out.append("".join(c if rng.random() < 0.6 else rng.choice(CODONS) for c in root))
    elif kind == "aa":
        root = [rng.choice(AAS) for _ in range(sites)]
        for _ in range(n):
            out.append("".join(c if rng.random() < 0.6 else rng.choice(AAS) for c in root))
    elif kind == "gen3":
        root = [rng.choice("ABC") for _ in range(sites)]
        for _ in range(n):
            out.append("".join(c if rng.random() < 0.6 else rng.choice("ABC") for c in root))
    return out


def rpos(rng, lo=0.3, hi=3.0):
    return math.exp(rng.uniform(math.log(lo), math.log(hi)))


def rsimplex(rng, k):
    w = [rng.uniform(0.5, 2.0) for _ in range(k)]
    s = sum(w)
    return [v / s for v in w]


# ----------------------------------------------------------------------------- tree pieces
TREE_KINDS = ("unrooted", "unrooted_exp", "time", "ratio", "ratio_tp", "shift")


def gen_tree(rng, n, kind, hetero=True, dates=None):
    """concrete tree spec with its leaf parameters' base point and bounds"""
    _imports()
    t = {"n": n, "kind": kind, "newick": random_newick(rng, n)}
    x, b = {}, {}
    if kind in ("unrooted", "unrooted_exp"):
        t["dates"] = [0.0] * n
        bl = [rpos(rng, 0.02, 0.6) for _ in range(2 * n - 3)]
        if kind == "unrooted":
            x["bl"], b["bl"] = bl, [0.0, None]
        else:
            x["logbl"], b["logbl"] = [math.log(v) for v in bl], [None, None]
        return t, x, b
    t["dates"] = list(dates) if dates is not None else random_dates(rng, n, hetero)
    ratios = [rng.uniform(0.15, 0.85) for _ in range(n - 2)]
    root = max(t["dates"]) + rng.uniform(1.0, 3.0)
    if kind == "ratio":
        x["ratios"], b["ratios"] = ratios, [0.0, 1.0]
        x["root"], b["root"] = [root], [max(t["dates"]), None]
    elif kind == "ratio_tp":
        x["zratios"], b["zratios"] = [math.log(r / (1 - r)) for r in ratios], [None, None]
        x["logroot"], b["logroot"] = [math.log(root)], [math.log(max(t["dates"]) + 1e-3) if max(t["dates"]) > 0 else None, None]
    else:
        # heights / shifts of the tree that has these ratios
        from torchtree.core.utils import process_object

        dic = {}
        tm = process_object(_tree_json({"n": n, "kind": "ratio", "newick": t["newick"], "dates": t["dates"]},
                                       {"ratios": ratios, "root": [root]}, False), dic)
        with torch.no_grad():
            nh = tm.node_heights
            heights = [float(v) for v in nh[n:]]
            if kind == "time":
                x["heights"], b["heights"] = heights, [0.0, None]
            else:
                sh = [0.0] * (n - 1)
                for node, l, r in tm.postorder:
                    sh[node - n] = float(nh[node] - max(nh[l], nh[r]))
                x["shifts"], b["shifts"] = sh, [0.0, None]
    return t, x, b


def _tree_json(t, vals, grad):
    kind, n = t["kind"], t["n"]
    base = {"id": "tree", "newick": t["newick"], "taxa": taxa_json(t["dates"])}
    if kind == "unrooted":
        base.update(type="UnRootedTreeModel", branch_lengths=P("bl", vals["bl"], grad))
    elif kind == "unrooted_exp":
        base.update(type="UnRootedTreeModel",
                    branch_lengths=TP("bl", "torch.distributions.ExpTransform", P("logbl", vals["logbl"], grad)))
    elif kind == "time":
        base.update(type="TimeTreeModel", internal_heights=P("heights", vals["heights"], grad))
    elif kind == "ratio":
        base.update(type="ReparameterizedTimeTreeModel", ratios=P("ratios", vals["ratios"], grad),
                    root_height=P("root", vals["root"], grad))
    elif kind == "ratio_tp":
        base.update(type="ReparameterizedTimeTreeModel",
                    ratios=TP("ratios", "torch.distributions.SigmoidTransform", P("zratios", vals["zratios"], grad)),
                    root_height=TP("root", "torch.distributions.ExpTransform", P("logroot", vals["logroot"], grad)))
    elif kind == "shift":
        base.update(type="ReparameterizedTimeTreeModel", shifts=P("shifts", vals["shifts"], grad))
    else:
        raise ValueError(kind)
    return base


def _tree_leafnames(kind):
    return {"unrooted": ["bl"], "unrooted_exp": ["logbl"], "time": ["heights"], "ratio": ["ratios", "root"],
            "ratio_tp": ["zratios", "logroot"], "shift": ["shifts"]}[kind]


def _rooted(kind):
    return kind not in ("unrooted", "unrooted_exp")


def _tree_events(tm):
    return lambda: tm.node_heights.reshape(-1)


# ----------------------------------------------------------------------------- tree likelihood
SUBST_KINDS = ("JC69", "HKY", "HKY_sb", "GTR", "GTR_sb", "GenSym", "GenNonSym", "GenNonSym12", "GeneralJC69", "MG94",
               "LG", "WAG")
# models whose p_t goes through torch.linalg.eigh TODAY (the only ones the known repeated-eigenvalue finding is about)
EIGH_MODELS = ("HKY", "HKY_sb", "GTR", "GTR_sb", "GenSym", "MG94")
SUBST_PARAM_LEAVES = ("kappa", "rates6", "gr", "freqs", "zfreqs", "cfreqs", "alpha", "beta")
SITE_KINDS = ("const", "const_mu", "weibull", "weibull_inv", "weibull_mu", "inv", "inv_mu")


def gen_like(rng, subst, site, treekind, rescale, tip_states=False, ambig=True, n=None, sites=None, clock="strict",
             pinv_zero=False, subst_point=None):
    n = n or rng.randint(4, 6)
    sites = sites or rng.randint(6, 10)
    t, x, b = gen_tree(rng, n, treekind)
    spec = {"family": "like", "subst": subst, "site": site, "tree": t, "rescale": bool(rescale),
            "tip_states": bool(tip_states), "use_ambiguities": bool(ambig and not tip_states)}
    seqkind = {"MG94": "codon", "LG": "aa", "WAG": "aa", "GeneralJC69": "gen3"}.get(subst, "nuc")
    if seqkind == "codon":
        sites = min(sites, 4)
    spec["seqkind"] = seqkind
    spec["seqs"] = random_seqs(rng, n, sites, seqkind, ambig=ambig and not tip_states)
    if _rooted(treekind):
        spec["clock"] = clock
        if clock == "strict":
            x["rate"], b["rate"] = [rpos(rng, 0.03, 0.3)], [0.0, None]
        else:
            x["rates"], b["rates"] = [rpos(rng, 0.03, 0.3) for _ in range(2 * n - 2)], [0.0, None]
    if subst in ("HKY", "HKY_sb"):
        k = rpos(rng, 1.6, 6.0) if rng.random() < 0.7 else rpos(rng, 0.2, 0.6)
        x["kappa"], b["kappa"] = [k], [0.0, None]
    if subst in ("GTR", "GTR_sb"):
        x["rates6"], b["rates6"] = [rpos(rng, 0.3, 3.0) for _ in range(6)], [0.0, None]
    if subst in ("HKY", "GTR", "GenSym", "GenNonSym", "GenNonSym12"):
        x["freqs"], b["freqs"] = rsimplex(rng, 4), [0.0, None]
    if subst in ("HKY_sb", "GTR_sb"):
        x["zfreqs"], b["zfreqs"] = [rng.uniform(-0.7, 0.7) for _ in range(3)], [None, None]
    if subst == "GenSym":
        spec["mapping"] = [0, 1, 2, 1, 0, 2]
        x["gr"], b["gr"] = [rpos(rng, 0.3, 3.0) for _ in range(3)], [0.0, None]
    if subst == "GenNonSym12":
        spec["mapping"] = list(range(12))
        x["gr"], b["gr"] = [rpos(rng, 0.3, 3.0) for _ in range(12)], [0.0, None]
    if subst == "GenNonSym":
        spec["mapping"] = [0, 1, 2, 3, 4, 0, 1, 5, 2, 3, 4, 5]
        x["gr"], b["gr"] = [rpos(rng, 0.3, 3.0) for _ in range(6)], [0.0, None]
    if subst == "MG94":
        x["alpha"], b["alpha"] = [rpos(rng, 0.5, 2.0)], [0.0, None]
        x["beta"], b["beta"] = [rpos(rng, 0.2, 1.5)], [0.0, None]
        x["kappa"], b["kappa"] = [rpos(rng, 1.5, 4.0)], [0.0, None]
        x["cfreqs"], b["cfreqs"] = rsimplex(rng, 61), [0.0, None]
    if site in ("const_mu", "weibull_mu", "inv_mu"):
        x["mu"], b["mu"] = [rpos(rng, 0.5, 2.0)], [0.0, None]
    if site.startswith("weibull"):
        spec["categories"] = rng.choice([2, 3, 4])
        x["shape"], b["shape"] = [rpos(rng, 0.3, 2.5)], [0.0, None]
    if site in ("weibull_inv", "inv", "inv_mu"):
        x["pinv"], b["pinv"] = [rng.uniform(0.1, 0.6)], [0.0, 1.0]
    spec["x"], spec["bounds"] = x, b
    spec["name"] = "like/%s/%s/%s/rescale=%d%s" % (subst, site, treekind, rescale, "/tipstates" if tip_states else "")
    if subst_point:
        apply_subst_point(spec, subst_point, rng)
    if pinv_zero and "pinv" in x:
        x["pinv"] = [0.0]
        hold_fixed(spec, "pinv")
        spec["name"] += "/pinv=0"
    return spec


SUBST_POINTS = ("equal_rates", "grouped_rates", "uniform_freqs", "equal_rates+uniform_freqs", "unit_values")


def apply_subst_point(spec, point, rng):
    """put the substitution-model parameters ON a special but valid point.  Whether the point is a REPEATED
    EIGENVALUE of the matrix handed to eigh is measured on the implementation (`tie_gap`); only then, and only for
    the eigh-based models, are the substitution parameters held (known finding) - the cell is recorded."""
    x, su = spec["x"], spec["subst"]
    a_, b_ = rpos(rng, 0.5, 1.5), rpos(rng, 1.8, 3.5)
    if "equal_rates" in point or point == "unit_values":
        v = 1.0 if point == "unit_values" or rng.random() < 0.5 else a_
        for k in ("kappa", "alpha", "beta"):
            if k in x:
                x[k] = [1.0]
        for k in ("rates6", "gr"):
            if k in x:
                x[k] = [v] * len(x[k])
    if point == "grouped_rates":
        if "kappa" in x:
            x["kappa"] = [b_]
        if "rates6" in x:
            x["rates6"] = [a_, b_, a_, a_, b_, a_]  # transversions a, transitions b
        if "gr" in x:
            h = len(x["gr"]) // 2
            x["gr"] = [a_] * h + [b_] * (len(x["gr"]) - h)
    if "uniform_freqs" in point or point == "unit_values":
        if "freqs" in x:
            x["freqs"] = [0.25] * 4
        if "zfreqs" in x:
            x["zfreqs"] = [0.0] * 3  # stick-breaking of 0 is the uniform distribution
        if "cfreqs" in x:
            x["cfreqs"] = [1.0 / 61] * 61
    if point == "unit_values":
        for k in ("shape", "mu", "rate"):
            if k in x:
                x[k] = [1.0]
    spec["name"] += "/" + point
    cell = {"model": su, "point": point, "eigh_based": su in EIGH_MODELS}
    if su in EIGH_MODELS:
        gap = tie_gap(spec)
        cell["eigenvalue_gap"] = gap
        if gap is not None and gap < 1e-7:
            for k in SUBST_PARAM_LEAVES:
                if k in x:
                    hold_fixed(spec, k)
            cell["status"] = ("EXCLUDED for the substitution parameters: repeated eigenvalue of the matrix handed to "
                              "torch.linalg.eigh (known finding); branch/site/clock parameters still differentiated")
        else:
            cell["status"] = "tested: rates and frequencies differentiated (no repeated eigenvalue at this point)"
    else:
        cell["status"] = "tested: rates and frequencies differentiated (model does not go through eigh)"
    spec["cell"] = cell
    return spec


def tie_gap(spec):
    """smallest relative gap between eigenvalues of sqrt(pi) Q sqrt(pi)^-1 as the IMPLEMENTATION builds it at the
    point of `spec` (None if it cannot be evaluated)"""
    try:
        b = scenario(dict(spec, coords=dict(spec.get("coords", {})))).make(spec["x"], False)
        m = b.model.subst_model
        with torch.no_grad():
            Q = m.q()
            Q = Q / m.norm(Q).unsqueeze(-1).unsqueeze(-1)
            pi = m.frequencies
            S = pi.sqrt().diag_embed() @ Q @ (1.0 / pi.sqrt()).diag_embed()
            ev = torch.linalg.eigvalsh((S + S.transpose(-1, -2)) / 2).reshape(-1).sort()[0]
            return float((ev[1:] - ev[:-1]).min() / max(1.0, float(ev.abs().max())))
    except Exception:
        return None


def _subst_json(spec, vals, grad):
    s = spec["subst"]
    if s == "JC69":
        return {"id": "subst", "type": "JC69"}
    if s == "GeneralJC69":
        return {"id": "subst", "type": "GeneralJC69", "state_count": 3}
    if s in ("LG", "WAG"):
        return {"id": "subst", "type": "torchtree.evolution.substitution_model.amino_acid." + s}
    if s in ("HKY_sb", "GTR_sb"):
        fr = TP("freqs", "torch.distributions.StickBreakingTransform", P("zfreqs", vals["zfreqs"], grad))
    elif s == "MG94":
        fr = P("cfreqs", vals["cfreqs"], grad)
    else:
        fr = P("freqs", vals["freqs"], grad)
    if s in ("HKY", "HKY_sb"):
        return {"id": "subst", "type": "HKY", "kappa": P("kappa", vals["kappa"], grad), "frequencies": fr}
    if s in ("GTR", "GTR_sb"):
        return {"id": "subst", "type": "GTR", "rates": P("rates6", vals["rates6"], grad), "frequencies": fr}
    if s == "GenSym":
        return {"id": "subst", "type": "GeneralSymmetricSubstitutionModel", "data_type": "nucleotide",
                "mapping": spec["mapping"], "rates": P("gr", vals["gr"], grad), "frequencies": fr}
    if s in ("GenNonSym", "GenNonSym12"):
        return {"id": "subst", "type": "GeneralNonSymmetricSubstitutionModel", "data_type": "nucleotide",
                "mapping": spec["mapping"], "rates": P("gr", vals["gr"], grad), "frequencies": fr, "normalize": True}
    if s == "MG94":
        return {"id": "subst", "type": "MG94", "data_type": "codon", "alpha": P("alpha", vals["alpha"], grad),
                "beta": P("beta", vals["beta"], grad), "kappa": P("kappa", vals["kappa"], grad), "frequencies": fr}
    raise ValueError(s)


def _site_json(spec, vals, grad):
    s = spec["site"]
    d = {"id": "site"}
    if s in ("const", "const_mu"):
        d["type"] = "ConstantSiteModel"
    elif s.startswith("weibull"):
        d.update(type="WeibullSiteModel", categories=spec["categories"], shape=P("shape", vals["shape"], grad))
    else:
        d["type"] = "InvariantSiteModel"
    if "pinv" in vals:
        d["invariant"] = P("pinv", vals["pinv"], grad)
    if "mu" in vals:
        d["mu"] = P("mu", vals["mu"], grad)
    return d


def _datatype_obj(seqkind):
    if seqkind == "nuc":
        return {"id": "nucleotide", "type": "NucleotideDataType"}
    if seqkind == "codon":
        return {"id": "codon", "type": "CodonDataType", "genetic_code": "Universal"}
    if seqkind == "aa":
        return {"id": "aa", "type": "AminoAcidDataType"}
    return {"id": "gen3", "type": "GeneralDataType", "codes": ["A", "B", "C"], "ambiguities": {}}


def make_like(spec):
    _imports()
    from torchtree.core.utils import process_object

    def make_ctor(vals, grad):
        from torchtree.evolution.alignment import Alignment, Sequence
        from torchtree.evolution.branch_model import SimpleClockModel, StrictClockModel
        from torchtree.evolution.datatype import NucleotideDataType
        from torchtree.evolution.site_model import ConstantSiteModel, InvariantSiteModel, WeibullSiteModel
        from torchtree.evolution.site_pattern import SitePattern
        from torchtree.evolution.substitution_model import GTR, HKY, JC69
        from torchtree.evolution.tree_likelihood import TreeLikelihoodModel

        dic = {}
        t = spec["tree"]
        tm = _tree_ctor(t, vals, grad, dic)
        ps = {k: dic[k] for k in _tree_leafnames(t["kind"])}
        for k in spec["x"]:
            if k not in ps:
                ps[k] = _param(k, vals[k], grad)
        taxa = dic["taxa"]
        al = Alignment("al", [Sequence("T%d" % i, q) for i, q in enumerate(spec["seqs"])], taxa, NucleotideDataType(None))
        sp = SitePattern("sp", al)
        su = spec["subst"]
        subst = JC69("subst") if su == "JC69" else (
            HKY("subst", ps["kappa"], ps["freqs"]) if su == "HKY" else GTR("subst", ps["rates6"], ps["freqs"]))
        si = spec["site"]
        if si.startswith("const"):
            site = ConstantSiteModel("site", ps.get("mu"))
        elif si.startswith("weibull"):
            site = WeibullSiteModel("site", ps["shape"], spec["categories"], invariant=ps.get("pinv"), mu=ps.get("mu"))
        else:
            site = InvariantSiteModel("site", ps["pinv"], ps.get("mu"))
        clock = None
        if _rooted(t["kind"]):
            clock = (StrictClockModel("clock", ps["rate"], tm) if spec.get("clock", "strict") == "strict"
                     else SimpleClockModel("clock", ps["rates"], tm))
        # positional for the mandatory arguments, keywords for the optional ones
        m = TreeLikelihoodModel("like", sp, tm, subst, site, clock_model=clock,
                                use_ambiguities=spec["use_ambiguities"], use_tip_states=spec["tip_states"])
        if spec["rescale"]:
            m.rescale = True
        ev = _tree_events(tm) if _rooted(t["kind"]) else None
        return Built(m, {k: ps[k] for k in spec["x"]}, ev, t["n"])

    def make(vals, grad):
        route = spec.get("route", "json")
        if route == "ctor":
            return make_ctor(vals, grad)
        dic = {}
        st = restyle if route == "ref" else (lambda z: z)
        process_object(st(_datatype_obj(spec["seqkind"])), dic)
        dtid = {"nuc": "nucleotide", "codon": "codon", "aa": "aa", "gen3": "gen3"}[spec["seqkind"]]
        t = spec["tree"]
        tjs = st(_tree_json(t, vals, grad))
        if route == "ref":
            tjs = hoist(tjs, dic, process_object)
        tm = process_object(tjs, dic)
        js = {"id": "like", "type": "TreeLikelihoodModel", "tree_model": "tree",
              "site_model": _site_json(spec, vals, grad), "substitution_model": _subst_json(spec, vals, grad),
              "site_pattern": {"id": "sp", "type": "SitePattern",
                               "alignment": {"id": "al", "type": "Alignment", "datatype": dtid, "taxa": "taxa",
                                             "sequences": [{"taxon": "T%d" % i, "sequence": s}
                                                           for i, s in enumerate(spec["seqs"])]}},
              "use_ambiguities": spec["use_ambiguities"], "use_tip_states": spec["tip_states"]}
        if _rooted(t["kind"]):
            if spec.get("clock", "strict") == "strict":
                js["branch_model"] = {"id": "clock", "type": "StrictClockModel", "tree_model": "tree",
                                      "rate": P("rate", vals["rate"], grad)}
            else:
                js["branch_model"] = {"id": "clock", "type": "SimpleClockModel", "tree_model": "tree",
                                      "rate": P("rates", vals["rates"], grad)}
        if route == "ref":
            js = hoist(restyle(js), dic, process_object)
        m = process_object(js, dic)
        if spec["rescale"]:
            m.rescale = True
        ev = _tree_events(tm) if _rooted(t["kind"]) else None
        return Built(m, {k: dic[k] for k in spec["x"]}, ev, t["n"])

    return Scen(spec, make)


# ----------------------------------------------------------------------------- coalescents
COAL_KINDS = ("constant", "constant_int", "exponential", "skyride", "skygrid", "skygrid_soft", "pwexp", "pwlinear")
COAL_TREES = ("fake", "time", "ratio", "ratio_tp")


def gen_coal(rng, kind, treekind, theta_tp=False, n=None, special=None, grid_leaf=False):
    """special: None | "equal_theta" (all thetas equal, held) | "beyond_root" (last grid points beyond the root)
    | "growth0" (growth exactly 0, held)"""
    n = n or rng.randint(4, 7)
    spec = {"family": "coal", "kind": kind, "theta_tp": bool(theta_tp)}
    if treekind == "fake":
        t, x0, _ = gen_tree(rng, n, "time")
        spec["tree"] = {"n": n, "kind": "fake", "dates": t["dates"], "newick": t["newick"]}
        nh = [float(d) for d in t["dates"]] + x0["heights"]
        x, b = {"nh": nh}, {"nh": [0.0, None]}
        spec["coords"] = {"nh": list(range(n, 2 * n - 1))}
        root = max(nh)
    else:
        t, x, b = gen_tree(rng, n, treekind)
        spec["tree"] = t
        root = None
    # root height of the base point (for the grid)
    if root is None:
        if "root" in x:
            root = x["root"][0]
        elif "logroot" in x:
            root = math.exp(x["logroot"][0])
        else:
            root = max(x["heights"])
    if kind == "constant":
        k = 1
    elif kind == "exponential":
        k = 1
        x["growth"], b["growth"] = [rng.choice([-1, 1]) * rpos(rng, 0.1, 1.0)], [None, None]
    elif kind == "skyride":
        k = n - 1
    elif kind == "constant_int":
        k = 0
        spec["alpha"], spec["beta"] = rpos(rng, 0.5, 3.0), rpos(rng, 0.5, 3.0)
    else:
        g = rng.randint(2, 4)
        k = g + 1
        cut = root * (1.6 if special and "beyond_root" in special else rng.choice([0.7, 0.95, 1.4]))
        spec["grid"] = [cut * (i + 1) / g for i in range(g)]
        if kind == "pwexp":
            x["growth"], b["growth"] = [rng.choice([-1, 1]) * rpos(rng, 0.1, 1.0) for _ in range(k)], [None, None]
        if kind == "skygrid_soft":
            spec["temperature"] = 0.05
    if k:
        th = [rpos(rng, 0.5, 5.0) for _ in range(k)]
        if theta_tp:
            x["logtheta"], b["logtheta"] = [math.log(v) for v in th], [None, None]
        else:
            x["theta"], b["theta"] = th, [0.0, None]
    if grid_leaf and "grid" in spec:
        x["grid"], b["grid"] = list(spec["grid"]), [0.0, None]  # the grid points are a Parameter: differentiated
    if treekind == "fake" and kind not in ("pwlinear", "skygrid_soft"):
        # sampling times of a FakeTreeModel are entries of its Parameter: the untied, positive ones are differentiated
        # (pwlinear / soft skygrid pass them through torch.unique under no_grad by design: recorded, not tested)
        allv = list(x["nh"]) + list(spec.get("grid", []))
        spec["coords"]["nh"] = [i for i in range(n) if x["nh"][i] > 0 and allv.count(x["nh"][i]) == 1] + spec["coords"]["nh"]
    spec["x"], spec["bounds"] = x, b
    spec["name"] = "coal/%s/%s%s%s" % (kind, treekind, "/theta=exp(.)" if theta_tp else "", "/grid-leaf" if "grid" in x else "")
    if special in ("equal_theta_free", "neighbours_equal_free", "near_equal_free", "near_equal_out_free") and k > 1:
        # points where the code switches FORMULA (series / where branch for equal neighbouring sizes): the value is
        # smooth there, the thetas stay DIFFERENTIATED
        nm = "logtheta" if theta_tp else "theta"
        v = list(x[nm])
        if special == "equal_theta_free":
            v = [v[0]] * len(v)
        else:
            j0 = rng.randrange(len(v) - 1)
            d_ = {"neighbours_equal_free": 0.0, "near_equal_free": 3.0e-7, "near_equal_out_free": 1.0e-5}[special]
            v[j0 + 1] = v[j0] * (1.0 + d_) if not theta_tp else v[j0] + d_
            if len(v) > 3 and special == "neighbours_equal_free" and rng.random() < 0.5:
                v[-1] = v[-2]
        x[nm] = v
        spec["name"] += "/" + special.replace("_free", "") + "(thetas differentiated)"
    elif special == "equal_theta+beyond_root" and k > 1:
        nm = "logtheta" if theta_tp else "theta"
        x[nm] = [x[nm][0]] * len(x[nm])
        hold_fixed(spec, nm)
        spec["name"] += "/equal-thetas/grid-beyond-root"
    elif special == "equal_theta" and k > 1:
        nm = "logtheta" if theta_tp else "theta"
        x[nm] = [x[nm][0]] * len(x[nm])
        hold_fixed(spec, nm)
        spec["name"] += "/equal-thetas"
    elif special == "beyond_root" and "grid" in spec:
        spec["name"] += "/grid-beyond-root"
    elif special == "growth0" and "growth" in x:
        x["growth"] = [0.0] * len(x["growth"])
        hold_fixed(spec, "growth")
        spec["name"] += "/growth=0"
    return spec


_COAL_TYPE = {"constant": "ConstantCoalescentModel", "constant_int": "ConstantCoalescentIntegratedModel",
              "exponential": "ExponentialCoalescentModel", "skyride": "PiecewiseConstantCoalescentModel",
              "skygrid": "PiecewiseConstantCoalescentGridModel", "skygrid_soft": "PiecewiseConstantCoalescentGridModel",
              "pwexp": "PiecewiseExponentialCoalescentGridModel", "pwlinear": "PiecewiseLinearCoalescentGridModel"}


def _coal_json(spec, vals, grad, id_="coal"):
    kind = spec["kind"]
    js = {"id": id_, "type": _COAL_TYPE[kind]}
    if kind == "constant_int":
        js["alpha"], js["beta"] = spec["alpha"], spec["beta"]
    elif spec["theta_tp"]:
        js["theta"] = TP("theta", "torch.distributions.ExpTransform", P("logtheta", vals["logtheta"], grad))
    else:
        js["theta"] = P("theta", vals["theta"], grad)
    if "growth" in vals:
        js["growth"] = P("growth", vals["growth"], grad)
    if "grid" in vals:
        js["grid"] = P("grid", vals["grid"], grad)
    elif "grid" in spec:
        js["grid"] = [float(g) for g in spec["grid"]]
    if "temperature" in spec:
        js["temperature"] = spec["temperature"]
    return js


def make_coal(spec):
    _imports()
    from torchtree.core.utils import process_object

    def make(vals, grad):
        dic = {}
        t = spec["tree"]
        js = _coal_json(spec, vals, grad)
        grid = list(vals["grid"]) if "grid" in vals and not isinstance(vals["grid"][0], (list, tuple)) else list(spec.get("grid", []))
        if t["kind"] == "fake":
            n = t["n"]
            nh = vals["nh"]
            nh0 = nh[0] if isinstance(nh[0], (list, tuple)) else nh
            order = sorted(range(2 * n - 1), key=lambda i: nh0[i])
            js["times"] = [nh0[i] for i in order]
            js["events"] = [1 if i < n else 0 for i in order]
            m = process_object(js, dic)
            p = m.tree_model._node_heights
            # the FakeTreeModel's own Parameter is the leaf: give it exactly the requested heights
            # (taxa first, then internal nodes; from_json sorted them inside each block)
            p.tensor = torch.tensor(_fl(nh), dtype=PDT["t"], requires_grad=grad)
            params = {k: dic[k] for k in spec["x"] if k != "nh"}
            params["nh"] = p
            ev = lambda: torch.cat((p.tensor.detach(), torch.tensor(grid, dtype=torch.float64)))  # noqa: E731
        elif spec.get("route") == "ctor":
            import torchtree.evolution.coalescent as CO

            tm = _tree_ctor(t, vals, grad, dic)
            params = {k: dic[k] for k in _tree_leafnames(t["kind"])}
            for k in spec["x"]:
                if k not in params:
                    params[k] = _param(k, vals[k], grad)
            kind = spec["kind"]
            gp = (params["grid"] if "grid" in params else _param(None, grid, False)) if grid else None
            if kind == "constant":
                m = CO.ConstantCoalescentModel("coal", params["theta"], tm)
            elif kind == "exponential":
                m = CO.ExponentialCoalescentModel("coal", params["theta"], params["growth"], tree_model=tm)
            elif kind == "skyride":
                m = CO.PiecewiseConstantCoalescentModel("coal", theta=params["theta"], tree_model=tm)
            elif kind == "skygrid":
                m = CO.PiecewiseConstantCoalescentGridModel("coal", params["theta"], gp, tm)
            else:
                m = CO.PiecewiseLinearCoalescentGridModel("coal", params["theta"], grid=gp, tree_model=tm)
        else:
            tjs = _tree_json(t, vals, grad)
            js["tree_model"] = "tree"
            if spec.get("route") == "ref":
                tm = process_object(hoist(restyle(tjs), dic, process_object), dic)
                js = hoist(restyle(js), dic, process_object)
            else:
                tm = process_object(tjs, dic)
            m = process_object(js, dic)
            params = {k: dic[k] for k in spec["x"]}
        if t["kind"] != "fake":
            ev = lambda: torch.cat((tm.node_heights.reshape(-1).detach(), torch.tensor(grid, dtype=torch.float64)))  # noqa: E731
        return Built(m, params, ev, t["n"])

    return Scen(spec, make)


# ----------------------------------------------------------------------------- birth-death
def gen_bdsk(rng, treekind, m=None, rho=False, survival=True, root_edge=False, explicit_times=False, n=None,
             r=None, times_leaf=None):
    """`rho`: False (absent) | True (interior leaf) | 0.0 / 1.0 (held at the special value);
    `r` (removal probability): None (absent) | True (interior leaf) | 0.0 / 1.0 (held at the special value)"""
    n = n or rng.randint(4, 6)
    m = m or rng.randint(1, 3)
    for _ in range(50):
        t, x, b = gen_tree(rng, n, treekind)
        # at least one tip at the present and one sampled through time
        if any(d > 0 for d in t["dates"]) and any(d == 0 for d in t["dates"]):
            break
    spec = {"family": "bdsk", "tree": t, "m": m, "survival": survival, "root_edge": root_edge, "rho": rho,
            "explicit_times": explicit_times}
    root = x["root"][0] if "root" in x else max(x["heights"])
    x["R"], b["R"] = [rpos(rng, 0.8, 2.5) for _ in range(m)], [0.0, None]
    x["delta"], b["delta"] = [rpos(rng, 0.5, 2.0) for _ in range(m)], [0.0, None]
    x["s"], b["s"] = [rng.uniform(0.1, 0.7) for _ in range(m)], [0.0, 1.0]
    if root_edge:
        x["origin"], b["origin"] = [rng.uniform(0.3, 1.5)], [0.0, None]
    else:
        x["origin"], b["origin"] = [root + rng.uniform(0.3, 1.5)], [root, None]
    special = ""
    if rho is True:
        x["rho"], b["rho"] = [rng.uniform(0.1, 0.8)], [0.0, 1.0]
    elif rho is not False:
        x["rho"], b["rho"] = [float(rho)], [0.0, 1.0]
        hold_fixed(spec, "rho")
        special += "/rho=%g" % rho
    if r is True:
        x["r"], b["r"] = [rng.uniform(0.15, 0.85) for _ in range(m)], [0.0, 1.0]
        special += "/r"
    elif r is not None:
        x["r"], b["r"] = [float(r)] * m, [0.0, 1.0]
        hold_fixed(spec, "r")
        special += "/r=%g" % r
    if times_leaf and m > 1:
        # the rate-shift times are a PARAMETER (differentiated, entry 0 is the origin itself and stays 0):
        # "abs" absolute times, "rel" fractions of the origin (relative_times=True)
        o = x["origin"][0] + (root if root_edge else 0.0)
        fr = [(i + rng.uniform(0.25, 0.75)) / m for i in range(m - 1)]
        x["times"] = [0.0] + ([f for f in fr] if times_leaf == "rel" else [o * f for f in fr])
        b["times"] = [0.0, None]
        spec.setdefault("coords", {})["times"] = list(range(1, m))
        spec["relative_times"] = times_leaf == "rel"
        special += "/times=%s-leaf" % times_leaf
    elif explicit_times and m > 1:
        o = x["origin"][0] + (root if root_edge else 0.0)
        spec["times"] = [0.0] + [o * (i + rng.uniform(0.2, 0.8)) / m for i in range(m - 1)]
    spec["x"], spec["bounds"] = x, b
    spec["name"] = "bdsk/%s/m=%d%s%s%s%s%s" % (treekind, m, "/rho" if rho is True else "", "" if survival else "/nosurvival",
                                              "/rootedge" if root_edge else "", "/times" if "times" in spec else "",
                                              special)
    return spec


def bdsk_special_candidates(m, with_r=False):
    """(parameter, epoch, value): every per-epoch parameter that may legitimately sit at a boundary value"""
    c = []
    for e in range(m):
        c.append(("s", e, 0.0))  # s = 1 means mu = 0, which the distribution itself rejects
        c.append(("rho", e, 0.0))
        if e == m - 1:
            c.append(("rho", e, 1.0))  # rho = 1 before the present makes log(1 - rho) = -inf: not defined
        if with_r:
            c.append(("r", e, 0.0))
            if e == m - 1:
                c.append(("r", e, 1.0))
    return c


def gen_bdsk_epochs(rng, m, special, treekind="time", with_r=False, survival=True):
    """BDSK in the epidemiological parameterisation with `m` epochs given by explicit (fixed) change times and a
    fixed origin, per-epoch rho, tips of every class: rho-sampled at the present and at interior sampling events
    (ON the epoch boundaries), psi-sampled inside the epochs.  `special` = [(param, epoch, value)]: those
    coordinates are held at the special value; every other coordinate is differentiated.
    Forward time: epoch e = [t_e, t_{e+1}), t_0 = 0 at the origin, t_m = origin = the present (height 0).
    As the code has it, a tip at t_k (1 <= k < m) and a tip at the present are looked up in epoch min(k, m-1)."""
    origin = 8.0 * m
    times = [8.0 * k for k in range(m)]
    sp = {(p, e): v for p, e, v in special}
    sv = [sp.get(("s", e), rng.uniform(0.15, 0.7)) for e in range(m)]
    rv = [sp.get(("rho", e), rng.uniform(0.1, 0.6)) for e in range(m)]
    # tips: psi-tips only where psi > 0, boundary tips only where the rho that is looked up is > 0
    dates = []
    if rv[m - 1] > 0 or sv[m - 1] > 0:
        dates += [0.0] * rng.randint(1, 2)
    for k in range(1, m):
        if rv[k] > 0:
            dates += [origin - times[k]] * rng.randint(1, 2)
    for e in range(m):
        if sv[e] > 0:
            lo = origin - (times[e + 1] if e + 1 < m else origin)  # height of the younger end of epoch e
            for _ in range(rng.randint(1, 2)):
                dates.append(lo + rng.choice([0.5, 1.0, 1.5, 2.5, 3.0, 4.5]))
    if 0.0 not in dates:
        dates.append(0.0)  # heights are dates only when the youngest date is 0 (psi- or rho-tip as above allows)
    while len(dates) < 3:
        dates.append(dates[-1])
    rng.shuffle(dates)
    n = len(dates)
    t, x, b = gen_tree(rng, n, treekind, dates=dates)
    spec = {"family": "bdsk", "tree": t, "m": m, "survival": survival, "root_edge": False, "rho": True,
            "explicit_times": True, "times": times, "fixed_origin": True}
    x["R"], b["R"] = [rpos(rng, 0.8, 2.0) for _ in range(m)], [0.0, None]
    x["delta"], b["delta"] = [rpos(rng, 0.3, 1.0) for _ in range(m)], [0.0, None]
    x["s"], b["s"] = sv, [0.0, 1.0]
    x["rho"], b["rho"] = rv, [0.0, 1.0]
    x["origin"], b["origin"] = [origin], [0.0, None]
    if with_r:
        x["r"], b["r"] = [sp.get(("r", e), rng.uniform(0.15, 0.85)) for e in range(m)], [0.0, 1.0]
    spec["x"], spec["bounds"] = x, b
    spec["coords"] = {"origin": []}
    spec["fixed"] = ["origin"]
    for nm in ("s", "rho", "r"):
        if nm in x:
            spec["coords"][nm] = [e for e in range(m) if (nm, e) not in sp]
    spec["special"] = [list(z) for z in special]
    spec["name"] = "bdsk_epochs/%s/m=%d%s/%s" % (treekind, m, "/r" if with_r else "",
                                                 "+".join("%s[%d]=%g" % z for z in special) or "interior")
    return spec


def make_bdsk(spec):
    _imports()
    from torchtree.core.utils import process_object

    def make(vals, grad):
        dic = {}
        t = spec["tree"]
        tm = process_object(_tree_json(t, vals, grad), dic)
        js = {"id": "bdsk", "type": "BDSKModel", "tree_model": "tree", "R": P("R", vals["R"], grad),
              "delta": P("delta", vals["delta"], grad), "s": P("s", vals["s"], grad),
              "origin": P("origin", vals["origin"], grad), "survival": spec["survival"],
              "origin_is_root_edge": spec["root_edge"]}
        if "rho" in vals:
            js["rho"] = P("rho", vals["rho"], grad)
        if "r" in vals:
            js["removal_probability"] = P("r", vals["r"], grad)
        if "times" in vals:
            js["times"] = P("times", vals["times"], grad)
            js["relative_times"] = bool(spec.get("relative_times"))
        elif "times" in spec:
            js["times"] = {"id": "times", "type": "Parameter", "tensor": spec["times"], "dtype": PDT["name"]}
        mdl = process_object(js, dic)
        m = spec["m"]

        def ev():
            nh = tm.node_heights.reshape(-1).detach()
            o = dic["origin"].tensor.detach().reshape(-1)[0]
            if spec["root_edge"]:
                o = o + nh[-1]
            if "times" in dic and "times" in spec["x"]:
                tt_ = dic["times"].tensor.detach().reshape(-1)[1:]
                cuts = [o * (1.0 - f) for f in tt_] if spec.get("relative_times") else [o - f for f in tt_]
            elif "times" in spec:
                cuts = [o - tt for tt in spec["times"][1:]]
            else:
                cuts = [o * (1.0 - k / m) for k in range(1, m)]
            extra = torch.tensor([float(c) for c in cuts] + [float(o)], dtype=torch.float64)
            if spec.get("fixed_origin"):
                # tips, epoch boundaries and the origin are data here (tips may sit ON a boundary): they
                # form the constant leading block; only the internal heights move
                return torch.cat((nh[: t["n"]], extra, nh[t["n"]:]))
            return torch.cat((nh, extra))

        nfix = t["n"] + (m if spec.get("fixed_origin") else 0)
        return Built(mdl, {k: dic[k] for k in spec["x"]}, ev, nfix)

    return Scen(spec, make)


def gen_bdmodel(rng, treekind, survival=True, n=None, rho=None):
    """BirthDeathModel (constant-rate birth-death with sampling) on a real time tree"""
    n = n or rng.randint(4, 6)
    for _ in range(50):
        t, x, b = gen_tree(rng, n, treekind)
        if rho is None or (any(d > 0 for d in t["dates"]) and any(d == 0 for d in t["dates"])):
            break
    root = x["root"][0] if "root" in x else max(x["heights"])
    x["lambda"], b["lambda"] = [rpos(rng, 1.0, 3.0)], [0.0, None]
    x["mu"], b["mu"] = [rpos(rng, 0.3, 1.0)], [0.0, None]
    x["psi"], b["psi"] = [rpos(rng, 0.2, 1.0)], [0.0, None]
    x["rho"], b["rho"] = [rng.uniform(0.1, 0.8)], [0.0, 1.0]
    x["origin"], b["origin"] = [root + rng.uniform(0.3, 1.5)], [root, None]
    spec = {"family": "bdmodel", "tree": t, "survival": survival, "x": x, "bounds": b,
            "name": "birth_death_model/%s%s" % (treekind, "" if survival else "/nosurvival")}
    if rho is not None:
        x["rho"] = [float(rho)]
        hold_fixed(spec, "rho")
        spec["name"] += "/rho=%g" % rho
    return spec


def make_bdmodel(spec):
    _imports()
    from torchtree.core.utils import process_object

    def make(vals, grad):
        dic = {}
        t = spec["tree"]
        tm = process_object(_tree_json(t, vals, grad), dic)
        js = {"id": "bd", "type": "BirthDeathModel", "tree_model": "tree", "survival": spec["survival"]}
        for k in ("lambda", "mu", "psi", "rho", "origin"):
            js[k] = P(k, vals[k], grad)
        mdl = process_object(js, dic)

        def ev():
            nh = tm.node_heights.reshape(-1).detach()
            return torch.cat((nh, dic["origin"].tensor.detach().reshape(-1)[:1]))

        return Built(mdl, {k: dic[k] for k in spec["x"]}, ev, t["n"])

    return Scen(spec, make)


def gen_underflow(rng, n=None, subst="JC69", site="const"):
    """a tree large enough for the plain pruning pass to underflow: the first evaluation switches the
    likelihood to the rescaled path by itself"""
    n = n or rng.randint(560, 620)
    spec = gen_like(rng, subst, site, "unrooted", 0, ambig=False, n=n, sites=2)
    spec["x"]["bl"] = [rng.uniform(1.0, 3.0) for _ in spec["x"]["bl"]]
    spec["name"] = "like/%s/%s/unrooted/underflow-switch/n=%d" % (subst, site, n)
    spec["expect_switch"] = True
    return spec


def gen_bd(rng, n=None, hetero=True):
    """BirthDeath distribution (the model class cannot be called on the pinned tree: F09)"""
    n = n or rng.randint(4, 6)
    t, x0, _ = gen_tree(rng, n, "time", hetero=hetero)
    nh = [float(d) for d in t["dates"]] + x0["heights"]
    x = {"nh": nh, "lambda": [rpos(rng, 1.0, 3.0)], "mu": [rpos(rng, 0.3, 1.0)], "psi": [rpos(rng, 0.2, 1.0)],
         "rho": [rng.uniform(0.1, 0.8)], "origin": [max(nh) + rng.uniform(0.3, 1.5)]}
    b = {"nh": [0.0, None], "lambda": [0.0, None], "mu": [0.0, None], "psi": [0.0, None], "rho": [0.0, 1.0],
         "origin": [max(nh), None]}
    return {"family": "bd", "tree": {"n": n, "dates": t["dates"]}, "x": x, "bounds": b,
            "coords": {"nh": list(range(n, 2 * n - 1))}, "name": "bd/BirthDeath.log_prob"}


class _Leaf:
    """a bare leaf tensor with the .tensor/.grad interface of a Parameter"""

    def __init__(self, vals, grad):
        self.tensor = torch.tensor(_fl(vals), dtype=PDT["t"], requires_grad=grad)

    @property
    def grad(self):
        return self.tensor.grad


def make_bd(spec):
    _imports()
    from torchtree.evolution.birth_death import BirthDeath

    def make(vals, grad):
        lv = {k: _Leaf(v, grad) for k, v in vals.items()}

        def model():
            d = BirthDeath(lv["lambda"].tensor, lv["mu"].tensor, lv["psi"].tensor, lv["rho"].tensor,
                           lv["origin"].tensor, survival=True)
            return d.log_prob(lv["nh"].tensor)

        return Built(model, lv, lambda: lv["nh"].tensor.detach(), spec["tree"]["n"])

    return Scen(spec, make)


# ----------------------------------------------------------------------------- GMRF family
def gen_gmrf(rng, variant, integrated=False, rescale=True, treekind="time"):
    """variant: plain | weighted | tree"""
    spec = {"family": "gmrf", "variant": variant, "integrated": integrated, "rescale": rescale}
    x, b = {}, {}
    if variant == "tree":
        n = rng.randint(4, 6)
        t, x, b = gen_tree(rng, n, treekind, hetero=False)
        spec["tree"] = t
        N = n - 1
    else:
        N = rng.randint(3, 6)
    x["field"], b["field"] = [rng.uniform(-1.5, 1.5) for _ in range(N)], [None, None]
    if variant == "weighted":
        spec["weights"] = [rpos(rng, 0.1, 1.0) for _ in range(N - 1)]
    if integrated:
        spec["shape"], spec["rate"] = rpos(rng, 0.5, 2.0), rpos(rng, 0.5, 2.0)
    else:
        x["precision"], b["precision"] = [rpos(rng, 0.2, 5.0)], [0.0, None]
    spec["x"], spec["bounds"] = x, b
    spec["name"] = "%s/%s%s" % ("gmrf_gamma_integrated" if integrated else "gmrf", variant,
                               ("/rescale=%d/%s" % (rescale, treekind)) if variant == "tree" else "")
    return spec


def make_gmrf(spec):
    _imports()
    from torchtree.core.utils import process_object
    from torchtree.distributions.gmrf import GMRF
    from torchtree.distributions.gmrf_integrated import GMRFGammaIntegrated

    def make(vals, grad):
        dic = {}
        tm = None
        if spec["variant"] == "tree":
            tm = process_object(_tree_json(spec["tree"], vals, grad), dic)
        field = process_object(P("field", vals["field"], grad), dic)
        w = torch.tensor(spec["weights"], dtype=PDT["t"]) if "weights" in spec else None
        if spec["integrated"]:
            m = GMRFGammaIntegrated("gmrf", field, spec["shape"], spec["rate"], tm, w, spec["rescale"])
        else:
            prec = process_object(P("precision", vals["precision"], grad), dic)
            m = GMRF("gmrf", field, prec, tm, w, spec["rescale"])
        ev = (lambda: tm.node_heights.reshape(-1)[tm.taxa_count:]) if tm is not None else None
        return Built(m, {k: dic[k] for k in spec["x"]}, ev)

    return Scen(spec, make)


def gen_gmrfcov(rng):
    N, Pn = rng.randint(3, 5), 2
    x = {"field": [rng.uniform(-1.5, 1.5) for _ in range(N)], "precision": [rpos(rng, 0.2, 5.0)],
         "beta": [rng.uniform(-1, 1) for _ in range(Pn)]}
    b = {"field": [None, None], "precision": [0.0, None], "beta": [None, None]}
    return {"family": "gmrfcov", "cov": [[rng.uniform(-1, 1) for _ in range(Pn)] for _ in range(N)], "x": x,
            "bounds": b, "name": "gmrf_covariate"}


def make_gmrfcov(spec):
    _imports()
    from torchtree.core.utils import process_object

    def make(vals, grad):
        dic = {}
        js = {"id": "g", "type": "GMRFCovariate", "field": P("field", vals["field"], grad),
              "precision": P("precision", vals["precision"], grad), "covariates": spec["cov"],
              "beta": P("beta", vals["beta"], grad)}
        m = process_object(js, dic)
        return Built(m, {k: dic[k] for k in spec["x"]}, None)

    return Scen(spec, make)


# ----------------------------------------------------------------------------- CTMC scale, tree priors
def gen_ctmc(rng, treekind):
    n = rng.randint(4, 6)
    t, x, b = gen_tree(rng, n, treekind)
    x["rate"], b["rate"] = [rpos(rng, 0.01, 1.0)], [0.0, None]
    return {"family": "ctmc", "tree": t, "x": x, "bounds": b, "name": "ctmc_scale/%s" % treekind}


def make_ctmc(spec):
    _imports()
    from torchtree.core.utils import process_object

    def make(vals, grad):
        dic = {}
        tm = process_object(_tree_json(spec["tree"], vals, grad), dic)
        m = process_object({"id": "ctmc", "type": "CTMCScale", "x": P("rate", vals["rate"], grad),
                            "tree_model": "tree"}, dic)
        ev = _tree_events(tm) if _rooted(spec["tree"]["kind"]) else None
        return Built(m, {k: dic[k] for k in spec["x"]}, ev, spec["tree"]["n"])

    return Scen(spec, make)


def gen_cgd(rng, treekind="unrooted"):
    n = rng.randint(4, 6)
    t, x, b = gen_tree(rng, n, treekind)
    for k, lo, hi in (("alpha", 0.5, 2.0), ("c", 0.3, 2.0), ("shape", 0.5, 2.0), ("rate", 0.5, 3.0)):
        x["cgd_" + k], b["cgd_" + k] = [rpos(rng, lo, hi)], [0.0, None]
    return {"family": "cgd", "tree": t, "x": x, "bounds": b, "name": "compound_gamma_dirichlet/%s" % treekind}


def make_cgd(spec):
    _imports()
    from torchtree.core.utils import process_object

    def make(vals, grad):
        dic = {}
        process_object(_tree_json(spec["tree"], vals, grad), dic)
        js = {"id": "cgd", "type": "CompoundGammaDirichletPrior", "tree_model": "tree"}
        for k in ("alpha", "c", "shape", "rate"):
            js[k] = P("cgd_" + k, vals["cgd_" + k], grad)
        m = process_object(js, dic)
        return Built(m, {k: dic[k] for k in spec["x"]}, None)

    return Scen(spec, make)


# ----------------------------------------------------------------------------- Jacobian terms
def gen_jac_tree(rng, treekind):
    n = rng.randint(4, 7)
    t, x, b = gen_tree(rng, n, treekind)
    return {"family": "jac_tree", "tree": t, "x": x, "bounds": b,
            "name": "jacobian/ReparameterizedTimeTreeModel()/%s" % treekind}


def make_jac_tree(spec):
    _imports()
    from torchtree.core.utils import process_object

    def make(vals, grad):
        dic = {}
        tm = process_object(_tree_json(spec["tree"], vals, grad), dic)
        return Built(tm, {k: dic[k] for k in spec["x"]}, _tree_events(tm), spec["tree"]["n"])

    return Scen(spec, make)


TP_TRANSFORMS = {
    "exp": ("torch.distributions.ExpTransform", None),
    "sigmoid": ("torch.distributions.SigmoidTransform", None),
    "stickbreaking": ("torch.distributions.StickBreakingTransform", None),
    "softplus": ("torch.distributions.SoftplusTransform", None),
    "tanh": ("torch.distributions.TanhTransform", None),
    "affine": ("torch.distributions.AffineTransform", {"loc": 0.5, "scale": 2.5}),
    "power": ("torch.distributions.PowerTransform", {"exponent": 2.0}),
    "tt_log": ("torchtree.distributions.transforms.LogTransform", None),
    "tt_cumsumexp": ("torchtree.distributions.transforms.CumSumExpTransform", None),
}


def gen_jac_tp(rng, tname):
    k = rng.randint(2, 4)
    if tname in ("tt_log", "power"):
        x, b = [rpos(rng, 0.3, 3.0) for _ in range(k)], [0.0, None]
    else:
        x, b = [rng.uniform(-1.2, 1.2) for _ in range(k)], [None, None]
    return {"family": "jac_tp", "transform": tname, "x": {"z": x}, "bounds": {"z": b},
            "name": "jacobian/TransformedParameter()/%s" % tname}


def make_jac_tp(spec):
    _imports()
    from torchtree.core.utils import process_object

    def make(vals, grad):
        dic = {}
        cls, params = TP_TRANSFORMS[spec["transform"]]
        tp = process_object(TP("tp", cls, P("z", vals["z"], grad), params), dic)
        return Built(tp, {"z": dic["z"]}, None)

    return Scen(spec, make)


# ----------------------------------------------------------------------------- wrapped distributions
DISTS = {
    # name: (class path, params {name: (kind)}, x kind, x dim)
    "normal": ("torch.distributions.Normal", {"loc": "real", "scale": "pos"}, "real"),
    "lognormal": ("torch.distributions.LogNormal", {"loc": "real", "scale": "pos"}, "pos"),
    "gamma": ("torch.distributions.Gamma", {"concentration": "pos", "rate": "pos"}, "pos"),
    "exponential": ("torch.distributions.Exponential", {"rate": "pos"}, "pos"),
    "laplace": ("torch.distributions.Laplace", {"loc": "real", "scale": "pos"}, "real"),
    "cauchy": ("torch.distributions.Cauchy", {"loc": "real", "scale": "pos"}, "real"),
    "beta": ("torch.distributions.Beta", {"concentration1": "pos", "concentration0": "pos"}, "unit"),
    "halfnormal": ("torch.distributions.HalfNormal", {"scale": "pos"}, "pos"),
    "tt_normal_precision": ("torchtree.distributions.normal.Normal", {"loc": "real", "precision": "pos"}, "real"),
    "tt_lognormal_mean_scale": ("torchtree.distributions.log_normal.LogNormal", {"mean": "pos", "scale": "pos"}, "pos"),
    "tt_lognormal_mean_stdev": ("torchtree.distributions.log_normal.LogNormal", {"mean": "pos", "stdev": "pos"}, "pos"),
    "tt_inverse_gamma": ("torchtree.distributions.inverse_gamma.InverseGamma", {"concentration": "pos", "rate": "pos"}, "pos"),
    "tt_one_on_x": ("torchtree.distributions.one_on_x.OneOnX", {}, "pos"),
    "dirichlet_sb": ("torch.distributions.Dirichlet", {"concentration": "posvec"}, "simplex_sb"),
}


def _draw(rng, kind, k):
    if kind == "real":
        return [rng.uniform(-1.5, 1.5) for _ in range(k)], [None, None]
    if kind in ("pos", "posvec"):
        return [rpos(rng, 0.4, 3.0) for _ in range(k)], [0.0, None]
    if kind == "unit":
        return [rng.uniform(0.15, 0.85) for _ in range(k)], [0.0, 1.0]
    raise ValueError(kind)


def gen_dist(rng, dname, x_tp=None):
    cls, params, xk = DISTS[dname]
    k = rng.randint(1, 3)
    x, b = {}, {}
    spec = {"family": "dist", "dist": dname, "x_tp": x_tp}
    if xk == "simplex_sb":
        k = 3
        x["z"], b["z"] = [rng.uniform(-0.8, 0.8) for _ in range(k)], [None, None]
        spec["x_tp"] = "stickbreaking"
    elif x_tp == "exp":
        v, _ = _draw(rng, "pos", k)
        x["z"], b["z"] = [math.log(t) for t in v], [None, None]
    else:
        x["x"], b["x"] = _draw(rng, xk, k)
    for pn, pk in params.items():
        x["p_" + pn], b["p_" + pn] = _draw(rng, pk, 4 if pk == "posvec" else 1)
    spec["x"], spec["bounds"] = x, b
    spec["name"] = "distribution/%s%s" % (dname, "/x=%s(.)" % spec["x_tp"] if spec["x_tp"] else "")
    return spec


def make_dist(spec):
    _imports()
    from torchtree.core.utils import process_object

    def make(vals, grad):
        dic = {}
        cls, params, xk = DISTS[spec["dist"]]
        if spec["x_tp"] == "stickbreaking":
            xj = TP("x", "torch.distributions.StickBreakingTransform", P("z", vals["z"], grad))
        elif spec["x_tp"] == "exp":
            xj = TP("x", "torch.distributions.ExpTransform", P("z", vals["z"], grad))
        else:
            xj = P("x", vals["x"], grad)
        js = {"id": "d", "type": "Distribution", "distribution": cls, "x": xj,
              "parameters": {pn: P("p_" + pn, vals["p_" + pn], grad) for pn in params}}
        m = process_object(js, dic)
        return Built(m, {k: dic[k] for k in spec["x"]}, None)

    return Scen(spec, make)


ARG_KINDS = ("number", "tensor0d", "tensor1", "param", "transformed", "view")
MIX_DISTS = ("normal", "lognormal", "gamma", "laplace", "cauchy", "beta", "tt_normal_precision",
             "tt_lognormal_mean_scale", "tt_lognormal_mean_stdev", "tt_inverse_gamma")


def gen_distmix(rng, dname, kinds=None, xkind=None):
    """a wrapped distribution whose arguments come in a MIX of kinds: python number / 0-d tensor / 1-element tensor
    (keyword arguments of `Distribution`), Parameter / TransformedParameter / ViewParameter (its `parameters`);
    the random variable as Parameter, TransformedParameter, ViewParameter or a list (CatParameter).
    Every tensor-like argument is a differentiated leaf."""
    cls, params, xk = DISTS[dname]
    kinds = dict(kinds or {})
    for pn in params:
        kinds.setdefault(pn, rng.choice(ARG_KINDS))
    xkind = xkind or rng.choice(["param", "transformed", "view", "cat"])
    k = rng.randint(2, 4)
    x, b, consts = {}, {}, {}
    xv, xb = _draw(rng, xk, k)
    if xkind == "transformed" and xk == "pos":
        x["x"], b["x"] = [math.log(v) for v in xv], [None, None]
    elif xkind == "view":
        x["x"], b["x"] = xv + _draw(rng, xk, 2)[0], xb
    else:
        x["x"], b["x"] = xv, xb
        if xkind == "transformed":
            xkind = "param" if xk != "pos" else xkind
    for pn, pk in params.items():
        v, bb = _draw(rng, pk, 1)
        kd = kinds[pn]
        if kd == "number":
            consts[pn] = v[0]
        elif kd == "transformed" and pk == "pos":
            x["p_" + pn], b["p_" + pn] = [math.log(v[0])], [None, None]
        elif kd == "view":
            x["p_" + pn], b["p_" + pn] = v + _draw(rng, pk, 1)[0], bb
        else:
            if kd == "transformed":
                kinds[pn] = "param"
            x["p_" + pn], b["p_" + pn] = v, bb
    return {"family": "distmix", "dist": dname, "kinds": kinds, "xkind": xkind, "k": k, "consts": consts, "x": x,
            "bounds": b, "name": "distribution-args/%s/x=%s/%s" % (dname, xkind, ",".join(
                "%s=%s" % (pn, kinds[pn]) for pn in params))}


def make_distmix(spec):
    _imports()
    from torchtree.core.parameter import TransformedParameter, ViewParameter
    from torchtree.core.utils import get_class
    from torchtree.distributions.distributions import Distribution

    def make(vals, grad):
        cls, params, xk = DISTS[spec["dist"]]
        klass = get_class(cls)
        leaves = {}

        def leaf_param(name):
            p = _param(name, vals[name], grad)
            leaves[name] = p
            return p

        k = spec["k"]
        xkind = spec["xkind"]
        if xkind == "param":
            xo = leaf_param("x")
        elif xkind == "transformed":
            xo = TransformedParameter("x.t", leaf_param("x"), torch.distributions.ExpTransform())
        elif xkind == "view":
            xo = ViewParameter("x.v", leaf_param("x"), slice(0, k))
        else:
            p = leaf_param("x")
            # a list of parameters (CatParameter inside Distribution): two views that together are x
            xo = [ViewParameter("x.a", p, slice(0, 1)), ViewParameter("x.b", p, slice(1, k))]
        pdict, kw = {}, {}
        for pn in params:
            kd = spec["kinds"][pn]
            nm = "p_" + pn
            if kd == "number":
                kw[pn] = float(spec["consts"][pn])
            elif kd == "tensor0d":
                lf = _Leaf(vals[nm], grad)
                lf.tensor = torch.tensor(float(vals[nm][0]), dtype=PDT["t"], requires_grad=grad)
                leaves[nm] = lf
                kw[pn] = lf.tensor
            elif kd == "tensor1":
                lf = _Leaf(vals[nm], grad)
                leaves[nm] = lf
                kw[pn] = lf.tensor
            elif kd == "param":
                pdict[pn] = leaf_param(nm)
            elif kd == "transformed":
                pdict[pn] = TransformedParameter(nm + ".t", leaf_param(nm), torch.distributions.ExpTransform())
            else:
                pdict[pn] = ViewParameter(nm + ".v", leaf_param(nm), slice(0, 1))
        m = Distribution("d", klass, xo, pdict, **kw)
        return Built(m, {n: leaves[n] for n in spec["x"]}, None)

    return Scen(spec, make)


def gen_misc(rng, which):
    x, b = {}, {}
    k = rng.randint(2, 4)
    if which == "mvn":
        x["x"], b["x"] = _draw(rng, "real", k)
        x["loc"], b["loc"] = _draw(rng, "real", k)
        # lower-triangular scale through its free entries is not a torchtree parameterisation: use a
        # diagonal covariance given as a full matrix leaf is not 1-D; keep the scale_tril fixed
        x["diag"], b["diag"] = _draw(rng, "pos", k)
    elif which == "scale_mixture":
        x["x"], b["x"] = _draw(rng, "real", k)
        x["global"], b["global"] = _draw(rng, "pos", 1)
        x["local"], b["local"] = _draw(rng, "pos", k)
    elif which == "scale_mixture_slab":
        x["x"], b["x"] = _draw(rng, "real", k)
        x["global"], b["global"] = _draw(rng, "pos", 1)
        x["local"], b["local"] = _draw(rng, "pos", k)
        x["slab"], b["slab"] = _draw(rng, "pos", 1)
    elif which == "bridge":
        x["x"], b["x"] = [rng.choice([-1, 1]) * rpos(rng, 0.3, 2.0) for _ in range(k)], [None, None]
        x["scale"], b["scale"] = _draw(rng, "pos", 1)
        x["alpha"], b["alpha"] = [rng.uniform(0.3, 1.5)], [0.0, None]
    return {"family": "misc", "which": which, "x": x, "bounds": b, "name": "distribution/%s" % which}


def make_misc(spec):
    _imports()
    from torchtree.core.utils import process_object

    def make(vals, grad):
        dic = {}
        w = spec["which"]
        if w == "mvn":
            from torchtree.core.parameter import Parameter
            from torchtree.distributions.multivariate_normal import MultivariateNormal

            xp = process_object(P("x", vals["x"], grad), dic)
            loc = process_object(P("loc", vals["loc"], grad), dic)
            diag = process_object(P("diag", vals["diag"], grad), dic)
            from torchtree.core.parameter import TransformedParameter

            class _Diag(torch.distributions.Transform):
                bijective = True
                sign = +1
                domain = torch.distributions.constraints.real
                codomain = torch.distributions.constraints.real

                def _call(self, x):
                    return torch.diag_embed(x)

            cov = TransformedParameter("cov", diag, _Diag())
            m = MultivariateNormal("mvn", xp, loc, covariance_matrix=cov)
        elif w.startswith("scale_mixture"):
            js = {"id": "m", "type": "ScaleMixtureNormal", "x": P("x", vals["x"], grad), "loc": 0.25,
                  "global_scale": P("global", vals["global"], grad), "local_scale": P("local", vals["local"], grad)}
            if "slab" in vals:
                js["slab"] = P("slab", vals["slab"], grad)
            m = process_object(js, dic)
        else:
            from torchtree.distributions.bayesian_bridge import BayesianBridge

            xp = process_object(P("x", vals["x"], grad), dic)
            sc = process_object(P("scale", vals["scale"], grad), dic)
            al = process_object(P("alpha", vals["alpha"], grad), dic)
            m = BayesianBridge("bb", xp, sc, al)
        return Built(m, {k: dic[k] for k in spec["x"]}, None)

    return Scen(spec, make)


# ----------------------------------------------------------------------------- joint model
def gen_joint(rng, subst="HKY_sb", site="weibull", coal="skyride", rescale=False, n=None):
    """posterior-shaped joint: likelihood + coalescent on the SAME reparameterised tree + the tree's
    Jacobian + priors on transformed parameters with their Jacobians + a GMRF on log theta"""
    n = n or rng.randint(4, 6)
    like = gen_like(rng, subst, site, "ratio_tp", rescale, n=n)
    spec = {"family": "joint", "like": like, "coal_kind": coal}
    x, b = dict(like["x"]), dict(like["bounds"])
    k = {"constant": 1, "skyride": n - 1, "skygrid": 4}[coal]
    x["logtheta"], b["logtheta"] = [rng.uniform(-0.5, 1.5) for _ in range(k)], [None, None]
    if coal == "skygrid":
        root = math.exp(x["logroot"][0])
        spec["grid"] = [0.9 * root * (i + 1) / 3 for i in range(3)]
    if k > 1:
        x["gmrf_prec"], b["gmrf_prec"] = [rpos(rng, 0.3, 3.0)], [0.0, None]
    spec["x"], spec["bounds"] = x, b
    spec["name"] = "joint/%s/%s/%s/rescale=%d" % (subst, site, coal, rescale)
    return spec


def make_joint(spec):
    _imports()
    from torchtree.core.utils import process_object

    like_scen = spec["like"]

    def make(vals, grad):
        dic = {}
        process_object(_datatype_obj(like_scen["seqkind"]), dic)
        t = like_scen["tree"]
        tm = process_object(_tree_json(t, vals, grad), dic)
        ljs = {"id": "like", "type": "TreeLikelihoodModel", "tree_model": "tree",
               "site_model": _site_json(like_scen, vals, grad), "substitution_model": _subst_json(like_scen, vals, grad),
               "site_pattern": {"id": "sp", "type": "SitePattern",
                                "alignment": {"id": "al", "type": "Alignment", "datatype": "nucleotide", "taxa": "taxa",
                                              "sequences": [{"taxon": "T%d" % i, "sequence": s}
                                                            for i, s in enumerate(like_scen["seqs"])]}},
               "use_ambiguities": like_scen["use_ambiguities"],
               "branch_model": {"id": "clock", "type": "StrictClockModel", "tree_model": "tree",
                                "rate": P("rate", vals["rate"], grad)}}
        lk = process_object(ljs, dic)
        if like_scen["rescale"]:
            lk.rescale = True
        cspec = {"kind": spec["coal_kind"], "theta_tp": True}
        if "grid" in spec:
            cspec["grid"] = spec["grid"]
        cjs = _coal_json(cspec, vals, grad)
        cjs["tree_model"] = "tree"
        process_object(cjs, dic)
        dists = ["like", "coal", "tree", "theta", "ratios", "root"]  # TransformedParameters contribute Jacobians
        pri = {"id": "prior_rate", "type": "Distribution", "distribution": "torch.distributions.Exponential",
               "x": "rate", "parameters": {"rate": 3.0}}
        process_object(pri, dic)
        dists.append("prior_rate")
        if "gmrf_prec" in vals:
            process_object({"id": "gmrf", "type": "GMRF", "x": "logtheta",
                            "precision": P("gmrf_prec", vals["gmrf_prec"], grad)}, dic)
            dists.append("gmrf")
        if "freqs" in dic and "zfreqs" in vals:
            dists.append("freqs")
        j = process_object({"id": "joint", "type": "JointDistributionModel", "distributions": dists}, dic)
        grid = list(spec.get("grid", []))
        ev = lambda: torch.cat((tm.node_heights.reshape(-1).detach(), torch.tensor(grid, dtype=torch.float64)))  # noqa: E731
        return Built(j, {k: dic[k] for k in spec["x"]}, ev, t["n"])

    return Scen(spec, make)


# ----------------------------------------------------------------------------- the JSON the CLI emits
CLI_CONFIGS = [
    ["map", "--clock", "strict", "--coalescent", "constant", "--heights_init", "tree", "-m", "JC69"],
    ["map", "--clock", "strict", "--coalescent", "skyride", "--heights_init", "tree", "-m", "HKY", "-C", "4"],
    ["hmc", "--clock", "strict", "--coalescent", "skygrid", "--grid", "4", "--cutoff", "8", "--heights_init", "tree",
     "-m", "GTR", "-C", "3"],
    ["hmc", "--clock", "strict", "--coalescent", "constant", "--heights_init", "tree", "-m", "HKY", "-I"],
    ["map", "-m", "GTR", "-C", "4"],
    ["hmc", "-m", "HKY"],
]


def gen_cli(rng, which=None):
    """the posterior (`joint`) of a configuration written by torchtree-cli itself, loaded the way `torchtree`
    loads it; leaves = every floating-point Parameter of the file (the unconstrained ones the CLI creates)"""
    _imports()
    import c19_cli as C
    from torchtree.core.parameter import Parameter

    cfg = list(CLI_CONFIGS[rng.randrange(len(CLI_CONFIGS)) if which is None else which])
    d = C.data_dir()
    rooted = "--clock" in cfg
    argv = [cfg[0], "-i", str(d / "aln.fa"), "-t", str(d / ("rooted.nwk" if rooted else "unrooted.nwk"))] + cfg[1:] \
        + ["--stem", str(d / "stem")]
    _js, text, _recs, _wc = C.run_cli(argv, record=False)
    dic, _objs = C.dry_load(text)
    x, b = {}, {}
    for k, v in dic.items():
        if type(v) is Parameter and v.tensor.is_floating_point() and v.tensor.dim() == 1 and not k.startswith("hmc."):
            x[k] = [float(t) + rng.uniform(-0.15, 0.15) for t in v.tensor]
            b[k] = [None, None]
    return {"family": "cli", "argv": cfg, "text": text, "rooted": rooted, "x": x, "bounds": b,
            "name": "cli/%s/%s" % (cfg[0], "_".join(a.strip("-") for a in cfg[1:]) or "default")}


def make_cli(spec):
    _imports()
    import c19_cli as C

    def make(vals, grad):
        dic, _objs = C.dry_load(spec["text"])
        for k, v in vals.items():
            dic[k].tensor = torch.tensor(_fl(v), dtype=PDT["t"], requires_grad=grad)
        m = dic["joint"]
        ev = None
        if spec["rooted"]:
            tm = dic["tree"]
            co = dic.get("coalescent")
            grid = [float(g) for g in co.grid.tensor] if co is not None and hasattr(co, "grid") else []
            ev = lambda: torch.cat((tm.node_heights.reshape(-1).detach(), torch.tensor(grid, dtype=torch.float64)))  # noqa: E731
        return Built(m, {k: dic[k] for k in vals}, ev, 6 if spec["rooted"] else 0)

    return Scen(spec, make)


# ----------------------------------------------------------------------------- unit values, minimum sizes
_UNIT = {"theta": 1.0, "logtheta": 0.0, "shape": 1.0, "mu": 1.0, "rate": 1.0, "precision": 1.0, "field": 0.0,
         "zratios": 0.0, "ratios": 0.5, "pinv": 0.5, "R": 1.0, "delta": 1.0, "s": 0.5, "rho": 0.5,
         "cgd_alpha": 1.0, "cgd_c": 1.0, "cgd_shape": 1.0, "cgd_rate": 1.0, "gmrf_prec": 1.0, "logbl": 0.0,
         "lambda": 1.0, "psi": 1.0}


def _one_category(spec):
    spec["categories"] = 1
    spec["name"] += "/K=1"
    return spec


def unitize(spec):
    """values whose transform is exactly 0 / 1 (log 1, logit 1/2, exp 0): every leaf in the table is put there"""
    fixed = set(spec.get("fixed", []))
    hit = False
    for k, v in spec["x"].items():
        if k in _UNIT and k not in fixed:
            spec["x"][k] = [_UNIT[k]] * len(v)
            hit = True
    if hit:
        spec["name"] += "/unit-values"
    return spec


def gen_eigh_degenerate(rng):
    """HKY with uniform base frequencies: the symmetrised rate matrix has a repeated eigenvalue"""
    spec = gen_like(rng, "HKY", "const", "unrooted", 0, ambig=False, n=4, sites=8)
    spec["x"]["freqs"] = [0.25, 0.25, 0.25, 0.25]
    spec["name"] = "like/HKY/const/unrooted/uniform-frequencies(repeated eigenvalue)"
    return spec


# ----------------------------------------------------------------------------- dispatch
_MAKERS = {"distmix": make_distmix, "cli": make_cli, "bdmodel": make_bdmodel, "like": make_like, "coal": make_coal, "bdsk": make_bdsk, "bd": make_bd, "gmrf": make_gmrf,
           "gmrfcov": make_gmrfcov, "ctmc": make_ctmc, "cgd": make_cgd, "jac_tree": make_jac_tree,
           "jac_tp": make_jac_tp, "dist": make_dist, "misc": make_misc, "joint": make_joint}


def scenario(spec) -> Scen:
    return _MAKERS[spec["family"]](spec)


def catalogue(rng, tier):
    """list of thunks `() -> spec`; quick samples the class x parameter space, thorough covers it"""
    c = []
    add = c.append
    thorough = tier == "thorough"

    # --- tree likelihood: substitution x site x tree x rescale
    like_grid = []  # thorough: the full product runs LAST (it is the bulk; everything else must not wait for it)
    if thorough:
        for subst in SUBST_KINDS:
            for site in SITE_KINDS:
                for tk in TREE_KINDS:
                    for resc in (0, 1):
                        if subst in ("MG94", "LG", "WAG") and (site not in ("const", "weibull") or tk not in ("unrooted", "ratio")):
                            continue
                        like_grid.append(lambda s=subst, si=site, t=tk, r=resc: gen_like(rng, s, si, t, r))
        rng.shuffle(like_grid)
        for th in like_grid[:120]:
            add(th)
        like_grid = like_grid[120:]
        for subst in ("JC69", "HKY", "GTR"):
            for tk in ("unrooted", "ratio"):
                for resc in (0, 1):
                    add(lambda s=subst, t=tk, r=resc: gen_like(rng, s, "weibull", t, r, tip_states=True))
        for resc in (0, 1):
            add(lambda r=resc: gen_like(rng, "HKY", "weibull", "time", r, clock="simple"))
            add(lambda r=resc: gen_like(rng, "GTR", "weibull_inv", "ratio", r, n=12, sites=30))
    else:
        # every substitution model, every site model, every tree kind, both rescale settings appear each run;
        # the pairing rotates with the seed-driven rng
        substs = list(SUBST_KINDS)
        rng.shuffle(substs)
        sites_ = list(SITE_KINDS)
        trees_ = list(TREE_KINDS)
        for i, subst in enumerate(substs):
            site = sites_[(i + rng.randrange(len(sites_))) % len(sites_)] if subst not in ("MG94", "LG", "WAG") else rng.choice(["const", "weibull"])
            tk = trees_[(i + rng.randrange(len(trees_))) % len(trees_)] if subst not in ("MG94", "LG", "WAG") else rng.choice(["unrooted", "ratio"])
            add(lambda s=subst, si=site, t=tk, r=i % 2: gen_like(rng, s, si, t, r))
        for i, site in enumerate(SITE_KINDS):
            add(lambda si=site, r=(i + 1) % 2: gen_like(rng, rng.choice(["JC69", "HKY", "GTR_sb"]), si, rng.choice(TREE_KINDS), r))
        for i, tk in enumerate(TREE_KINDS):
            add(lambda t=tk, r=i % 2: gen_like(rng, rng.choice(["JC69", "HKY_sb", "GTR"]), rng.choice(["weibull", "weibull_inv"]), t, r))
        add(lambda: gen_like(rng, rng.choice(["JC69", "HKY"]), "weibull", rng.choice(["unrooted", "ratio"]), rng.randrange(2), tip_states=True))
        add(lambda: gen_like(rng, "HKY", "weibull", "time", rng.randrange(2), clock="simple"))

    # --- a tree large enough to underflow: the model switches itself to the rescaled path
    add(lambda: gen_underflow(rng))
    if thorough:
        add(lambda: gen_underflow(rng, subst="HKY", site="weibull"))

    # --- coalescents
    for kind in COAL_KINDS:
        for tk in COAL_TREES:
            if kind == "constant_int" and tk == "fake":
                continue  # from_json of the integrated model requires a tree model
            if thorough:
                for tp in ((False,) if kind == "constant_int" else (False, True)):
                    add(lambda k=kind, t=tk, p=tp: gen_coal(rng, k, t, p))
            else:
                if kind in ("skygrid_soft", "pwexp") and tk in ("ratio_tp", "time"):
                    continue
                add(lambda k=kind, t=tk: gen_coal(rng, k, t, k != "constant_int" and rng.random() < 0.4))

    # --- birth-death
    bd_cfgs = [(tk, m, rho, surv, re, et) for tk in ("time", "ratio") for m in (1, 2, 3) for rho in (False, True)
               for surv in (True, False) for re in (False, True) for et in (False, True) if not (et and m == 1)]
    if not thorough:
        rng.shuffle(bd_cfgs)
        bd_cfgs = bd_cfgs[:6] + [("ratio", 1, False, True, False, False), ("time", 2, True, True, False, False)]
    for cfg in bd_cfgs:
        add(lambda c=cfg: gen_bdsk(rng, c[0], c[1], c[2], c[3], c[4], c[5]))
    add(lambda: gen_bd(rng))
    for tk in ("time", "ratio"):
        for surv in ((True, False) if thorough else (rng.random() < 0.7,)):
            add(lambda t=tk, sv=surv: gen_bdmodel(rng, t, sv))
    if thorough:
        add(lambda: gen_bd(rng, hetero=False))

    # --- parameters exactly at admissible special values, held fixed; gradient in the OTHER parameters
    sp = []
    for rv in (0.0, 1.0):
        for rh in (0.0, 1.0):
            sp.append(lambda rv=rv, rh=rh: gen_bdsk(rng, rng.choice(["time", "ratio"]), rng.choice([1, 2]), rh, True,
                                                    False, False, r=rv))
    sp.append(lambda: gen_bdsk(rng, "ratio", 1, 1.0, True, False, False, r=True))
    sp.append(lambda: gen_bdsk(rng, "time", 2, True, True, False, False, r=0.0))
    sp.append(lambda: gen_bdsk(rng, "ratio", rng.choice([1, 2]), True, True, False, False, r=True))
    sp.append(lambda: gen_bdsk(rng, "time", 1, 0.0, True, False, False))
    for rh in (0.0, 1.0):
        sp.append(lambda rh=rh: gen_bdmodel(rng, rng.choice(["time", "ratio"]), True, rho=rh))
    for site in ("weibull_inv", "inv", "inv_mu"):
        sp.append(lambda si=site: gen_like(rng, rng.choice(["JC69", "HKY", "GTR_sb"]), si,
                                           rng.choice(["unrooted", "ratio"]), rng.randrange(2), pinv_zero=True))
    for kind in ("skyride", "skygrid", "pwlinear", "skygrid_soft"):
        sp.append(lambda k=kind: gen_coal(rng, k, rng.choice(["time", "ratio"]), False, special="equal_theta"))
    for kind in ("skygrid", "pwlinear"):
        sp.append(lambda k=kind: gen_coal(rng, k, rng.choice(["fake", "time", "ratio"]), rng.random() < 0.5,
                                          special="beyond_root"))
    sp.append(lambda: gen_coal(rng, "exponential", rng.choice(["time", "ratio"]), False, special="growth0"))
    # formula-switch points with the thetas DIFFERENTIATED (equal / nearly equal neighbouring population sizes)
    sw = [(k_, s_) for k_ in ("pwlinear", "skygrid", "skyride", "skygrid_soft")
          for s_ in ("equal_theta_free", "neighbours_equal_free", "near_equal_free", "near_equal_out_free")]
    if not thorough:
        sw = [c_ for c_ in sw if c_[0] == "pwlinear"] + rng.sample([c_ for c_ in sw if c_[0] != "pwlinear"], 3)
    for k_, s_ in sw:
        for tk_ in (("fake", "time", "ratio") if thorough else (rng.choice(["fake", "time", "ratio"]),)):
            add(lambda k_=k_, s_=s_, tk_=tk_: gen_coal(rng, k_, tk_, rng.random() < 0.3, special=s_))
    # BDSK, multi-epoch, tips of every class; every per-epoch boundary value one at a time and in pairs
    ep = []
    for m in (2, 3):
        for with_r in (False, True):
            cand = bdsk_special_candidates(m, with_r)
            singles = [[z] for z in cand]
            pairs = [[a_, b_] for ia, a_ in enumerate(cand) for b_ in cand[ia + 1:] if (a_[0], a_[1]) != (b_[0], b_[1])]
            if thorough:
                chosen = [[]] + singles + pairs
            else:
                rng.shuffle(pairs)
                if m == 2 and not with_r:
                    chosen = [[]] + singles + pairs[:2]
                else:
                    rng.shuffle(singles)
                    chosen = singles[:2] + pairs[:1]
            for z in chosen:
                ep.append(lambda m=m, w=with_r, z=z: gen_bdsk_epochs(rng, m, z, rng.choice(["time", "ratio"]), w,
                                                                      rng.random() < 0.8))
    c.extend(ep)
    # substitution models x special points (ties): every model that does NOT go through eigh is differentiated in
    # its rates and frequencies AT the tie; eigh-based models are differentiated there unless the point is measured to
    # be a repeated eigenvalue (then the cell is recorded as excluded - the known finding has its own probe)
    cells = [(m_, pt) for m_ in ("GenNonSym", "GenNonSym12") for pt in SUBST_POINTS]
    ecells = [(m_, pt) for m_ in ("HKY", "HKY_sb", "GTR", "GTR_sb", "GenSym", "MG94") for pt in SUBST_POINTS]
    if not thorough:
        rng.shuffle(ecells)
        ecells = ecells[:4]
    for m_, pt in cells + ecells:
        heavy = m_ == "MG94"
        sp.append(lambda m_=m_, pt=pt, heavy=heavy: gen_like(
            rng, m_, "const" if heavy else rng.choice(["const", "weibull", "weibull_inv"]),
            rng.choice(["unrooted", "ratio"]), rng.randrange(2), subst_point=pt))
    sp.append(lambda: gen_coal(rng, rng.choice(["skygrid", "pwlinear"]), rng.choice(["time", "ratio"]), False,
                               special="equal_theta+beyond_root"))
    # several independent points per special configuration: whether a masked factor is EXACTLY zero in
    # floating point (0 * inf in backward) depends on the rounding at the point
    c.extend(sp)
    n_bdsk_special = 10  # the r x rho BDSK cells come first in `sp`
    dups = sp if thorough else sp[:n_bdsk_special]  # further independent draws: run LAST (first to go under load)

    # --- GMRF family
    for integ in (False, True):
        add(lambda i=integ: gen_gmrf(rng, "plain", i))
        add(lambda i=integ: gen_gmrf(rng, "weighted", i))
        for resc in (True, False):
            for tk in (("time", "ratio") if thorough else (rng.choice(["time", "ratio"]),)):
                add(lambda i=integ, r=resc, t=tk: gen_gmrf(rng, "tree", i, r, t))
    add(lambda: gen_gmrfcov(rng))

    # --- CTMC scale, compound gamma-Dirichlet
    for tk in (TREE_KINDS if thorough else ("unrooted", "time", "ratio")):
        add(lambda t=tk: gen_ctmc(rng, t))
    add(lambda: gen_cgd(rng, "unrooted"))
    add(lambda: gen_cgd(rng, "unrooted_exp"))

    # --- Jacobian terms
    for tk in ("ratio", "ratio_tp", "shift"):
        add(lambda t=tk: gen_jac_tree(rng, t))
    for tn in TP_TRANSFORMS:
        add(lambda t=tn: gen_jac_tp(rng, t))

    # --- wrapped distributions
    for dn in DISTS:
        add(lambda d=dn: gen_dist(rng, d))
    add(lambda: gen_dist(rng, "gamma", "exp"))
    add(lambda: gen_dist(rng, "lognormal", "exp"))
    for w in ("mvn", "scale_mixture", "scale_mixture_slab", "bridge"):
        add(lambda w=w: gen_misc(rng, w))

    # --- posteriors written by torchtree-cli itself (map / hmc), loaded as `torchtree` loads them
    for w in (range(len(CLI_CONFIGS)) if thorough else rng.sample(range(len(CLI_CONFIGS)), 2)):
        add(lambda w=w: gen_cli(rng, w))

    # --- values whose transform is exactly 0 or 1, and minimum sizes (3 taxa, one category, one epoch)
    uv = [lambda: unitize(gen_like(rng, "HKY_sb", "weibull_inv", "ratio_tp", rng.randrange(2))),
          lambda: unitize(gen_like(rng, "JC69", "weibull_mu", "unrooted_exp", rng.randrange(2))),
          lambda: unitize(gen_coal(rng, "skyride", "ratio_tp", True)),
          lambda: unitize(gen_coal(rng, "skygrid", "ratio", False)),
          lambda: unitize(gen_coal(rng, "constant", "time", rng.random() < 0.5)),
          lambda: unitize(gen_gmrf(rng, "plain", False)),
          lambda: unitize(gen_bdsk(rng, "ratio", 2, True, True, False, False)),
          lambda: unitize(gen_cgd(rng, "unrooted_exp")),
          lambda: unitize(gen_ctmc(rng, "ratio")),
          lambda: gen_like(rng, "HKY", "weibull", "unrooted", rng.randrange(2), n=3),
          lambda: gen_like(rng, "JC69", "const", "ratio", rng.randrange(2), n=3),
          lambda: _one_category(gen_like(rng, "GTR", "weibull", "time", rng.randrange(2))),
          lambda: gen_coal(rng, "skyride", "ratio", False, n=3),
          lambda: gen_coal(rng, "constant", "time", False, n=2),
          lambda: gen_coal(rng, "skygrid", "fake", False, n=2),
          lambda: gen_bdsk(rng, "time", 1, False, True, False, False, n=3)]
    c.extend(uv if thorough else rng.sample(uv, 6))

    # --- gradient w.r.t. EVERY leaf incl. the data-like ones, under every convention option: BDSK rate-shift times as
    # a parameter (absolute / relative_times) x origin (absolute / root edge); grid points of the coalescents
    tl = [(tk, m_, mode, re_, rh) for tk in ("time", "ratio") for m_ in (2, 3) for mode in ("abs", "rel")
          for re_ in (False, True) for rh in (False, True)]
    if not thorough:
        rng.shuffle(tl)
        tl = [c_ for c_ in tl if c_[2] == "rel"][:3] + [c_ for c_ in tl if c_[2] == "abs"][:2]
    for tk, m_, mode, re_, rh in tl:
        add(lambda tk=tk, m_=m_, mode=mode, re_=re_, rh=rh: gen_bdsk(rng, tk, m_, rh, True, re_, False, times_leaf=mode))
    gl = [(k_, t_) for k_ in ("skygrid", "pwlinear", "skygrid_soft") for t_ in ("fake", "time", "ratio")]
    for k_, t_ in (gl if thorough else rng.sample(gl, 4)):
        add(lambda k_=k_, t_=t_: gen_coal(rng, k_, t_, rng.random() < 0.4, grid_leaf=True))

    # --- distribution wrappers: every argument in every kind (number / 0-d / 1-element tensor / Parameter /
    # TransformedParameter / ViewParameter), x as Parameter / Transformed / View / list
    if thorough:
        for dn in MIX_DISTS:
            for pn in DISTS[dn][1]:
                for kd in ARG_KINDS:
                    add(lambda dn=dn, pn=pn, kd=kd: gen_distmix(rng, dn, {pn: kd}))
    else:
        for dn in MIX_DISTS:
            pns = list(DISTS[dn][1])
            add(lambda dn=dn, pns=pns: gen_distmix(rng, dn, {pns[0]: "number", pns[-1]: rng.choice(["tensor1", "tensor0d"])}))
            add(lambda dn=dn, pns=pns: gen_distmix(rng, dn, {pns[0]: "number", pns[-1]: rng.choice(["param", "view", "transformed"])}))
            add(lambda dn=dn: gen_distmix(rng, dn))

    # --- joint models
    jcfg = [(s, si, co, r) for s in ("JC69", "HKY_sb", "GTR_sb") for si in ("const", "weibull", "weibull_inv")
            for co in ("constant", "skyride", "skygrid") for r in (0, 1)]
    if not thorough:
        rng.shuffle(jcfg)
        jcfg = jcfg[:3]
    for cfg in jcfg:
        add(lambda c=cfg: gen_joint(rng, c[0], c[1], c[2], c[3]))
    c.extend(dups)
    c.extend(like_grid)
    return c
