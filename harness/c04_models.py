"""C04 helpers: case generation, the REAL substitution-model classes, driver requests, oracles.

A case is a JSON-able dict:
  kind     JC69 | HKY | GTR | GeneralJC69 | GeneralSymmetric | GeneralNonSymmetric | Empirical | LG | WAG | MG94
  n        state count            code   genetic-code index (MG94)         mapping  list[int] (general models)
  S        number of parameter slices   params {name: [vector] (unbatched) | S vectors (batched)}
  batch    {name: bool}           ts     R rows of branch lengths [0, s, t, s+t] (R = S when S > 1; with S = 1,
                                         R = 2 means batched branch lengths with unbatched parameters); p_t is
                                         called as tree_likelihood does: sample_shape + (B, K) = [R,] 2, 2
  dyadic   parameters are dyadic rationals (exact float arithmetic in the builders)
"""
from __future__ import annotations

import math
from fractions import Fraction

import numpy as np

import c04c05_holders as H
from common import f2h, h2f

EPS = 2.220446049250313e-16
REVERSIBLE = {"JC69", "HKY", "GTR", "GeneralJC69", "GeneralSymmetric", "Empirical", "LG", "WAG", "MG94"}
EIGEN_PATH = {"HKY", "GTR", "GeneralSymmetric", "Empirical", "LG", "WAG", "MG94"}
PARAM_NAMES = {
    "JC69": [], "GeneralJC69": [], "LG": [], "WAG": [],
    "HKY": ["kappa", "frequencies"], "GTR": ["rates", "frequencies"],
    "GeneralSymmetric": ["rates", "frequencies"], "GeneralNonSymmetric": ["rates", "frequencies"],
    "Empirical": ["rates", "frequencies"], "MG94": ["alpha", "beta", "kappa", "frequencies"],
}
CODON_COUNTS = (61, 60, 62, 62, 62, 62, 63, 62, 62, 61, 61, 62, 63, 62, 64)


# ------------------------------------------------------------------ generation
def gen_freqs(rng, n, dyadic):
    if dyadic:
        den = 64 if n <= 16 else 1024
        ks = [1] * n
        for _ in range(den - n):
            # skewed: prefer a few states
            ks[min(int(rng.random() ** 2 * n), n - 1)] += 1
        rng.shuffle(ks)
        return [k / den for k in ks]
    al = rng.choice([0.3, 1.0, 5.0])
    a = [rng.gammavariate(al, 1.0) for _ in range(n)]
    s = sum(a)
    f = [max(x / s, 1e-4) for x in a]
    s = sum(f)
    return [x / s for x in f]


def gen_rate(rng, dyadic):
    if dyadic:
        return rng.choice([rng.randint(1, 80) / 8.0, 2.0 ** rng.randint(-4, 6), float(rng.randint(1, 9))])
    r = rng.random()
    if r < 0.1:
        return rng.choice([1e-4, 1e4, 1.0])
    return 10 ** rng.uniform(-4, 4)


def gen_ts(rng):
    r = rng.random()
    if r < 0.15:
        s, t = rng.choice([1e-6, 1e-3, 0.01]), rng.choice([1e-3, 0.1, 1.0])
    elif r < 0.3:
        s, t = rng.uniform(0, 50), rng.uniform(0, 50)
    else:
        s, t = 10 ** rng.uniform(-3, 1.6), 10 ** rng.uniform(-3, 1.6)
    if s + t > 100:
        s, t = s / 2, t / 2
    return [0.0, s, t, s + t]


def gen_case(rng, kind, dyadic=False, batch="none", n=None, code=None, route=None):
    """batch: none | all | subset"""
    c = {"kind": kind, "dyadic": dyadic}
    route = route if route is not None else gen_route(rng, kind)
    c["route"] = route
    names = PARAM_NAMES[kind]
    S = 1 if batch == "none" or not names else rng.choice([2, 3])
    if batch == "two" and names:
        # TWO sample dimensions [S1, S2, d] (chains x draws); the frequencies shared, with fewer batch dimensions, or full
        c["S1"], c["S2"] = rng.choice([2, 3]), rng.choice([2, 3])
        S = c["S1"] * c["S2"]
        bflags = {k: True for k in names}
        if "frequencies" in names and len(names) > 1:
            bflags["frequencies"] = rng.choice([False, False, "inner", True])
    elif batch == "all":
        bflags = {k: True for k in names}
    elif batch == "subset" and names:
        bflags = {k: rng.random() < 0.5 for k in names}
        if not any(bflags.values()):
            S = 1
    else:
        bflags = {k: False for k in names}
    if kind in ("GeneralSymmetric", "GeneralNonSymmetric", "Empirical", "GeneralJC69"):
        n = n or rng.choice([2, 3, 3, 4, 5, 6, 8, 12, 20] if kind != "GeneralJC69" else [2, 3, 4, 5, 20, 61])
    elif kind in ("LG", "WAG"):
        n = 20
    elif kind == "MG94":
        code = rng.randrange(15) if code is None else code
        n = CODON_COUNTS[code]
        c["code"] = code
    else:
        n = 4
    c["n"] = n
    if kind == "GeneralSymmetric":
        m = n * (n - 1) // 2
        k = rng.randint(1, m)
        c["mapping"] = [rng.randrange(k) for _ in range(m)] if rng.random() < 0.8 else list(range(m))
        nrates = max(c["mapping"]) + 1 + rng.choice([0, 0, 1])
    elif kind == "GeneralNonSymmetric":
        m = n * (n - 1)
        k = rng.randint(1, m)
        c["mapping"] = [rng.randrange(k) for _ in range(m)] if rng.random() < 0.8 else list(range(m))
        nrates = max(c["mapping"]) + 1 + rng.choice([0, 0, 1])
    if kind in ("GeneralSymmetric", "GeneralNonSymmetric") and route.get("mapping") == "absent":
        c["mapping"] = list(range(m))  # what from_json supplies when the key is absent
        nrates = m
    dims = {"kappa": 1, "alpha": 1, "beta": 1, "frequencies": n}
    if kind == "GTR":
        dims["rates"] = 6
    elif kind == "Empirical":
        dims["rates"] = n * (n - 1) // 2
    elif kind in ("GeneralSymmetric", "GeneralNonSymmetric"):
        dims["rates"] = nrates
    params = {}
    for name in names:
        rows = c["S2"] if bflags[name] == "inner" else (S if bflags[name] else 1)
        if name == "frequencies":
            params[name] = [gen_freqs(rng, n, dyadic) for _ in range(rows)]
        else:
            params[name] = [[gen_rate(rng, dyadic) for _ in range(dims[name])] for _ in range(rows)]
    # Empirical takes plain tensors: never batched
    if kind == "Empirical":
        S = 1
        c.pop("S1", None)
        c.pop("S2", None)
        bflags = {k: False for k in names}
        params = {k: v[:1] for k, v in params.items()}
    R = S if S > 1 else rng.choice([1, 1, 2])
    c.update(S=S, R=R, batch=bflags, params=params, ts=[gen_ts(rng) for _ in range(R)])
    c["layout"] = rng.choice(["BK", "BK", "B1", "1K", "vec"] if R == 1 else ["BK", "BK", "B1", "1K"])
    if names and kind != "Empirical" and rng.random() < (0.3 if kind == "MG94" else 0.6):
        add_updates(rng, c, rng.randint(1, 2))
    c["holder"] = {nm: rng.choice(H.KINDS) for nm in names} if kind != "Empirical" else {}
    if kind == "MG94" and not dyadic:
        # alpha, beta, kappa pairwise different and different from 1 (so that a swapped mask cannot hide)
        for row in range(len(params["alpha"])):
            params["alpha"][row] = [rng.uniform(1.5, 3.0)]
        for row in range(len(params["beta"])):
            params["beta"][row] = [rng.uniform(0.2, 0.7)]
        for row in range(len(params["kappa"])):
            params["kappa"][row] = [rng.uniform(4.0, 8.0)]
    if kind == "MG94" and dyadic:
        for row in range(len(params["alpha"])):
            params["alpha"][row] = [rng.choice([1.5, 2.5, 3.0])]
        for row in range(len(params["beta"])):
            params["beta"][row] = [rng.choice([0.25, 0.5, 0.625])]
        for row in range(len(params["kappa"])):
            params["kappa"][row] = [rng.choice([4.0, 5.0, 6.5])]
    if not dyadic:
        apply_regime(rng, c, rng.choice(["f64"] * 5 + ["f32default"] * 2 + ["f32in"] * 2))
    if rng.random() < 0.2:
        c["deepcopy"] = True
    if rng.random() < 0.2:
        c["move"] = rng.choice(["cpu", "to", "to_dtype"])
    return c


IN_DTYPE = {"f64": "float64", "f32default": "float64", "f32in": "float32", "int": "int64"}
EPS32 = 1.1920929e-07


def regime_of(c):
    return c.get("regime", "f64")


def reference_low_precision(c):
    """results are float32, or the reference exp(t q()/norm) is built from a float32 q() (models without inputs live
    in the default dtype)"""
    return low_precision(c) or (regime_of(c) == "f32default" and c["kind"] in ("JC69", "GeneralJC69"))


def low_precision(c):
    """results are float32 in this regime (or the model was converted from/to float32 after construction)"""
    r = regime_of(c)
    if c.get("move") == "to_other":
        return True
    return r == "f32in" or (r == "f32default" and c["kind"] in ("LG", "WAG"))


def f32(x):
    import struct

    return struct.unpack("<f", struct.pack("<f", x))[0]


def apply_regime(rng, c, regime):
    """f32in: float32 inputs under default float64 (values rounded to float32 so the model sees the same numbers;
    rates within 1e-2..1e2, frequencies >= 1e-2, branch lengths <= 10 so that float32 keeps some accuracy).
    f32default: float64 inputs under default float32. LG/WAG have no inputs: they live in the default dtype, and
    mixing their dtype with another branch-length dtype raises, so f32in is not applied to them and under f32default
    the branch lengths are float32 as well."""
    if c["kind"] in ("LG", "WAG", "Empirical") and regime == "f32in":
        regime = "f64"
    c["regime"] = regime
    if regime == "f32in":
        def fixrow(name, row):
            if name == "frequencies":
                row = [max(x, 1e-2) for x in row]
                tot = sum(row)
                row = [f32(x / tot) for x in row]
                return row
            return [f32(min(max(x, 1e-2), 1e2)) for x in row]

        c["params"] = {k: [fixrow(k, r) for r in v] for k, v in c["params"].items()}
        for u in c.get("updates", []):
            u["set"] = {k: (v if k == "mapping" else [fixrow(k, r) for r in v]) for k, v in u["set"].items()}
        c["ts"] = [[f32(min(t, 10.0)) for t in row[:3]] for row in c["ts"]]
        c["ts"] = [[r[0], r[1], r[2], f32(r[1] + r[2])] for r in c["ts"]]
        c["dyadic"] = False
    return c


def gen_route(rng, kind, rkind=None):
    """how the object is built: positional constructor; keyword constructor (any keyword order); from_json through
    process_object with every optional key absent / given (mapping: absent | list | Parameter object; normalize:
    absent | true | false), any key order, parameters and data type inline or by reference, short or full type
    name; the JSON the CLI emits for the class"""
    rkind = rkind or rng.choice(["ctor", "kw", "json", "json", "json", "cli"])
    if kind == "Empirical":
        rkind = "ctor"  # abstract class: only the harness subclass can be instantiated
    r = {"kind": rkind, "order": rng.randrange(1000)}
    if rkind in ("json", "cli"):
        r["form"] = rng.choice(["inline", "ref"])
        r["fulltype"] = rng.random() < 0.3
    if kind in ("GeneralSymmetric", "GeneralNonSymmetric"):
        r["mapping"] = rng.choice(["absent", "list", "object"]) if rkind == "json" else ("absent" if rkind == "cli" else "list")
    if kind == "GeneralNonSymmetric":
        r["normalize"] = rng.choice(["absent", "absent", True, False]) if rkind in ("json", "kw", "ctor") else "absent"
    return r


def structured_case(rng, kind, n, structure, count, layout="B1", batch="none"):
    """a General(Non)Symmetric model with a STRUCTURED rate matrix through a two-class mapping, evaluated for `count`
    branch lengths in one call.  ordered: i -> i+1 at rate 1, everything else 0.01 (nearly defective); banded:
    nearest neighbours both ways; block: two blocks, slow exchange between them (nearly reducible); stiff: 1e4 / 1e-4"""
    c = gen_case(rng, kind, dyadic=False, batch=batch, n=n, route={"kind": "ctor", "mapping": "list"})
    for key in ("updates", "deepcopy", "move"):
        c.pop(key, None)
    c["regime"] = "f64"
    c["holder"] = {}
    pairs = [(i, j) for i in range(n) for j in range(i + 1, n)]

    def cls(i, j, upper):
        if structure == "ordered":
            return 0 if (upper and j == i + 1) else 1
        if structure == "banded":
            return 0 if j == i + 1 else 1
        if structure == "block":
            return 0 if (i < n // 2) == (j < n // 2) else 1
        return (i + j) % 2  # stiff

    up = [cls(i, j, True) for i, j in pairs]
    lo = [cls(i, j, False) for i, j in pairs]
    c["mapping"] = up if kind == "GeneralSymmetric" else up + lo
    fast, slow = {"ordered": (1.0, 0.01), "banded": (1.0, 0.01), "block": (1.0, 1e-4), "stiff": (1e4, 1e-4)}[structure]
    rows = len(c["params"]["rates"])
    c["params"]["rates"] = [[fast * (1 + 0.25 * r), slow] for r in range(rows)]
    frows = len(c["params"]["frequencies"])
    c["params"]["frequencies"] = [[1.0 / n] * n if r == 0 else gen_freqs(rng, n, False) for r in range(frows)]
    c["ts"] = [[r[0], r[1], r[2], r[1] + r[2]] for r in c["ts"]]
    c["many"] = {"ts": [0.0] + [round(10 ** rng.uniform(-3, 1), 6) for _ in range(count - 1)], "layout": layout}
    c["structure"] = structure
    return c


def add_updates(rng, c, k, which=None):
    """a history on a LIVE object: after p_t() has been called, k assignments `param.tensor = new values`
    (same shapes; one parameter at a time mostly), p_t()/q() read again after each"""
    names = [n for n in PARAM_NAMES[c["kind"]]]
    if not names or c["kind"] == "Empirical":
        return c
    ups = []
    for _ in range(k):
        sel = which or ([rng.choice(names)] if rng.random() < 0.7 else [n for n in names if rng.random() < 0.6] or names[:1])
        st = {}
        for name in sel:
            rows = len(c["params"][name])
            dim = len(c["params"][name][0])
            if name == "frequencies":
                st[name] = [gen_freqs(rng, c["n"], c["dyadic"]) for _ in range(rows)]
            else:
                st[name] = [[gen_rate(rng, c["dyadic"]) for _ in range(dim)] for _ in range(rows)]
        u = {"set": st}
        if c["kind"] in ("GeneralSymmetric", "GeneralNonSymmetric") and which is None and rng.random() < 0.4:
            nr = len(c["params"]["rates"][0])
            u["set"]["mapping"] = [rng.randrange(nr) for _ in c["mapping"]]
        if rng.random() < 0.4:
            u["gmove"] = {"on": rng.choice(["model", "holder", "inner"]), "name": rng.choice(names),
                          "how": rng.choice(["cpu", "to"])}
        u["mode"] = rng.choice(["assign", "assign", "augmented", "setitem", "inplace_fire"])
        ups.append(u)
    c["updates"] = ups
    if regime_of(c) == "f32in":
        apply_regime(rng, c, "f32in")  # the new values are float32 numbers too
    return c


def state_for(c, k, out):
    """the case as it stands at step k, every parameter at the values its object actually holds"""
    cc = state_at(c, k)
    eff = ((out.get("meta") or {}).get("effective") if isinstance(out, dict) else None) or {}
    for nm, rows in eff.items():
        if nm in cc["params"] and len(rows) == len(cc["params"][nm]) and rows != cc["params"][nm]:
            cc.setdefault("_holder_mismatch", []).append(nm)
            cc["params"][nm] = rows
    return cc


def state_at(c, k):
    """the case as it stands after the first k assignments (no history)"""
    cc = {x: y for x, y in c.items() if x != "updates"}
    cc["params"] = dict(c["params"])
    for u in c.get("updates", [])[:k]:
        cc["params"].update({nm: v for nm, v in u["set"].items() if nm != "mapping"})
        if "mapping" in u["set"]:
            cc["mapping"] = list(u["set"]["mapping"])  # the structural, index-valued parameter is live too
    return cc


def slice_param(c, name, s):
    """batch flag: False (one shared vector), True (one row per sample; with two sample dimensions S = S1*S2 rows in
    row-major order), "inner" (S2 rows: fewer batch dimensions than the others, broadcast over the first one)"""
    v = c["params"][name]
    b = c["batch"][name]
    if b == "inner":
        return v[s % c["S2"]]
    return v[s] if b else v[0]


def param_tensor(c, name, rows, torch):
    b = c["batch"][name]
    if not b:
        return torch.tensor(rows[0], dtype=torch.float64)
    t = torch.tensor(rows, dtype=torch.float64)
    if b is True and c.get("S1"):
        t = t.reshape(c["S1"], c["S2"], t.shape[-1])
    return t


def supported_batching(c):
    """patterns every builder must accept: nothing batched, or everything batched"""
    b = list(c["batch"].values())
    if c.get("S1"):
        return False  # two sample dimensions / fewer batch dimensions: a builder may refuse, it must not be wrong
    return not b or all(x is True for x in b) or not any(b)


# ------------------------------------------------------------------ the real classes
OBSERVED = []  # option/attribute disagreements of the object built last
PARS = {}  # the Parameter objects handed to the model built last (assignments go through them)


CLI_NOTES = []
_REGISTERED = [False]


def _register_all():
    """what torchtree.py does before reading a JSON file: import every module so that short type names resolve"""
    if not _REGISTERED[0]:
        import importlib

        from torchtree.core.utils import package_contents

        for mod in package_contents("torchtree"):
            try:
                importlib.import_module(mod)
            except Exception:
                pass
        _REGISTERED[0] = True


FULL = {
    "JC69": "torchtree.evolution.substitution_model.nucleotide.JC69",
    "HKY": "torchtree.evolution.substitution_model.nucleotide.HKY",
    "GTR": "torchtree.evolution.substitution_model.nucleotide.GTR",
    "GeneralJC69": "torchtree.evolution.substitution_model.general.GeneralJC69",
    "GeneralSymmetric": "torchtree.evolution.substitution_model.general.GeneralSymmetricSubstitutionModel",
    "GeneralNonSymmetric": "torchtree.evolution.substitution_model.general.GeneralNonSymmetricSubstitutionModel",
    "LG": "torchtree.evolution.substitution_model.amino_acid.LG",
    "WAG": "torchtree.evolution.substitution_model.amino_acid.WAG",
    "MG94": "torchtree.evolution.substitution_model.codon.MG94",
}


def build(c):
    import json
    import random

    import torch
    from torchtree.core.parameter import Parameter
    from torchtree.evolution.datatype import CodonDataType, GeneralDataType
    from torchtree.evolution.substitution_model.amino_acid import LG, WAG
    from torchtree.evolution.substitution_model.codon import MG94
    from torchtree.evolution.substitution_model.general import (
        EmpiricalSubstitutionModel,
        GeneralJC69,
        GeneralNonSymmetricSubstitutionModel,
        GeneralSymmetricSubstitutionModel,
    )
    from torchtree.evolution.substitution_model.nucleotide import GTR, HKY, JC69

    in_dtype = getattr(torch, IN_DTYPE[regime_of(c)])

    def tens(name):
        return param_tensor(c, name, c["params"][name], torch).to(in_dtype)

    holders = c.get("holder") or {}

    def par(name):
        PARS[name] = H.make(holders.get(name, "plain"), "m." + name, tens(name))
        return PARS[name]

    PARS.clear()
    k, n = c["kind"], c["n"]
    route = c.get("route") or {"kind": "ctor"}
    rk = route["kind"]
    norm_opt = route.get("normalize", "absent")
    names = PARAM_NAMES[k]
    if k == "Empirical":
        # EmpiricalSubstitutionModel leaves the abstract property `rates` to LG/WAG; a harness-side subclass
        # supplies it (as LG/WAG do) so that the real __init__/q/p_t run on arbitrary rates and frequencies
        class _Emp(EmpiricalSubstitutionModel):
            @property
            def rates(self):
                return []

        return _Emp(
            "m", torch.tensor(c["params"]["rates"][0], dtype=torch.float64),
            torch.tensor(c["params"]["frequencies"][0], dtype=torch.float64))
    if rk in ("ctor", "kw"):
        klass = {"JC69": JC69, "GeneralJC69": GeneralJC69, "LG": LG, "WAG": WAG, "HKY": HKY, "GTR": GTR,
                 "GeneralSymmetric": GeneralSymmetricSubstitutionModel,
                 "GeneralNonSymmetric": GeneralNonSymmetricSubstitutionModel, "MG94": MG94}[k]
        kw = {"id_": "m"}
        if k == "GeneralJC69":
            kw["state_count"] = n
        if k in ("GeneralSymmetric", "GeneralNonSymmetric"):
            kw["data_type"] = GeneralDataType("dt", tuple("s%d" % i for i in range(n)))
            kw["mapping"] = Parameter("mapping", torch.tensor(c["mapping"], dtype=torch.long))
        if k == "GeneralNonSymmetric":
            kw["normalize"] = False if norm_opt is False else True
        if k == "MG94":
            kw["data_type"] = CodonDataType("dt", CodonDataType.GENETIC_CODE_NAMES[c["code"]])
        order = {"HKY": ["id_", "kappa", "frequencies"], "GTR": ["id_", "rates", "frequencies"],
                 "GeneralSymmetric": ["id_", "data_type", "mapping", "rates", "frequencies"],
                 "GeneralNonSymmetric": ["id_", "data_type", "mapping", "rates", "frequencies", "normalize"],
                 "MG94": ["id_", "data_type", "alpha", "beta", "kappa", "frequencies"],
                 "GeneralJC69": ["id_", "state_count"]}.get(k, ["id_"])
        for nm in names:
            kw[nm] = par(nm)
        if rk == "ctor":
            return klass(*[kw[x] for x in order])
        items = list(kw.items())
        random.Random(route.get("order", 0)).shuffle(items)
        return klass(**dict(items))
    # ---- from_json routes
    from torchtree.core.utils import JSONParseError, process_object

    _register_all()
    dic = {}
    ref = route.get("form") == "ref"

    def pjson(name):
        # the JSON names the dtype when it is not the default one
        return H.make_json(holders.get(name, "plain"), "m." + name, tens(name),
                           str(in_dtype) if regime_of(c) != "f64" else None)

    def sub(obj):
        if ref:
            process_object(obj, dic)
            return obj["id"]
        return obj

    short = {"GeneralSymmetric": "GeneralSymmetricSubstitutionModel",
             "GeneralNonSymmetric": "GeneralNonSymmetricSubstitutionModel"}.get(k, k)
    data = None
    if rk == "cli":
        from types import SimpleNamespace

        from torchtree.cli import evolution as cli_evolution

        if k in ("JC69", "HKY", "GTR", "LG", "WAG", "MG94"):
            arg = SimpleNamespace(frequencies=None, model=k, genetic_code=c.get("code", 0))
            data = cli_evolution.create_substitution_model("m", k, arg)
            if data.get("type") != k:
                raise RuntimeError(f"CLI emitted {data.get('type')} for a {k} request")
            for nm in names:
                keep = {k_: v_ for k_, v_ in data[nm].items() if k_.startswith("@")}  # the CLI's constraints
                data[nm] = dict(pjson(nm), **keep)
        elif k == "GeneralNonSymmetric":
            # the literal of cli/evolution.py: create_tree_likelihood_general (identity mapping, no `normalize`,
            # an extra `state_count` key, data type inline)
            data = {"id": "m", "type": "GeneralNonSymmetricSubstitutionModel", "mapping": list(range(n * (n - 1))),
                    "rates": dict(pjson("rates"), **{"@lower": 0.0}),
                    "frequencies": dict(pjson("frequencies"), **{"@lower": 0.0, "@upper": 0.0}),
                    "state_count": n,
                    "data_type": {"id": "dt", "type": "GeneralDataType", "codes": ["s%d" % i for i in range(n)]}}
    if data is None:
        data = {"id": "m", "type": FULL[k] if route.get("fulltype") else short}
        if k == "GeneralJC69":
            data["state_count"] = n
        if k in ("GeneralSymmetric", "GeneralNonSymmetric"):
            data["data_type"] = sub({"id": "dt", "type": "GeneralDataType", "codes": ["s%d" % i for i in range(n)]})
            mp = route.get("mapping", "list")
            if mp == "list":
                data["mapping"] = list(c["mapping"])
            elif mp == "object":
                data["mapping"] = sub({"id": "m.mapping", "type": "Parameter", "tensor": list(c["mapping"])})
        if k == "GeneralNonSymmetric" and norm_opt != "absent":
            data["normalize"] = bool(norm_opt)
        if k == "MG94":
            data["data_type"] = sub({"id": "dt", "type": "CodonDataType",
                                     "genetic_code": CodonDataType.GENETIC_CODE_NAMES[c["code"]]})
        for nm in names:
            data[nm] = sub(pjson(nm))
        items = list(data.items())
        random.Random(route.get("order", 0)).shuffle(items)
        data = dict(items)
    data = json.loads(json.dumps(data))
    try:
        m = process_object(data, dic)
    except JSONParseError as e:
        if k in ("LG", "WAG") and "module name" in str(e):
            # the short type name (which the CLI emits) of a class that is not registered (fix proposal F51):
            # not a statement of C04; recorded, and the object is built with the full type name instead
            CLI_NOTES.append(f"JSON with the short type name {k} (as the CLI emits it) is not loadable: {e}")
            dic.clear()
            m = process_object(dict(data, type=FULL[k]), dic)
        else:
            raise
    for nm in names:
        PARS[nm] = dic["m." + nm]
    return m


def observe(m, c):
    """the object must hold the options it was given (attributes read defensively)"""
    import torch

    bad = []
    route = c.get("route") or {"kind": "ctor"}
    k = c["kind"]
    want_cls = {"GeneralSymmetric": "GeneralSymmetricSubstitutionModel",
                "GeneralNonSymmetric": "GeneralNonSymmetricSubstitutionModel", "Empirical": "_Emp"}.get(k, k)
    if type(m).__name__ != want_cls:
        bad.append(f"class {type(m).__name__} for a {want_cls} request")
    if k == "GeneralNonSymmetric" and hasattr(m, "normalize"):
        want = False if route.get("normalize", "absent") is False else True
        if m.normalize is not want:
            bad.append(f"normalize={m.normalize!r} but the options name {want}")
    if k in ("GeneralSymmetric", "GeneralNonSymmetric") and hasattr(m, "mapping"):
        if m.mapping.tensor.tolist() != list(c["mapping"]):
            bad.append("mapping differs from the one named")
    if hasattr(m, "state_count") and m.state_count != c["n"]:
        bad.append(f"state_count={m.state_count} for n={c['n']}")
    for nm in PARAM_NAMES[k]:
        if k == "Empirical":
            continue
        t = param_tensor(c, nm, c["params"][nm], torch).to(getattr(torch, IN_DTYPE[regime_of(c)]))
        holder = getattr(m, "_" + nm, None)
        if holder is None:
            holder = getattr(m, nm, None)
        got = getattr(holder, "tensor", holder)
        if isinstance(got, torch.Tensor) and (got.shape != t.shape or not torch.equal(got, t)):
            bad.append(f"{nm} holds other values than given")
    return bad


LAYOUT = {"BK": (2, 2), "B1": (4, 1), "1K": (1, 4), "vec": (4,)}


def impl_eval(c):
    """run the implementation on a live object: construct, read q()/frequencies/p_t, then apply the history of
    parameter assignments reading again after each.  -> list (step 0 = as constructed) of
    dict(status='ok', Q[R][n][n], freqs[R][n], P[R][4][n][n], eig=[...], norm=[R]|None, masks=...) or
    dict(status='raise'|'shape', error=(type, msg))"""
    import torch

    import copy

    outs = []
    OBSERVED[:] = []
    regime = regime_of(c)
    old_default, old_grad = torch.get_default_dtype(), torch.is_grad_enabled()
    torch.set_default_dtype(torch.float32 if regime == "f32default" else torch.float64)
    torch.set_grad_enabled(c.get("grad") != "no_grad")
    try:
        return _impl_eval(c, outs, regime, copy)
    finally:
        torch.set_default_dtype(old_default)
        torch.set_grad_enabled(old_grad)


def _impl_eval(c, outs, regime, copy):
    import torch

    try:
        m = build(c)
        OBSERVED[:] = observe(m, c)
        if c.get("grad") == "requires_grad":
            for par_ in PARS.values():
                if par_.tensor.is_floating_point():
                    try:
                        par_.requires_grad = True
                    except Exception:  # a view cannot be made a leaf: the vector it views is
                        getattr(par_, "parameter", par_).requires_grad = True
    except Exception as e:  # an outcome to be judged, not a harness crash
        return [{"status": "raise", "error": (type(e).__name__, str(e)[:200])}]
    n, R = c["n"], c["R"]
    cap = {}

    def wrap(obj):
        if hasattr(obj, "eigen") and c["kind"] not in ("Empirical", "LG", "WAG", "GeneralNonSymmetric"):
            orig = obj.eigen

            def wrapped(Sm):
                e, v = orig(Sm)
                cap.update(S=Sm, e=e, v=v)
                return e, v

            obj.eigen = wrapped

    wrap(m)
    lay = LAYOUT[c.get("layout", "BK")]
    ts_dtype = torch.float32 if (regime == "f32in" or (regime == "f32default" and c["kind"] in ("LG", "WAG"))) \
        else torch.float64
    if c.get("move") == "to_other":
        # an input-free model converted to the OTHER floating dtype after construction, then used in that dtype
        built = torch.float32 if regime == "f32default" else torch.float64
        ts_dtype = torch.float64 if built == torch.float32 else torch.float32
    lead = (c["S1"], c["S2"]) if c.get("S1") and R == c["S1"] * c["S2"] else (R,)
    ts = torch.tensor(c["ts"], dtype=torch.float64).to(ts_dtype).reshape(lead + lay)
    if R == 1:
        ts = ts[0]
    ts_supplied = ts.clone()
    supplied = {nm: par_.tensor.detach().clone() for nm, par_ in PARS.items()}

    def move():
        if c.get("move") == "cpu":
            m.cpu()
        elif c.get("move") == "to":
            m.to(torch.device("cpu"))
        elif c.get("move") == "to_other":
            m.to(ts_dtype)
        elif c.get("move") == "to_dtype" and not hasattr(m, "mapping"):
            # a conversion to the dtype everything already has (not for the models holding the index-valued `mapping`
            # Parameter: Model.to(dtype) converts it to floating point and indexing then raises — recorded observation)
            m.to(ts_dtype)

    def assign(holder, t, mode):
        """the ways a user changes a parameter: a new tensor; augmented assignment on the property (`p.tensor *= 0;
        p.tensor += t` hands the SAME tensor object back to the setter); item assignment followed by `p.tensor =
        p.tensor`; in-place copy followed by fire_parameter_changed()"""
        plain = type(holder).__name__ == "Parameter"
        if mode == "assign" or not plain or not t.is_floating_point() or holder.tensor.shape != t.shape:
            holder.tensor = t
        elif mode == "augmented":
            holder.tensor *= 0.0
            holder.tensor += t
        elif mode == "setitem":
            holder.tensor[...] = t
            holder.tensor = holder.tensor
        else:
            holder.tensor.copy_(t)
            holder.fire_parameter_changed()

    def read():
        cap.clear()
        Q = m.q().detach()
        fr = m.frequencies.detach()
        P = m.p_t(ts).detach()
        if not all(isinstance(x, torch.Tensor) for x in (Q, fr, P)) or Q.numel() % (n * n) or fr.numel() % n:
            return {"status": "shape", "error": ("shape", f"q()/frequencies/p_t returned {tuple(getattr(Q, 'shape', ()))} "
                                                          f"{tuple(getattr(fr, 'shape', ()))} for n={n}")}
        out = {"status": "ok", "meta": {"Q_dtype": str(Q.dtype), "P_dtype": str(P.dtype),
                                        # the values the parameter objects hold right now, read back
                                        "effective": {nm: par_.tensor.detach().double().reshape(-1, par_.tensor.shape[-1]).tolist()
                                                      for nm, par_ in pars.items()}}}
        # the same calls twice give the same answer; nothing handed in was modified
        Q2, P2 = m.q().detach(), m.p_t(ts).detach()
        if not (torch.equal(torch.nan_to_num(Q), torch.nan_to_num(Q2)) and torch.equal(torch.nan_to_num(P), torch.nan_to_num(P2))):
            out["meta"]["not_repeatable"] = True
        mutated = [nm for nm, par_ in pars.items() if nm in supplied and
                   (par_.tensor.shape != supplied[nm].shape or not torch.equal(par_.tensor.detach(), supplied[nm]))]
        if not torch.equal(ts, ts_supplied):
            mutated.append("branch_lengths")
        if mutated:
            out["meta"]["mutated_inputs"] = mutated
        # copies: a view parameter is later reassigned IN PLACE into the tensor these would otherwise alias
        Q, fr, P = Q.double().clone(), fr.double().clone(), P.double().clone()
        Qn = Q.reshape(-1, n, n).numpy()
        out["Q"] = [Qn[s if Qn.shape[0] > 1 else 0] for s in range(R)]
        frn = fr.reshape(-1, n).numpy()
        out["freqs"] = [frn[s if frn.shape[0] > 1 else 0] for s in range(R)]
        if tuple(P.shape[-2:]) != (n, n) or P.numel() != R * 4 * n * n:
            return {"status": "shape", "error": ("shape", f"p_t returned {tuple(P.shape)} for branch lengths "
                                                          f"{tuple(ts.shape)}, parameter slices {c['S']}, n={n}")}
        out["P"] = P.reshape(R, 4, n, n).numpy()
        if hasattr(m, "norm"):
            nr = m.norm(m.q()).detach().double().reshape(-1).numpy()
            out["norm"] = [float(nr[s if nr.shape[0] > 1 else 0]) for s in range(R)]
        else:
            out["norm"] = None
        eig = None
        if c["kind"] in ("Empirical", "LG", "WAG"):
            eig = [{"e": m.e.double().numpy(), "v": m.v.double().numpy(), "vinv": m.v.inverse().double().numpy(), "S": None}]
        elif cap:
            vi = cap["v"].detach().inverse().double().reshape(-1, n, n)
            e = cap["e"].detach().double().reshape(-1, n)
            v = cap["v"].detach().double().reshape(-1, n, n)
            Sm = cap["S"].detach().double().reshape(-1, n, n)
            eig = [{"e": e[i].numpy(), "v": v[i].numpy(), "vinv": vi[i].numpy(), "S": Sm[i].numpy()}
                   for i in range(e.shape[0])]
        out["eig"] = eig
        many = c.get("many")
        if many:
            # one call with MANY branch lengths, and the same branch lengths one at a time on the same object
            tm = torch.tensor(many["ts"], dtype=torch.float64).to(ts_dtype)
            nt = tm.numel()
            lay_m = many.get("layout", "B1")
            if R > 1 and lay_m == "vec":
                lay_m = "B1"  # with a sample dimension the library's convention is sample_shape + (B, K)
            shape = {"B1": (nt, 1), "1K": (1, nt), "vec": (nt,)}[lay_m]
            tm = tm.reshape(shape)
            if R > 1:
                tm = tm.expand((R,) + shape).contiguous()
            Pm = m.p_t(tm).detach().double()
            if Pm.numel() != R * nt * n * n:
                return {"status": "shape", "error": ("shape", f"p_t returned {tuple(Pm.shape)} for {nt} branch lengths "
                                                              f"{tuple(tm.shape)}, n={n}")}
            out["Pmany"] = Pm.reshape(R, nt, n, n).numpy().copy()
            idx = sorted(set([0, nt - 1, min(32, nt - 1), min(33, nt - 1), nt // 2]))
            single = {}
            for i in idx:
                one = torch.tensor([many["ts"][i]], dtype=torch.float64).to(ts_dtype).reshape((1, 1))
                if R > 1:
                    one = one.expand((R, 1, 1)).contiguous()
                single[i] = m.p_t(one).detach().double().reshape(R, n, n).numpy().copy()
            out["Psingle"] = single
        if c["kind"] == "MG94":
            out["masks"] = tuple("".join("1" if x == 1.0 else "0" for x in getattr(m, a).tolist())
                                 for a in ("transitions", "synonymous", "non_synonymous"))
        return out

    pars = dict(PARS)

    def handle(name):
        return pars[name]

    try:
        if c.get("move"):
            move()  # a device move before the first evaluation
        outs.append(read())
    except Exception as e:
        return [{"status": "raise", "error": (type(e).__name__, str(e)[:200])}]
    original = None
    if c.get("deepcopy") and c.get("updates") and outs[0]["status"] == "ok" and c.get("grad") != "requires_grad":
        # the history is applied to a deep copy; the original must keep answering as before
        try:
            m.__dict__.pop("eigen", None)  # the observation wrapper is a closure over the original
            cap.clear()
            original = (m, outs[0])
            m, pars = copy.deepcopy((m, pars))
            wrap(m)
        except Exception as e:
            outs.append({"status": "raise", "error": (type(e).__name__, "deepcopy: " + str(e)[:180])})
            return outs
    for i, u in enumerate(c.get("updates", [])):
        if outs[-1]["status"] != "ok":
            break
        try:
            gm = u.get("gmove")
            if gm:
                # a (no-op) device/dtype move on some object of the graph between the previous read and the assignment
                tgt = pars.get(gm.get("name")) if gm["on"] != "model" else m
                if gm["on"] == "inner" and tgt is not None:
                    inner = [getattr(tgt, a) for a in ("x", "parameter") if hasattr(getattr(tgt, a, None), "fire_parameter_changed")]
                    tgt = inner[0] if inner else tgt
                tgt = tgt if tgt is not None else m
                if gm["how"] == "cpu":
                    tgt.cpu()
                else:
                    tgt.to(torch.device("cpu"))
            for name, rows in u["set"].items():
                if name == "mapping":
                    m.mapping.tensor = torch.tensor(rows, dtype=torch.long)
                    continue
                t = param_tensor(c, name, rows, torch).to(supplied[name].dtype)
                supplied[name] = t.clone()
                assign(pars[name], t, u.get("mode", "assign"))
            if c.get("move") and i % 2 == 0:
                move()
            outs.append(read())
        except Exception as e:
            outs.append({"status": "raise", "error": (type(e).__name__, str(e)[:200])})
    if original is not None and outs[-1]["status"] == "ok":
        m = original[0]
        pars = {}
        again = read()
        if again["status"] != "ok" or not all(np.array_equal(a, b) for a, b in zip(again["Q"], original[1]["Q"])) \
                or not np.array_equal(again["P"], original[1]["P"]):
            outs[-1]["meta"]["original_changed_by_updates_on_its_deepcopy"] = True
    return outs


# ------------------------------------------------------------------ driver requests
def frac(x: float) -> Fraction:
    return Fraction(*float(x).as_integer_ratio())


def enc(x, mode):
    if mode == "f":
        return f2h(x)
    f = frac(x)
    return f"{f.numerator}/{f.denominator}" if f.denominator != 1 else str(f.numerator)


def q_request(c, s, mode):
    k = c["kind"]
    E = lambda xs: " ".join(enc(x, mode) for x in xs)  # noqa: E731
    if k == "JC69":
        return f"q {mode} jc69"
    if k == "GeneralJC69":
        return f"q {mode} gjc {c['n']}"
    if k in ("LG", "WAG"):
        return f"q {mode} {k.lower()}"
    fr = slice_param(c, "frequencies", s)
    if k == "HKY":
        return f"q {mode} hky {E(slice_param(c, 'kappa', s))} {E(fr)}"
    if k == "GTR":
        return f"q {mode} gtr {E(slice_param(c, 'rates', s))} {E(fr)}"
    if k == "Empirical":
        return f"q {mode} emp {c['n']} {E(slice_param(c, 'rates', s))} {E(fr)}"
    if k in ("GeneralSymmetric", "GeneralNonSymmetric"):
        r = slice_param(c, "rates", s)
        tag = "gsym" if k == "GeneralSymmetric" else "gnonsym"
        return (f"q {mode} {tag} {c['n']} {len(c['mapping'])} {' '.join(map(str, c['mapping']))} "
                f"{len(r)} {E(r)} {E(fr)}")
    if k == "MG94":
        abk = slice_param(c, "alpha", s) + slice_param(c, "beta", s) + slice_param(c, "kappa", s)
        return f"q {mode} mg94 {c['code']} {E(abk)} {E(fr)}"
    raise ValueError(k)


def parse_q_reply(rep, mode):
    w = rep.split()
    n = int(w[0])
    if mode == "f":
        vals = [h2f(x) for x in w[1:]]
    else:
        vals = [Fraction(x) for x in w[1:]]
    return n, [vals[i * n:(i + 1) * n] for i in range(n)], vals[n * n]


def mat_words(M):
    return " ".join(f2h(x) for x in np.asarray(M, dtype=np.float64).reshape(-1))


def parse_mat(rep, n):
    return np.array([h2f(x) for x in rep.split()], dtype=np.float64).reshape(n, n)


# ------------------------------------------------------------------ independent oracle (numpy)
def expm_taylor(A):
    """scaling and squaring with an 18-term Taylor series (independent of torch and of eigh)"""
    A = np.asarray(A, dtype=np.float64)
    n = A.shape[0]
    nrm = np.abs(A).sum(1).max() if n else 0.0
    s = 0
    while nrm > 0.25 and s < 200:
        nrm /= 2.0
        s += 1
    B = A / 2.0 ** s
    term = np.eye(n)
    acc = np.eye(n)
    for k in range(1, 19):
        term = term @ B / k
        acc = acc + term
    for _ in range(s):
        acc = acc @ acc
    return acc


def tol_for(A, freqs, regime="f64"):
    t = _tol_for(A, freqs)
    if regime == "f32in":
        return 1e-5 + (t - 1e-10) * (EPS32 / EPS)
    return t


def _tol_for(A, freqs):
    """absolute tolerance on transition probabilities: 1e-10 plus the rounding error scale of ANY double
    precision evaluation of exp(A): eps * ||A||_inf * sqrt(pi_max/pi_min) (calibrated against mpmath: a
    correct implementation stays below 25 eps ||A||; the factor 100 leaves room)"""
    na = max(1.0, float(np.abs(A).sum(1).max())) if A.size else 1.0
    fr = np.asarray(freqs, dtype=np.float64)
    kap = math.sqrt(float(fr.max() / fr.min())) if fr.min() > 0 else 1.0
    return 1e-10 + 100 * EPS * na * kap


_TABLES = {}


def mg94_spec(code):
    """for one genetic code, from the genetic-code STRING and the triplet list read from the source text (AST, not the
    library at run time): sense codons in order, and for every pair differing at exactly one position whether the
    change is a transition and whether it is synonymous"""
    if "t" not in _TABLES:
        import sys
        from common import REPO, VERIF

        sys.path.insert(0, str(VERIF / "harness" / "translators"))
        import tr_subst

        _TABLES["t"] = tr_subst.read_tables(REPO)
    t = _TABLES["t"]
    table, trip = t["tables"][code], t["triplets"][:64]
    sense = [(trip[i], table[i]) for i in range(64) if table[i] != "*"]
    purines = {"A", "G"}
    pairs = {}
    for i, (c1, a1) in enumerate(sense):
        for j, (c2, a2) in enumerate(sense):
            diff = [p for p in range(3) if c1[p] != c2[p]]
            if len(diff) == 1:
                x, y = c1[diff[0]], c2[diff[0]]
                pairs[(i, j)] = ((x in purines) == (y in purines), a1 == a2)
    return len(sense), pairs


def mg94_oracle(c, out):
    """every one-nucleotide codon pair: q_ij / pi_j = (kappa if transition) * (alpha if synonymous else beta)"""
    bad = []
    n, pairs = mg94_spec(c["code"])
    if n != c["n"]:
        return [("mg94_exchangeabilities", {"sense_codons": n, "state_count": c["n"]})]
    for s in range(c["R"]):
        ps = s if c["S"] > 1 else 0
        a, b, k = (slice_param(c, nm, ps)[0] for nm in ("alpha", "beta", "kappa"))
        Q, fr = out["Q"][s], out["freqs"][s]
        tol = 1e-4 if low_precision(c) else 1e-12
        for (i, j), (ts, syn) in pairs.items():
            want = (k if ts else 1.0) * (a if syn else b)
            got = Q[i, j] / fr[j]
            if abs(got - want) > tol * max(abs(want), 1e-300):
                bad.append(("mg94_exchangeabilities", {"slice": s, "i": i, "j": j, "transition": ts, "synonymous": syn,
                                                       "q_ij/pi_j": float(got), "expected": float(want)}))
                return bad
    return bad


def exchangeability_oracle(c, out):
    """the documented definition of the rate matrices, written independently of the builders: for i != j,
    q_ij / pi_j is the exchangeability the CURRENT options name — rates[mapping[pos(i,j)]] (upper triangle row-major;
    lower triangle: the same position for symmetric models, dim + position for the non-symmetric one), kappa on
    transitions / 1 on transversions for HKY, (a..f) in upper-triangle order for GTR and the empirical models"""
    k, n = c["kind"], c["n"]
    if k not in ("GeneralSymmetric", "GeneralNonSymmetric", "HKY", "GTR", "Empirical"):
        return []
    pos, p = {}, 0
    for i in range(n):
        for j in range(i + 1, n):
            pos[(i, j)] = p
            p += 1
    tol = 1e-4 if low_precision(c) else 1e-12
    for s in range(c["R"]):
        ps = s if c["S"] > 1 else 0
        Q, fr = out["Q"][s], out["freqs"][s]
        for (i, j), kpos in pos.items():
            if k == "HKY":
                want_up = want_lo = slice_param(c, "kappa", ps)[0] if {i, j} in ({0, 2}, {1, 3}) else 1.0
            elif k in ("GTR", "Empirical"):
                want_up = want_lo = slice_param(c, "rates", ps)[kpos]
            else:
                r, mp = slice_param(c, "rates", ps), c["mapping"]
                want_up = r[mp[kpos]]
                want_lo = r[mp[kpos]] if k == "GeneralSymmetric" else r[mp[len(mp) // 2 + kpos]]
            for (a, b, want) in ((i, j, want_up), (j, i, want_lo)):
                got = Q[a, b] / fr[b]
                if abs(got - want) > tol * max(abs(want), 1e-300):
                    return [("exchangeabilities", {"slice": s, "i": a, "j": b, "q_ij/pi_j": float(got),
                                                   "named_by_the_current_options": float(want)})]
    return []


def unnormalised_requested(c):
    """`normalize: false` explicitly given to GeneralNonSymmetric: the options name an un-normalised process, so the
    statement `P = exp(t q()/norm)` is not demanded (everything else is)"""
    return c["kind"] == "GeneralNonSymmetric" and (c.get("route") or {}).get("normalize", "absent") is False


def oracle(c, out):
    """the property's own statements evaluated on the implementation's q(), frequencies, p_t.
    -> list of (name, detail)"""
    bad = []
    n = c["n"]
    regime = regime_of(c)
    f32in = regime == "f32in"
    qtol = 1e-4 if f32in or (regime == "f32default" and c["kind"] in ("JC69", "GeneralJC69", "LG", "WAG")) else 1e-12
    # float32 results, or a reference built from a float32 q() (JC69/GeneralJC69/LG/WAG live in the default dtype)
    tr = "f32in" if (f32in or c.get("move") == "to_other" or
                     (regime == "f32default" and c["kind"] in ("LG", "WAG", "JC69", "GeneralJC69"))) else "f64"
    if c.get("move") == "to_other":
        qtol = 1e-4
    meta = out.get("meta") or {}
    for key in ("not_repeatable", "mutated_inputs", "original_changed_by_updates_on_its_deepcopy"):
        if meta.get(key):
            bad.append((key, {"value": meta[key]}))
    try:
        bad += exchangeability_oracle(c, out)
    except Exception as e:
        bad.append(("exchangeabilities", {"error": repr(e)[:200]}))
    if c["kind"] == "MG94":
        try:
            bad += mg94_oracle(c, out)
        except Exception as e:  # an unreadable table is a recorded outcome
            bad.append(("mg94_exchangeabilities", {"error": repr(e)[:200]}))
    if meta:
        lowp = f32in or (regime == "f32default" and c["kind"] in ("LG", "WAG"))
        want_p = "torch.float32" if lowp else "torch.float64"
        if meta.get("P_dtype") != want_p and c.get("move") != "to_other":
            bad.append(("result_dtype", {"regime": regime, "P": meta.get("P_dtype"), "expected": want_p}))
    for s in range(c["R"]):
        Q = np.asarray(out["Q"][s], dtype=np.float64)
        fr = np.asarray(out["freqs"][s], dtype=np.float64)
        P = out["P"][s]
        ts = c["ts"][s]
        if not (np.isfinite(Q).all() and np.isfinite(P).all()):
            bad.append(("finite", {"slice": s}))
            continue
        qs = max(1.0, float(np.abs(Q).max()))
        rs = np.abs(Q.sum(1)).max()
        if rs > qtol * qs * n:
            bad.append(("Q_rows_zero", {"slice": s, "max_row_sum": float(rs)}))
        off = Q - np.diag(np.diag(Q))
        if off.min() < 0:
            bad.append(("Q_offdiag_nonneg", {"slice": s, "min": float(off.min())}))
        nrm = -float((np.diag(Q) * fr).sum())
        if not nrm > 0:
            bad.append(("norm_positive", {"slice": s, "norm": nrm}))
            continue
        Qn = Q / nrm
        if c["kind"] in REVERSIBLE:
            F = fr[:, None] * Q
            db = np.abs(F - F.T).max()
            if db > qtol * qs:
                bad.append(("Q_detailed_balance", {"slice": s, "max_violation": float(db)}))
        tol_max = tol_for(Qn * ts[3], fr, tr)
        I = np.eye(n)
        if np.abs(P[0] - I).max() > tol_for(Qn * 0.0, fr, tr):
            bad.append(("P0_identity", {"slice": s, "max_dev": float(np.abs(P[0] - I).max())}))
        for b, t in enumerate(ts):
            tol = tol_for(Qn * t, fr, tr)
            d = np.abs(P[b].sum(1) - 1.0).max()
            if d > tol:
                bad.append(("rows_sum_one", {"slice": s, "t": t, "max_dev": float(d)}))
            if P[b].min() < -tol or P[b].max() > 1 + tol:
                bad.append(("entries_in_unit_interval", {"slice": s, "t": t, "min": float(P[b].min()), "max": float(P[b].max())}))
            ref = expm_taylor(Qn * t)
            d = np.abs(P[b] - ref).max()
            if d > tol and not unnormalised_requested(c):
                bad.append(("P_eq_exp_tQ_over_norm", {"slice": s, "t": t, "max_dev": float(d), "tol": tol}))
            if c["kind"] in REVERSIBLE:
                d = np.abs(fr @ P[b] - fr).max()
                if d > tol:
                    bad.append(("stationary", {"slice": s, "t": t, "max_dev": float(d)}))
                F = fr[:, None] * P[b]
                d = np.abs(F - F.T).max()
                if d > tol:
                    bad.append(("P_detailed_balance", {"slice": s, "t": t, "max_dev": float(d)}))
        if "Pmany" in out:
            mts = c["many"]["ts"]
            Pm = out["Pmany"][s]
            tolm = max(tol_for(Qn * t_, fr, tr) for t_ in (max(mts), 1.0))
            d = np.abs(Pm.sum(-1) - 1.0).max()
            if d > tolm:
                bad.append(("many_branches_rows_sum_one", {"slice": s, "branch_lengths_in_one_call": len(mts), "max_dev": float(d)}))
            for i, one in out.get("Psingle", {}).items():
                d = np.abs(Pm[i] - one[s]).max()
                if d > 2 * tolm:
                    bad.append(("many_branches_vs_one_at_a_time", {"slice": s, "branch_lengths_in_one_call": len(mts),
                                                                   "index": i, "t": mts[i], "max_dev": float(d)}))
                    break
            for i in sorted(set([0, len(mts) - 1, len(mts) // 2, min(33, len(mts) - 1)])):
                if unnormalised_requested(c):
                    break
                d = np.abs(Pm[i] - expm_taylor(Qn * mts[i])).max()
                if d > tol_for(Qn * mts[i], fr, tr):
                    bad.append(("many_branches_P_eq_exp", {"slice": s, "branch_lengths_in_one_call": len(mts), "index": i,
                                                           "t": mts[i], "max_dev": float(d)}))
                    break
        d = np.abs(P[1] @ P[2] - P[3]).max()
        if d > 2 * tol_max:
            bad.append(("semigroup", {"slice": s, "s": ts[1], "t": ts[2], "max_dev": float(d)}))
    return bad
