"""The option space of torchtree-cli explored by C19, and covering arrays over it.

A configuration is a dict factor -> level; `to_argv` turns it into the argument vector of the real CLI.
Levels named None mean "option absent".  Constraints between factors that the CLI itself enforces with
parser.error (grid/cutoff with skygrid…) are NOT pre-filtered: the CLI's rejection is an outcome."""
from __future__ import annotations

import itertools

COALESCENT_GRID = ("skygrid", "piecewise-constant", "piecewise-exponential", "piecewise-linear")

FACTORS = {
    "cmd": ["advi", "hmc", "mcmc", "map"],
    "model": ["JC69", "K80", "HKY", "SYM", "GTR", "SRD06", "LG", "WAG", "MG94"],
    "categories": [1, 4],
    "invariant": [False, True],
    "clock": [None, "strict", "ucln", "horseshoe"],
    "heights": ["ratio", "shift"],
    "treeprior": [None, "constant", "exponential", "skyride", "skygrid", "piecewise-constant",
                  "piecewise-exponential", "piecewise-linear", "bd-constant", "bd-bdsk"],
    "grid": [None, 4],
    "cutoff": [None, 8.0, 3.0],
    "family": ["meanfield", "fullrank"],            # advi only
    "distribution": ["Normal", "LogNormal", "Gamma"],  # advi only
    "init": [None, "rate_init", "root_height_init", "heights_init_tree", "brlens_init", "coalescent_init",
             "rate_fixed", "keep", "clockpr_exp", "brlenspr_gammadir", "gmrf_integrated",
             "coalescent_non_centered", "coalescent_integrated", "include_jacobian", "coalescent_temperature",
             "disable_time_aware",
             # explicit initial values close to the boundary of the admissible range
             "root_height_init_low", "rate_init_tiny", "coalescent_init_tiny", "brlens_init_tiny",
             # values whose transform is exactly 0 (falsy in Python): log 1
             "coalescent_init_one", "rate_init_one", "brlens_init_one", "root_height_init_unit",
             # the documented NON-numeric initialisation modes
             "heights_init_regression", "rate_init_regression", "coalescent_init_tree", "coalescent_init_constant",
             "brlens_init_tree"],
}

# the model-defining core enumerated in full in the thorough tier
CORE = ["cmd", "model", "clock", "heights", "treeprior"]


def to_argv(cfg, data):
    ymd = cfg.get("_data") == "ymd"
    same = cfg.get("_data") == "same"
    cal = cfg.get("_data", "") if str(cfg.get("_data", "")).startswith("cal") else None
    if cal:
        import c19_cli as _C
        sp = cfg.get("_spelling") or "caldec"
        fmt = None if sp == "caldec" else sp.split(":", 1)[1]
        tag = _C.cal_tag(fmt)
        a = [cfg["cmd"], "-i", str(data / f"aln_{cal}_{tag}.fa"), "-t", str(data / f"rooted_{cal}_{tag}.nwk"), "-m", "JC69",
             "--clock", "strict", "--heights", cfg.get("heights", "ratio")]
        if cfg["cmd"] in ("mcmc", "map"):
            a += ["--stem", "out"]
        if sp.startswith("cal:"):
            a += ["--date_regex", _C.CAL_REGEX, "--date_format", fmt]
        elif sp.startswith("calcsv:"):
            a += ["--dates", str(data / f"dates_{cal}_{tag}.csv"), "--date_format", fmt]
        return a
    aln = "aln_ymd.fa" if ymd else ("aln_codon.fa" if cfg.get("model") == "MG94" else
                                    "aln_rich.fa" if cfg.get("_data") == "rich" else "aln_same.fa" if same else "aln.fa")
    a = [cfg["cmd"]] + ([] if cfg.get("_poisson") else ["-i", str(data / aln)])
    clock = cfg.get("clock")
    regression = cfg.get("init") in ("heights_init_regression", "rate_init_regression")
    rooted = "rooted_ymd.nwk" if ymd else ("rooted_subst.nwk" if regression else "rooted.nwk")
    if same:
        rooted = "rooted_same_subst.nwk" if regression else "rooted_same.nwk"
    a += ["-t", str(data / (rooted if clock else "unrooted.nwk"))]
    a += ["-m", cfg.get("model", "JC69")]
    if cfg.get("model") == "MG94" and "--genetic_code" not in (cfg.get("extra") or []) and not cfg.get("_no_code"):
        a += ["--genetic_code", "1"]
    if cfg.get("categories", 1) > 1:
        a += ["-C", str(cfg["categories"])]
    if cfg.get("invariant"):
        a += ["-I"]
    if clock:
        a += ["--clock", clock, "--heights", cfg.get("heights", "ratio")]
    tp = cfg.get("treeprior")
    if tp:
        if tp.startswith("bd-"):
            a += ["--birth-death", tp[3:]]
        else:
            a += ["--coalescent", tp]
    if cfg.get("grid") is not None:
        a += ["--grid", str(cfg["grid"])]
    if cfg.get("cutoff") is not None:
        a += ["--cutoff", str(cfg["cutoff"])]
    if cfg["cmd"] == "advi":
        if cfg.get("family", "meanfield") != "meanfield":
            a += ["-q", cfg["family"]]
        if cfg.get("distribution", "Normal") != "Normal":
            a += ["--distribution", cfg["distribution"]]
    if cfg["cmd"] in ("mcmc", "map"):
        a += ["--stem", "out"]
    init = cfg.get("init")
    if init == "rate_init":
        a += ["--rate_init", "0.002"]
    elif init == "root_height_init":
        a += ["--root_height_init", "7.5"]
    elif init == "root_height_init_low":
        a += ["--root_height_init", "4.0001"]      # the oldest tip is 4 time units below the youngest
    elif init == "rate_init_tiny":
        a += ["--rate_init", "1e-07"]
    elif init == "coalescent_init_tiny":
        a += ["--coalescent_init", "1e-05"]
    elif init == "brlens_init_tiny":
        a += ["--brlens_init", "1e-08"]
    elif init == "coalescent_init_one":
        a += ["--coalescent_init", "1"]
    elif init == "rate_init_one":
        a += ["--rate_init", "1.0"]
    elif init == "brlens_init_one":
        a += ["--brlens_init", "1.0"]
    elif init == "root_height_init_unit":
        a += ["--root_height_init", "5.0"]       # oldest-tip offset 4 + 1: the shifted value is 1, its log 0
    elif init == "heights_init_regression":
        a += ["--heights_init", "regression"]
    elif init == "rate_init_regression":
        a += ["--rate_init", "regression"]
    elif init == "coalescent_init_tree":
        a += ["--heights_init", "tree", "--coalescent_init", "tree"]
    elif init == "coalescent_init_constant":
        a += ["--heights_init", "tree", "--coalescent_init", "constant"]
    elif init == "heights_init_tree":
        a += ["--heights_init", "tree"]
    elif init == "brlens_init":
        a += ["--brlens_init", "0.05"]
    elif init == "brlens_init_tree":
        a += ["--brlens_init", "tree"]
    elif init == "coalescent_init":
        a += ["--coalescent_init", "3.0"]
    elif init == "rate_fixed":
        a += ["--rate", "0.003"]
    elif init == "keep":
        a += ["--keep"]
    elif init == "clockpr_exp":
        a += ["--clockpr", "exponential(1000)"]
    elif init == "brlenspr_gammadir":
        a += ["--brlenspr", "gammadir"]
    elif init == "gmrf_integrated":
        a += ["--gmrf_integrated"]
    elif init == "coalescent_non_centered":
        a += ["--coalescent_non_centered"]
    elif init == "coalescent_integrated":
        a += ["--coalescent_integrated", "1.0,2.0"]
    elif init == "include_jacobian":
        a += ["--include_jacobian"]
    elif init == "coalescent_temperature":
        a += ["--coalescent_temperature", "0.5"]
    elif init == "disable_time_aware":
        a += ["--disable_time_aware"]
    a += [x.replace("DATA/", str(data) + "/") for x in (cfg.get("extra") or [])]
    # the SPELLING of the sampling dates (the same dates given another way)
    sp = cfg.get("_spelling")
    if sp == "dates0":
        a += ["--dates", "0"]
    elif sp == "csv":
        a += ["--dates", str(data / ("dates_same.csv" if same else "dates_exact.csv"))]
    elif sp == "regex":
        a += ["--date_regex", r"_(\d+\.?\d*)$"]
    return a


def key(cfg):
    return tuple((k, cfg.get(k)) for k in FACTORS) + (tuple(cfg.get("extra") or ()), cfg.get("_data"), cfg.get("_spelling"),
                                                            cfg.get("_overridden"), cfg.get("_cross"))


# every documented option once, on a configuration it concerns: (sub-commands, base factors, raw extra arguments)
_STRICT = {"clock": "strict", "treeprior": "constant"}
SINGLE_OPTIONS = [
    # --- evolution options
    (("hmc", "advi"), {"model": "HKY"}, ["--frequencies", "empirical"]),
    (("hmc",), {"model": "HKY"}, ["--frequencies", "equal"]),
    (("hmc",), {"model": "HKY"}, ["--frequencies", "0.1,0.2,0.3,0.4"]),
    (("hmc",), {"model": "MG94", "_no_code": True}, []),     # MG94 without --genetic_code
    (("hmc", "advi"), _STRICT, ["--dates", "0"]),
    (("hmc", "advi"), _STRICT, ["--dates", "DATA/dates.csv"]),
    (("hmc",), _STRICT, ["--date_regex", r"_(\d+\.?\d*)$"]),
    (("hmc",), dict(_STRICT, _data="ymd"), ["--date_regex", r"_(\d+)-(\d+)-(\d+)$", "--date_format", "yyyy-MM-dd"]),
    (("hmc",), {"model": "MG94"}, ["--genetic_code", "2"]),
    (("hmc", "advi"), {}, ["--use_path"]),
    (("hmc",), {}, ["--use_ambiguities"]),
    (("hmc",), {}, ["--use_tip_states"]),
    (("hmc", "advi"), _STRICT, ["--location_regex", r"_(\d+)"]),
    (("hmc", "advi"), _STRICT, ["--metadata", "DATA/meta.csv", "--trait", "location"]),
    (("advi",), dict(_STRICT, _poisson=True), ["--poisson"]),
    (("hmc",), {"clock": "strict", "treeprior": "skyride"}, ["--disable_gmrf_rescaling"]),
    # --- hmc
    (("hmc",), _STRICT, ["--iter", "0"]), (("hmc",), _STRICT, ["--iter", "17"]),
    (("hmc",), _STRICT, ["--step_size", "0.05", "--steps", "3"]),
    (("hmc",), _STRICT, ["--log_every", "7", "--stem", "run1"]),
    (("hmc",), _STRICT, ["--warmup", "10"]), (("hmc",), _STRICT, ["--warmup", "0"]),
    (("hmc",), _STRICT, ["--mass_matrix", "dense"]),
    (("hmc",), _STRICT, ["--adapt_mass_matrix"]),
    (("hmc",), _STRICT, ["--adapt_step_size", "dualaveraging"]),
    (("hmc",), _STRICT, ["--adapt_step_size", "adaptive", "--target_acc_prob", "0.65"]),
    (("hmc",), _STRICT, ["--split"]),
    (("hmc",), _STRICT, ["--join", "tree.ratios.unres,tree.root_height.unshifted.unres"]),
    # --- mcmc
    (("mcmc",), _STRICT, ["--iter", "0"]), (("mcmc",), _STRICT, ["--iter", "23", "--log_every", "5", "--target_acc_prob", "0.3"]),
    # --- map
    (("map",), _STRICT, ["--lr", "0.5", "--max_iter", "7", "--max_eval", "9", "--tolerance_grad", "1e-4",
                         "--tolerance_change", "1e-8", "--history_size", "11", "--line_search_fn", "strong_wolfe"]),
    # --- advi
    (("advi",), _STRICT, ["--iter", "0"]), (("advi",), _STRICT, ["--iter", "0", "--samples", "0"]),
    (("advi",), _STRICT, ["--samples", "0"]), (("advi",), _STRICT, ["--iter", "19", "--lr", "0.01", "--samples", "3"]),
    (("advi",), _STRICT, ["--elbo_samples", "0"]), (("advi",), _STRICT, ["--elbo_samples", "10,5"]),
    (("advi",), _STRICT, ["--grad_samples", "2", "--K_grad_samples", "3", "--K_elbo_samples", "2"]),
    (("advi",), _STRICT, ["--tol_rel_obj", "0.05", "--convergence_every", "10"]),
    (("advi",), _STRICT, ["--entropy"]), (("advi",), _STRICT, ["--stem", "run2"]),
    (("advi",), _STRICT, ["--divergence", "KLpq"]), (("advi",), _STRICT, ["--checkpoint_all"]),
    (("advi",), {}, ["-q", "realnvp"]),
    (("advi",), _STRICT, ["-q", "Normal(tree.ratios.unres,tree.root_height.unshifted.unres)"]),
]


def frequency_sweep():
    """models x -f {absent, equal, empirical, explicit} x sub-commands: what is estimated vs fixed must follow the model"""
    base = {"categories": 1, "invariant": False, "clock": None, "heights": "ratio", "treeprior": None,
            "grid": None, "cutoff": None, "family": "meanfield", "distribution": "Normal", "init": None}
    for model in ("JC69", "K80", "HKY", "SYM", "GTR", "SRD06"):
        for f in (None, "equal", "empirical", "0.1,0.2,0.3,0.4"):
            for cmd in FACTORS["cmd"]:
                c = dict(base, cmd=cmd, model=model)
                if f is not None:
                    c["extra"] = ["--frequencies", f]
                yield c


def derived_starts():
    """every option that REQUESTS a data-derived starting value, for every sub-command and every combination that uses it
    (the values are recomputed independently by the harness): regression rate / root height, node heights and branch
    lengths of the input tree, coalescent maximum-likelihood sizes; `-f empirical` is in frequency_sweep"""
    base = {"model": "JC69", "categories": 1, "invariant": False, "clock": None, "heights": "ratio", "treeprior": None,
            "grid": None, "cutoff": None, "family": "meanfield", "distribution": "Normal", "init": None}
    for cmd in FACTORS["cmd"]:
        for init in ("brlens_init_tree", "keep"):
            yield dict(base, cmd=cmd, init=init)
        for heights in ("ratio", "shift"):
            for clock in ("strict", "ucln"):
                for init in ("heights_init_regression", "rate_init_regression", "heights_init_tree", "keep"):
                    yield dict(base, cmd=cmd, clock=clock, heights=heights, init=init)
            for tp, init in (("constant", "coalescent_init_tree"), ("skyride", "coalescent_init_tree"),
                             ("constant", "coalescent_init_constant"), ("exponential", "coalescent_init_constant")):
                yield dict(base, cmd=cmd, clock="strict", heights=heights, treeprior=tp, init=init)
        # an empirical start together with a tree-derived one, models whose start comes from pair counts
        for model in ("HKY", "GTR"):
            yield dict(base, cmd=cmd, model=model, clock="strict", init="heights_init_tree", extra=["--frequencies", "empirical"])
        # empirical starts on the alignment where every substitution type has its own count (FASTA order != tree order)
        for model in ("K80", "HKY", "SYM", "GTR", "SRD06"):
            yield dict(base, cmd=cmd, model=model, _data="rich", extra=["--frequencies", "empirical"])
        yield dict(base, cmd=cmd, model="GTR", clock="ucln", treeprior="constant", _data="rich", extra=["--frequencies", "empirical"])
        # tree-derived starts when the FASTA (= taxa) order is neither the tree's nor the sorted one: dates go BY NAME
        for init in ("heights_init_regression", "rate_init_regression", "heights_init_tree"):
            yield dict(base, cmd=cmd, clock="strict", init=init, _data="rich")
        yield dict(base, cmd=cmd, init="keep", _data="rich")


def precedence():
    """OPTION PRECEDENCE: a fixing / explicit option and an initialising / derived option that address the same quantity
    given together - the value must be the fixed / explicit one (and lie within its own bounds).  `_overridden` names the
    option that must lose (so that its having no effect is not reported as an ignored option)."""
    base = {"model": "JC69", "categories": 1, "invariant": False, "clock": "strict", "heights": "ratio", "treeprior": None,
            "grid": None, "cutoff": None, "family": "meanfield", "distribution": "Normal", "init": None}
    for cmd in FACTORS["cmd"]:
        for heights in (("ratio", "shift") if cmd == "hmc" else ("ratio",)):
            b = dict(base, cmd=cmd, heights=heights)
            # --rate R fixes the clock rate: no starting value may replace it
            for extra in (["--rate_init", "0.002"], ["--rate_init", "regression"], ["--heights_init", "regression"]):
                yield dict(b, init="rate_fixed", extra=extra, _overridden=extra[0])
            # an explicit number beats a derived value
            yield dict(b, init="rate_init", extra=["--heights_init", "regression"], _overridden="--heights_init")
            yield dict(b, init="root_height_init", extra=["--heights_init", "regression"], _overridden="--heights_init")
            yield dict(b, init="root_height_init", extra=["--rate_init", "regression"], _overridden="--rate_init")
            yield dict(b, init="coalescent_init", treeprior="constant", extra=["--heights_init", "tree"], _overridden="--heights_init")
        yield dict(base, cmd=cmd, init="root_height_init", treeprior="skygrid", grid=4, cutoff=8.0)
        yield dict(base, cmd=cmd, init="rate_fixed", clock="strict", treeprior="constant", extra=["--rate_init", "0.002"],
                   _overridden="--rate_init")


CROSS_SWITCHES = ["coalescent_integrated", "gmrf_integrated", "coalescent_non_centered", "coalescent_temperature",
                  "disable_time_aware", "coalescent_init"]


def cross_model():
    """switches documented for ONE tree prior given with EVERY tree prior (argparse accepts them all): the emitted model
    must still be the described one - every sampled parameter under a prior, Jacobians counted once, what is free = what the
    model says.  `--coalescent_integrated` (the constant coalescent's) runs under every sub-command, the others under hmc."""
    base = {"model": "JC69", "categories": 1, "invariant": False, "clock": "strict", "heights": "ratio",
            "grid": None, "cutoff": None, "family": "meanfield", "distribution": "Normal"}
    for sw in CROSS_SWITCHES:
        for tp in FACTORS["treeprior"]:
            if tp is None:
                continue
            for cmd in (FACTORS["cmd"] if sw == "coalescent_integrated" else ("hmc",)):
                yield dict(base, cmd=cmd, treeprior=tp, init=sw, _cross=True)


# every Python spelling of a float (float() accepts them all; negative values are not admissible for these options)
SPELL_500 = ["500", "500.0", "500.", "5e2", "5.0E+2", "+5.0e+02", ".5e3", "0.05E4"]
SPELL_QUARTER = ["0.25", ".25", "2.5e-1", "25E-2", "+0.25", "00.25", "2.5E-01"]


def numeric_spellings():
    """the same NUMBER spelled in every way float() reads, for every numeric option and distribution argument: the emitted
    value is float(spelling) (a parser that recognises only some spellings falls back to a default or refuses)"""
    base = {"model": "JC69", "categories": 1, "invariant": False, "clock": "strict", "heights": "ratio", "treeprior": None,
            "grid": None, "cutoff": None, "family": "meanfield", "distribution": "Normal", "init": None}
    for cmd in ("hmc", "advi"):
        for sp in SPELL_500 + SPELL_QUARTER:
            yield dict(base, cmd=cmd, extra=["--clockpr", f"exponential({sp})"])
    for sp in SPELL_QUARTER:
        yield dict(base, cmd="hmc", extra=["--rate_init", sp])
        yield dict(base, cmd="hmc", extra=["--rate", sp])
        yield dict(base, cmd="map", treeprior="constant", extra=["--coalescent_init", sp])
        yield dict(base, cmd="advi", clock=None, extra=["--brlens_init", sp])
        yield dict(base, cmd="hmc", extra=["--step_size", sp, "--steps", "3"])
        yield dict(base, cmd="advi", extra=["--lr", sp])
    for sp in SPELL_500:
        yield dict(base, cmd="hmc", extra=["--root_height_init", sp])
        yield dict(base, cmd="advi", treeprior="constant", extra=["--coalescent_init", sp])


def calendar_dates():
    """the same sampling dates as decimal years in the names, as calendar dates in the names under every field order of
    --date_format, and as a csv of calendar strings: the emitted tip dates must be the calendar's (datetime) decimal years"""
    import c19_cli as _C

    base = {"model": "JC69", "categories": 1, "invariant": False, "clock": "strict", "heights": "ratio", "treeprior": None,
            "grid": None, "cutoff": None, "family": "meanfield", "distribution": "Normal", "init": None, "cmd": "hmc"}
    n = len(_C.CAL_FORMATS)
    for k in range(len(_C.CAL_SETS)):
        yield dict(base, _data=f"cal{k}", _spelling="caldec")
        fmts = _C.CAL_FORMATS if k in (0, len(_C.CAL_SETS) - 1) else [_C.CAL_FORMATS[k % n]]
        for fmt in fmts:
            yield dict(base, _data=f"cal{k}", _spelling="cal:" + fmt)
        yield dict(base, _data=f"cal{k}", _spelling="calcsv:" + _C.CAL_FORMATS[(k + 1) % n])


def date_spellings():
    """equivalent SPELLINGS of the same sampling dates (the dates in the names read by the default pattern, by an explicit
    --date_regex, from a csv that repeats them; for contemporaneous data also --dates 0), heterochronous and
    contemporaneous data, with and without the regression starts: the emitted model must not depend on the spelling"""
    base = {"model": "JC69", "categories": 1, "invariant": False, "clock": "strict", "heights": "ratio", "treeprior": None,
            "grid": None, "cutoff": None, "family": "meanfield", "distribution": "Normal", "init": None}
    for cmd in ("hmc", "advi"):
        for init in (None, "heights_init_regression", "rate_init_regression", "heights_init_tree"):
            for data, spellings in ((None, ("names", "regex", "csv")), ("same", ("names", "regex", "csv", "dates0"))):
                for sp in spellings:
                    c = dict(base, cmd=cmd, init=init, _spelling=sp)
                    if data:
                        c["_data"] = data
                    yield c
            yield dict(base, cmd=cmd, init=init, treeprior="constant", _data="same", _spelling="names")
            yield dict(base, cmd=cmd, init=init, treeprior="constant", _data="same", _spelling="dates0")


def single_options():
    base = {"model": "JC69", "categories": 1, "invariant": False, "clock": None, "heights": "ratio", "treeprior": None,
            "grid": None, "cutoff": None, "family": "meanfield", "distribution": "Normal", "init": None}
    for cmds, over, extra in SINGLE_OPTIONS:
        for cmd in cmds:
            c = dict(base, cmd=cmd)
            c.update({k: v for k, v in over.items()})
            c["extra"] = list(extra)
            yield c


INIT_NEEDS = {
    "rate_init": lambda c: c["clock"],
    "rate_fixed": lambda c: c["clock"] == "strict",
    "clockpr_exp": lambda c: c["clock"],
    "root_height_init": lambda c: c["clock"],
    "root_height_init_low": lambda c: c["clock"],
    "rate_init_tiny": lambda c: c["clock"],
    "coalescent_init_tiny": lambda c: c["treeprior"] in ("constant", "exponential"),
    "brlens_init_tiny": lambda c: not c["clock"],
    "coalescent_init_one": lambda c: c["treeprior"] in ("constant", "exponential", "skyride", "skygrid", "piecewise-constant"),
    "rate_init_one": lambda c: c["clock"],
    "brlens_init_one": lambda c: not c["clock"],
    "root_height_init_unit": lambda c: c["clock"],
    "heights_init_regression": lambda c: c["clock"],
    "rate_init_regression": lambda c: c["clock"],
    "coalescent_init_tree": lambda c: c["clock"] and c["treeprior"] in ("constant", "skyride"),
    "coalescent_init_constant": lambda c: c["clock"] and c["treeprior"] in ("constant", "exponential"),
    "heights_init_tree": lambda c: c["clock"],
    "brlens_init": lambda c: not c["clock"],
    "brlens_init_tree": lambda c: not c["clock"],
    "keep": lambda c: True,
    "brlenspr_gammadir": lambda c: not c["clock"],
    "coalescent_init": lambda c: c["treeprior"] in ("constant", "exponential", "skyride", "skygrid", "piecewise-constant"),
    "gmrf_integrated": lambda c: c["treeprior"] in ("skyride",) + COALESCENT_GRID,
    "coalescent_non_centered": lambda c: c["treeprior"] in ("skyride",) + COALESCENT_GRID,
    "coalescent_integrated": lambda c: c["treeprior"] == "constant",
    "coalescent_temperature": lambda c: c["treeprior"] in ("skygrid", "piecewise-constant"),
    "disable_time_aware": lambda c: c["treeprior"] == "skyride",
    "include_jacobian": lambda c: c["clock"],
}


def normalise(cfg):
    return _normalise(cfg)


def _normalise(cfg):
    """map a raw row of the covering array to a SENSIBLE configuration: factor levels that make no sense in the
    context of the others are reset (a tree prior needs a clock; grid/cutoff go with the grid coalescents and
    BDSK; an initialisation switch must concern a parameter that exists)"""
    c = dict(cfg)
    if c["cmd"] != "advi":
        c["family"], c["distribution"] = "meanfield", "Normal"
    if not c.get("clock"):
        c["heights"] = "ratio"
        c["treeprior"] = None
    tp = c.get("treeprior")
    if tp in COALESCENT_GRID:
        c["grid"], c["cutoff"] = 4, (c.get("cutoff") or 8.0)
    elif tp == "bd-bdsk":
        c["cutoff"] = None
    else:
        c["grid"], c["cutoff"] = None, None
    if c.get("init") and not c.get("_cross") and not INIT_NEEDS[c["init"]](c):
        c["init"] = None
    return c


def pairwise(rng, factors=FACTORS, fixed=None):
    """greedy pairwise covering array (every pair of levels of every two factors occurs in some row)"""
    names = list(factors)
    need = set()
    for i, j in itertools.combinations(range(len(names)), 2):
        for a in factors[names[i]]:
            for b in factors[names[j]]:
                need.add((i, a, j, b))
    rows = []
    need = sorted(need, key=repr)      # deterministic order (set iteration depends on the hash seed)
    while need:
        best, best_gain = None, -1
        for _ in range(40):
            # seed the candidate with one uncovered pair
            i, a, j, b = rng.choice(need)
            row = {n: rng.choice(factors[n]) for n in names}
            row[names[i]], row[names[j]] = a, b
            gain = sum(1 for (p, x, q, y) in need if row[names[p]] == x and row[names[q]] == y)
            if gain > best_gain:
                best, best_gain = row, gain
        rows.append(best)
        need = [(p, x, q, y) for (p, x, q, y) in need if not (best[names[p]] == x and best[names[q]] == y)]
    return rows


def core_lite():
    """every sampler x clock x heights x {no tree prior, constant, skyride}: guarantees that the density identity
    and the loader are exercised for every clock model under every sub-command even in the quick tier"""
    for cmd in FACTORS["cmd"]:
        for clock in FACTORS["clock"]:
            for heights in FACTORS["heights"]:
                for tp in (None, "constant", "skyride"):
                    for init in (None, "root_height_init_low", "coalescent_non_centered"):
                        if init == "root_height_init_low" and not (clock == "strict" and tp == "constant"):
                            continue
                        if init == "coalescent_non_centered" and not (clock == "strict" and tp == "skyride"
                                                                      and heights == "ratio"):
                            continue
                        yield {"cmd": cmd, "model": "HKY", "categories": 1, "invariant": False, "clock": clock,
                               "heights": heights, "treeprior": tp, "grid": None, "cutoff": None, "family": "meanfield",
                               "distribution": "Normal", "init": init}
    # every initialisation switch/mode, on the configurations it concerns
    base = {"model": "JC69", "categories": 1, "invariant": False, "grid": None, "cutoff": None, "family": "meanfield",
            "distribution": "Normal"}
    for cmd in ("hmc", "advi"):
        for init in FACTORS["init"]:
            if init is None:
                continue
            for clock, heights, tp in ((None, "ratio", None), ("strict", "ratio", "constant"), ("strict", "shift", "constant"),
                                       ("strict", "ratio", "skyride"), ("strict", "ratio", "skygrid"),
                                       ("strict", "ratio", "exponential")):
                c = dict(base, cmd=cmd, clock=clock, heights=heights, treeprior=tp, init=init)
                if INIT_NEEDS[init](c):
                    yield c
    for cmd in ("hmc", "mcmc"):
        for cutoff in (8.0, 3.0):
            yield dict(base, cmd=cmd, clock="strict", heights="ratio", treeprior="skygrid", cutoff=cutoff, init=None)


def core_product():
    names = CORE
    for levels in itertools.product(*[FACTORS[n] for n in names]):
        cfg = {"categories": 1, "invariant": False, "grid": None, "cutoff": None, "family": "meanfield",
               "distribution": "Normal", "init": None}
        cfg.update(dict(zip(names, levels)))
        if cfg["treeprior"] in COALESCENT_GRID:
            cfg["grid"], cfg["cutoff"] = 4, 8.0
        yield cfg
