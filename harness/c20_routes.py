"""C20 — HOW the object under test is reached (fourth-wave checklist): construction routes (keyword / positional / from_json
with every subset of the optional keys, key orders, referenced sub-objects, short and full type names), dtype regimes,
grad modes, input immutability, second instance / deepcopy, batches (B equal to another dimension, one special row),
special but valid values, minimum sizes, failure paths — for GMRF, GMRFGammaIntegrated, ConstantCoalescentIntegrated(Model)
and the sufficient statistics.  Reference values are computed here in plain Python from the documented formulas."""
from __future__ import annotations

import copy
import math
import re
from fractions import Fraction as F
from types import SimpleNamespace

import c08_gen as G
from c20 import T, T2, close, enc, make_gmrf_case, observe
from common import REPO

LOG2PI = math.log(2.0 * math.pi)


# ----------------------------------------------------------------------------- plain-Python references
def weights_ref(case):
    mode = case["mode"]
    if mode == "P":
        return None
    if mode == "W":
        return [float(w) for w in case["weights"]]
    hs = sorted([0.0] + [float(c) for c in case["coal"]])
    dur = [b - a for a, b in zip(hs, hs[1:])]
    w = [(a + b) / 2.0 for a, b in zip(dur, dur[1:])]
    if mode == "T1":
        w = [x / hs[-1] for x in w]
    return w


def sumsq_ref(case):
    x = [float(v) for v in case["field"]]
    w = weights_ref(case)
    d = [(a - b) ** 2 for a, b in zip(x, x[1:])]
    return sum(d) if w is None else sum(q / ww for q, ww in zip(d, w))


def gmrf_ref(case):
    dim = len(case["field"]) - 1
    tau = float(case["tau"])
    return dim / 2.0 * math.log(tau) - sumsq_ref(case) * tau / 2.0 - dim / 2.0 * LOG2PI


def gint_ref(case):
    dim = len(case["field"]) - 1
    a, b = float(case["shape"]), float(case["rate"])
    return (-dim / 2.0 * LOG2PI + a * math.log(b) - math.lgamma(a) + math.lgamma(a + dim / 2.0)
            - (a + dim / 2.0) * math.log(sumsq_ref(case) / 2.0 + b))


def _scalar(v):
    import torch

    if not isinstance(v, torch.Tensor) or v.numel() != 1:
        return None
    return float(v.reshape(-1)[0])


def _tree(case):
    return SimpleNamespace(node_heights=T(list(case["samp"]) + list(case["coal"])), taxa_count=len(case["samp"]))


def _real_tree_json(case):
    from torchtree.evolution.tree_model import TimeTreeModel

    taxa = {f"T{i}": float(s) for i, s in enumerate(case["samp"])}
    js = TimeTreeModel.json_factory("tree", case["newick"], [0.0] * len(case["coal"]), taxa, keep_branch_lengths=True)
    js["internal_heights"]["dtype"] = "torch.float64"
    return js


# ----------------------------------------------------------------------------- 1. construction routes
def gmrf_routes(R, rng, n, integrated):
    import torch
    from torchtree import Parameter
    from torchtree.core.utils import process_object
    from torchtree.distributions.gmrf import GMRF
    from torchtree.distributions.gmrf_integrated import GMRFGammaIntegrated

    ck = R.ck
    cls = GMRFGammaIntegrated if integrated else GMRF
    full = ("torchtree.distributions.gmrf_integrated.GMRFGammaIntegrated" if integrated else "torchtree.distributions.gmrf.GMRF")
    for mode in ("P", "W", "T0", "T1"):
        case = make_gmrf_case(rng, n, mode)
        case["what"] = "gint" if integrated else "gmrf"
        if integrated:
            case["shape"], case["rate"] = F(rng.randint(2, 24), 8), F(rng.randint(2, 24), 8)
        want = gint_ref(case) if integrated else gmrf_ref(case)
        rescale = mode == "T1"
        built = {}

        def field():
            return Parameter("field", T(case["field"]))

        def prec():
            return Parameter("precision", T([case["tau"]]))

        tree = _tree(case) if mode in ("T0", "T1") else None
        wts = T(case["weights"]) if mode == "W" else None
        try:
            if integrated:
                sh, rt = float(case["shape"]), float(case["rate"])
                built["keyword"] = cls(id_="g", field=field(), shape=sh, rate=rt, tree_model=tree, weights=wts, rescale=rescale)
                built["positional"] = cls("g", field(), sh, rt, tree, wts, rescale)
                built["keyword-reordered"] = cls(rescale=rescale, weights=wts, tree_model=tree, rate=rt, shape=sh, field=field(), id_="g")
                if mode in ("P", "W", "T1"):
                    built["defaults-omitted"] = (cls("g", field(), sh, rt) if mode == "P" else
                                                 cls("g", field(), sh, rt, weights=wts) if mode == "W" else cls("g", field(), sh, rt, tree))
            else:
                built["keyword"] = cls(id_="g", field=field(), precision=prec(), tree_model=tree, weights=wts, rescale=rescale)
                built["positional"] = cls("g", field(), prec(), tree, wts, rescale)
                built["keyword-reordered"] = cls(rescale=rescale, weights=wts, tree_model=tree, precision=prec(), field=field(), id_="g")
                if mode in ("P", "W", "T1"):
                    built["defaults-omitted"] = (cls("g", field(), prec()) if mode == "P" else
                                                 cls("g", field(), prec(), weights=wts) if mode == "W" else cls("g", field(), prec(), tree))
        except Exception as e:
            R.violation(f"{cls.__name__}.__init__:raises", f"{type(e).__name__}: {str(e)[:120]}", case, n)
            continue
        # from_json / process_object with every admissible subset of the optional keys
        fjs = {"id": "field", "type": "Parameter", "tensor": [float(x) for x in case["field"]], "dtype": "torch.float64"}
        base = {"id": "g", "x": fjs}
        if integrated:
            base.update(shape=float(case["shape"]), rate=float(case["rate"]))
        else:
            base["precision"] = {"id": "precision", "type": "Parameter", "tensor": [float(case["tau"])], "dtype": "torch.float64"}
        opts = []
        if mode == "P":
            opts = [{}, {"rescale": True}, {"rescale": False}]  # rescale is ignored without a tree
        elif mode == "W":
            wj = {"id": "w", "type": "Parameter", "tensor": [float(x) for x in case["weights"]], "dtype": "torch.float64"}
            opts = [{"weights": wj}, {"weights": wj, "rescale": False}]
        elif mode == "T1":
            opts = [{"tree_model": _real_tree_json(case)}, {"tree_model": _real_tree_json(case), "rescale": True}]
        else:
            opts = [{"tree_model": _real_tree_json(case), "rescale": False}]
        for oi, extra in enumerate(opts):
            for tname, tval in (("short", cls.__name__), ("full", full)):
                for shuffled in (False, True):
                    d = dict(base, type=tval, **copy.deepcopy(extra))
                    if shuffled:
                        items = list(d.items())
                        rng.shuffle(items)
                        d = dict(items)
                    name = f"json/{'+'.join(sorted(extra)) or 'no-options'}#{oi}/{tname}-type{'/shuffled' if shuffled else ''}"
                    try:
                        built[name] = process_object(copy.deepcopy(d), {})
                    except Exception as e:
                        R.violation(f"{cls.__name__}:route:raises", f"{cls.__name__} through {name} raises {type(e).__name__}: {str(e)[:120]}", case, n,
                                    {"json": d})
            try:
                d = dict(base, **copy.deepcopy(extra))
                built[f"from_json/{'+'.join(sorted(extra)) or 'no-options'}#{oi}"] = cls.from_json(d, {})
                # referenced field (and tree) defined beforehand
                dic = {}
                process_object(copy.deepcopy(fjs), dic)
                d2 = dict(base, type=cls.__name__, **copy.deepcopy(extra))
                d2["x"] = "field"
                if "tree_model" in d2:
                    process_object(copy.deepcopy(d2["tree_model"]), dic)
                    d2["tree_model"] = "tree"
                built[f"json-referenced/{'+'.join(sorted(extra)) or 'no-options'}#{oi}"] = process_object(d2, dic)
            except Exception as e:
                R.violation(f"{cls.__name__}:route:raises", f"{cls.__name__}.from_json / referenced sub-objects ({sorted(extra)}) raises "
                            f"{type(e).__name__}: {str(e)[:120]}", case, n)
        for name, m in built.items():
            ck.case(key=("c20route", cls.__name__, mode, name, n, tuple(case["field"])), bucket=f"route/{cls.__name__}/{mode}/{name.split('#')[0].split('/')[0]}")
            try:
                v = _scalar(m())
            except Exception as e:
                R.violation(f"{cls.__name__}:route:raises", f"{cls.__name__} through {name}: {type(e).__name__}: {str(e)[:120]}", case, n, {"route": name})
                continue
            # "is the object the one its options name" is decided by BEHAVIOUR: its log density against the documented formula
            # of the variant / hyper-parameters that were written (below) — the value separates plain / weighted / time-aware,
            # rescaled or not, and the hyper-parameters. No attribute of the object is read for it.
            if v is None or not close(v, want, 1e-10, abs(want)):
                R.violation(f"{cls.__name__}:route:value", f"{cls.__name__} ({mode}) through {name} evaluates to {v!r}; documented formula {want!r}", case, n,
                            {"route": name, "impl": v, "reference": want})


def cint_routes(R, rng, n):
    import torchtree.evolution.coalescent as C
    from torchtree.core.utils import process_object

    ck = R.ck
    g = G.genealogy(rng, n, q=2)
    case = {"what": "cint", "samp": g["samp"], "coal": g["coal"], "newick": g["newick"], "alpha": F(rng.randint(2, 24), 8), "beta": F(rng.randint(2, 24), 8)}
    samp, coal = g["samp"], g["coal"]
    pts = sorted(set(samp + coal))
    stat = F(0)
    for a, b in zip(pts, pts[1:]):
        mid = (a + b) / 2
        k = sum(1 for x in samp if x < mid) - sum(1 for x in coal if x < mid)
        stat += F(k * (k - 1), 2) * (b - a)
    al, be, m = float(case["alpha"]), float(case["beta"]), n - 1
    want = al * math.log(be) - math.lgamma(al) + math.lgamma(al + m) - (al + m) * math.log(be + float(stat))
    tree_js = _real_tree_json(case)
    built = {}
    try:
        from torchtree.evolution.tree_model import TimeTreeModel

        def tm():
            return TimeTreeModel.from_json(copy.deepcopy(tree_js), {})

        built["keyword"] = C.ConstantCoalescentIntegratedModel(id_="c", tree_model=tm(), alpha=al, beta=be)
        built["positional"] = C.ConstantCoalescentIntegratedModel("c", tm(), al, be)
        built["keyword-reordered"] = C.ConstantCoalescentIntegratedModel(beta=be, alpha=al, tree_model=tm(), id_="c")
        d = {"id": "c", "type": "ConstantCoalescentIntegratedModel", "alpha": al, "beta": be, "tree_model": copy.deepcopy(tree_js)}
        built["process_object"] = process_object(copy.deepcopy(d), {})
        items = list(d.items())
        rng.shuffle(items)
        built["process_object/shuffled"] = process_object(copy.deepcopy(dict(items)), {})
        built["from_json"] = C.ConstantCoalescentIntegratedModel.from_json(copy.deepcopy(d), {})
    except Exception as e:
        R.violation("ConstantCoalescentIntegratedModel:route:raises", f"{type(e).__name__}: {str(e)[:120]}", case, n)
    for name, mobj in built.items():
        ck.case(key=("cintroute", name, n, tuple(coal)), bucket=f"route/ConstantCoalescentIntegratedModel/{name}")
        try:
            v = _scalar(mobj())
        except Exception as e:
            R.violation("ConstantCoalescentIntegratedModel:route:raises", f"{name}: {type(e).__name__}: {str(e)[:120]}", case, n)
            continue
        # the hyper-parameters it was given are decided by the VALUE (closed form below); the public attributes are compared when there
        have, ab = observe(ck, "ConstantCoalescentIntegratedModel.alpha/beta", lambda: (float(mobj.alpha), float(mobj.beta)))
        if have and ab != (al, be):
            R.violation("ConstantCoalescentIntegratedModel:route:options", f"through {name}: alpha/beta are {ab}, given ({al}, {be})", case, n)
        if v is None or not close(v, want, 1e-10, abs(want)):
            R.violation("ConstantCoalescentIntegratedModel:route:value", f"through {name}: {v!r}; documented closed form {want!r}", case, n,
                        {"impl": v, "reference": want})


# ----------------------------------------------------------------------------- 2-5. dtype, grad modes, immutability, history
def gmrf_regimes(R, rng, n, mode):
    import torch
    from torchtree import Parameter
    from torchtree.distributions.gmrf import GMRF

    ck = R.ck
    case = make_gmrf_case(rng, n, mode)
    want = gmrf_ref(case)

    def build(dt=torch.float64, grad=False):
        f = T(case["field"]).to(dt)
        p = T([case["tau"]]).to(dt)
        if grad:
            f.requires_grad_(True)
            p.requires_grad_(True)
        tree = None
        if mode in ("T0", "T1"):
            tree = SimpleNamespace(node_heights=T(list(case["samp"]) + list(case["coal"])).to(dt), taxa_count=len(case["samp"]))
        w = T(case["weights"]).to(dt) if mode == "W" else None
        return GMRF("g", Parameter("field", f), Parameter("precision", p), tree, w, mode == "T1"), (f, p, w, tree)

    saved = torch.get_default_dtype()
    try:
        for default, inp in ((torch.float32, torch.float64), (torch.float64, torch.float32)):
            torch.set_default_dtype(default)
            name = f"default={str(default)[6:]}/inputs={str(inp)[6:]}"
            ck.case(key=("c20dtype", mode, name, n, tuple(case["field"])), bucket=f"dtype/GMRF/{mode}/{name}")
            try:
                g, _ = build(inp)
                v = g()
                Q = g.precision_matrix()
            except Exception as e:
                R.violation(f"GMRF:dtype:{name}:raises", f"GMRF ({mode}) raises with default dtype {default} and {inp} inputs: {type(e).__name__}: {str(e)[:120]}",
                            case, n, {"default_dtype": str(default), "input_dtype": str(inp)})
                continue
            val = _scalar(v)
            ck.bucket(f"dtype-result/GMRF/{name}/value={str(v.dtype)[6:]}/matrix={str(Q.dtype)[6:]}")
            tol = 1e-10 if inp == torch.float64 else 5e-5
            if val is None or not close(val, want, tol, abs(want)):
                R.violation(f"GMRF:dtype:{name}:value", f"GMRF ({mode}) with default dtype {default} and {inp} inputs: {val!r}; documented formula {want!r}", case, n)
            elif inp == torch.float64 and (v.dtype != torch.float64 or Q.dtype != torch.float64):
                R.violation(f"GMRF:dtype:{name}:precision-lost", f"float64 inputs give value {v.dtype} / matrix {Q.dtype}", case, n)
    finally:
        torch.set_default_dtype(saved)
    # grad modes + immutability
    vals = {}
    for gm in ("no_grad", "enabled", "requires_grad"):
        ck.case(key=("c20grad", mode, gm, n, tuple(case["field"])), bucket=f"grad-mode/GMRF/{mode}/{gm}")
        try:
            g, (f, p, w, tree) = build(grad=(gm == "requires_grad"))
            before = [t.detach().clone() for t in (f, p) + ((w,) if w is not None else ()) + ((tree.node_heights,) if tree is not None else ())]
            if gm == "no_grad":
                with torch.no_grad():
                    v = g()
                    Q = g.precision_matrix()
            else:
                v = g()
                Q = g.precision_matrix()
            after = [t.detach() for t in (f, p) + ((w,) if w is not None else ()) + ((tree.node_heights,) if tree is not None else ())]
        except Exception as e:
            R.violation(f"GMRF:grad-mode:{gm}:raises", f"{type(e).__name__}: {str(e)[:120]}", case, n)
            continue
        if any(not torch.equal(a, b) for a, b in zip(before, after)):
            R.violation("GMRF:mutates-input", f"GMRF ({mode}, {gm}) modified a tensor it was given", case, n)
        vals[gm] = (_scalar(v.detach()), [float(x) for x in Q.detach().reshape(-1).tolist()])
    ref = vals.get("enabled")
    for gm, v in vals.items():
        if ref is None or v != ref:
            R.violation(f"GMRF:grad-mode:{gm}:differs", f"GMRF ({mode}) under {gm} differs from the evaluation with autograd enabled (must agree bitwise)", case, n)
    # repeat, second instance of the same shapes, deepcopy
    try:
        g1, _ = build()
        a1, a2 = _scalar(g1()), _scalar(g1())
        case2 = make_gmrf_case(rng, n, mode)
        saved_case = dict(case)
        case.update(case2)
        g2, _ = build()
        b = _scalar(g2())
        want2 = gmrf_ref(case)
        case.clear()
        case.update(saved_case)
        a3 = _scalar(g1())
        g3 = copy.deepcopy(g1)
        have3, p3 = observe(ck, "deepcopy.precision", lambda: g3.precision)
        if have3:
            p3.tensor = T([F(3)])
        c = _scalar(g3())
        Qc = g3.precision_matrix()
        a4 = _scalar(g1())
        want3 = gmrf_ref(dict(case, tau=F(3)))
    except Exception as e:
        R.violation("GMRF:history:raises", f"{type(e).__name__}: {str(e)[:120]}", case, n)
        return
    ck.case(key=("c20hist", mode, n, tuple(case["field"])), bucket=f"history/GMRF/{mode}/repeat+second-instance+deepcopy")
    for what, v, o in (("first evaluation", a1, want), ("same call again", a2, want), ("second object of the same shapes", b, want2),
                       ("first object after the second was used", a3, want), ("deepcopy with a new precision", c, want3 if have3 else want),
                       ("original after its deepcopy was updated", a4, want)):
        if v is None or not close(v, o, 1e-10, abs(o)):
            R.violation(f"GMRF:history:{what.replace(' ', '-')}", f"GMRF ({mode}): {what}: {v!r}, documented formula {o!r}", case, n)
    x = [float(v) for v in case["field"]]
    q = sum(x[i] * float(Qc[i][j]) * x[j] for i in range(n) for j in range(n))
    if have3 and not close(q, 3.0 * sumsq_ref(case), 1e-10, abs(q)):
        R.violation("GMRF:history:deepcopy-precision-matrix", f"GMRF ({mode}): precision_matrix of the updated deepcopy gives x'Qx = {q!r}, 3 * sum of scaled squares = {3.0 * sumsq_ref(case)!r}", case, n)


def suffstats_regimes(R, rng, n):
    """sufficient statistics: input immutability, grad modes, dtype of the results, second instance"""
    import torch
    import torchtree.evolution.coalescent as C

    ck = R.ck
    g = G.genealogy(rng, n, q=3)
    grid = G.grid_for(rng, rng.randint(1, 4), max(g["coal"]), g["coal"], g["samp"], q=3)
    th = [G.pow2(rng) for _ in range(len(grid) + 1)]
    case = {"what": "suffstats", "kind": "skygrid", "samp": g["samp"], "coal": g["coal"], "grid": grid, "thetas": th}
    res = {}
    for gm in ("no_grad", "enabled", "requires_grad"):
        ck.case(key=("ssgrad", gm, n, tuple(g["coal"])), bucket=f"grad-mode/sufficient_statistics/{gm}")
        h, tt, gg = T(g["samp"] + g["coal"]), T(th), T(grid)
        if gm == "requires_grad":
            h.requires_grad_(True)
            tt.requires_grad_(True)
        before = [t.detach().clone() for t in (h, tt, gg)]
        try:
            d = C.PiecewiseConstantCoalescentGrid(tt, gg)
            if gm == "no_grad":
                with torch.no_grad():
                    ss, cnt = d.sufficient_statistics(h)
            else:
                ss, cnt = d.sufficient_statistics(h)
            res[gm] = ([float(x) for x in ss.reshape(-1).tolist()], [float(x) for x in cnt.reshape(-1).tolist()])
        except Exception as e:
            R.violation(f"PiecewiseConstantCoalescentGrid.sufficient_statistics:grad-mode:{gm}:raises", f"{type(e).__name__}: {str(e)[:120]}", case, n)
            continue
        if any(not torch.equal(a, b.detach()) for a, b in zip(before, (h, tt, gg))):
            R.violation("PiecewiseConstantCoalescentGrid.sufficient_statistics:mutates-input", f"({gm}) modified a tensor it was given", case, n)
    if len({json_key(v) for v in res.values()}) > 1:
        R.violation("PiecewiseConstantCoalescentGrid.sufficient_statistics:grad-mode:differs", f"results differ between grad modes: {res}", case, n)


# ----------------------------------------------------------------------------- smooth fields far from zero
def _exact_S(xs, ws):
    d = [(F(a) - F(b)) ** 2 for a, b in zip(xs, xs[1:])]
    return sum(d) if ws is None else sum(q / F(w) for q, w in zip(d, ws))


def smooth_fields(R, rng, n, mode, given=None):
    """the density depends on the field only through its first differences: a smooth field far from zero (level >>
    increment: log population sizes near 10 moving by 1e-2 in float32, level/increment 1e7 … 1e10 in float64) must be as
    accurate as one scattered around zero. Reference: the weighted sum of squared differences in exact rational arithmetic
    on the very numbers held by the tensors (so the tolerance is the rounding of a SUM OF SQUARES in that dtype, a few
    n·eps — never eps·level²); for dyadic weights also the exact quadratic form of the published precision matrix.
    Plain, weighted, time-aware (rescaled or not); GMRF and GMRFGammaIntegrated; single and batched."""
    import torch
    from torchtree import Parameter
    from torchtree.distributions.gmrf import GMRF
    from torchtree.distributions.gmrf_integrated import GMRFGammaIntegrated

    ck = R.ck
    regimes = [("float32", 10.0, 2.0 ** -6, 2.0 ** 12), ("float32", 12.0, 2.0 ** -7, 2.0 ** 13), ("float64", 1e7, 1.0, 1.0),
               ("float64", 1e10, 1.0, 2.0 ** -3), ("float64", 3e7, 2.0 ** -10, 2.0 ** 16)]
    if given is not None:
        regimes = [tuple(given["regime"])]
    for dtn, level, incr, tau in regimes:
        dt = getattr(torch, dtn)
        if given is None:
            base = make_gmrf_case(rng, n, mode)
            steps = [rng.choice([-1, 1]) * rng.randint(1, 16) / 8.0 * incr for _ in range(n - 1)]
            xs = [level + rng.randint(-8, 8) / 8.0]
            for st in steps:
                xs.append(xs[-1] + st)
            case = {"what": "smooth-field", "mode": mode, "regime": [dtn, level, incr, tau], "field_values": [float(x).hex() for x in xs], "tau": F(tau)}
            for k in ("weights", "samp", "coal"):
                if k in base:
                    case[k] = base[k]
        else:
            case = given
            xs = [float.fromhex(h) for h in case["field_values"]]
        field = torch.tensor(xs, dtype=torch.float64).to(dt)
        held = [float(v) for v in field.tolist()]  # the numbers the tensor holds
        if mode == "W":
            wt = T(case["weights"]).to(dt)
            ws = [float(v) for v in wt.tolist()]
        elif mode == "P":
            wt, ws = None, None
        else:
            wt = None
            hs = sorted([F(0)] + list(case["coal"]))
            dur = [b - a for a, b in zip(hs, hs[1:])]
            ws = [(a + b) / 2 for a, b in zip(dur, dur[1:])]
            if mode == "T1":
                ws = [w / hs[-1] for w in ws]
        tree = None
        if mode in ("T0", "T1"):
            tree = SimpleNamespace(node_heights=T(list(case["samp"]) + list(case["coal"])).to(dt), taxa_count=len(case["samp"]))
        S = _exact_S(held, ws)
        d = n - 1
        want = d / 2 * math.log(tau) - tau * float(S) / 2 - d / 2 * LOG2PI
        scale = abs(d / 2 * math.log(tau)) + tau * float(S) / 2 + d
        tol = 1e-10 if dtn == "float64" else 2e-5
        ck.case(key=("smooth", mode, dtn, level, incr, n, tuple(case["field_values"])), bucket=f"smooth-field/{mode}/{dtn}/level={level:g}/incr={incr:g}")
        for batched in (False, True):
            try:
                f = field if not batched else torch.stack([field, field.flip(-1)])
                g = GMRF("g", Parameter("field", f.clone()), Parameter("precision", torch.tensor([tau], dtype=dt)), tree, wt, mode == "T1")
                out = g()
                vals = [float(v) for v in out.reshape(-1).tolist()]
                Q = g.precision_matrix()
                gi = GMRFGammaIntegrated("gi", Parameter("field", f.clone()), 1.375, 1.25, tree, wt, mode == "T1")
                vi = [float(v) for v in gi().reshape(-1).tolist()]
            except Exception as e:
                R.violation(f"GMRF.smooth-field:{mode}:raises", f"GMRF ({mode}, {dtn}{', batched' if batched else ''}) raises on a smooth field at level {level:g}: "
                            f"{type(e).__name__}: {str(e)[:120]}", case, n)
                break
            # the reversed field has the same differences when the weights are symmetric only: row 0 is the one checked
            if not close(vals[0], want, tol, scale):
                R.violation(f"GMRF.smooth-field:{mode}:{dtn}",
                            f"GMRF ({mode}, {dtn}{', batched' if batched else ''}, length {n}) on a field at level {level:g} moving by {incr:g}: log density {vals[0]!r}; "
                            f"exact weighted sum of squared differences gives {want!r}", case, n, {"impl": vals[0], "exact": want})
            a, b = 1.375, 1.25
            wi = -d / 2 * LOG2PI + a * math.log(b) - math.lgamma(a) + math.lgamma(a + d / 2) - (a + d / 2) * math.log(float(S) / 2 + b)
            si = abs(a * math.log(b)) + abs(math.lgamma(a + d / 2)) + abs((a + d / 2) * math.log(float(S) / 2 + b)) + d
            if not close(vi[0], wi, tol, si):
                R.violation(f"GMRFGammaIntegrated.smooth-field:{mode}:{dtn}",
                            f"GMRFGammaIntegrated ({mode}, {dtn}, length {n}) on a field at level {level:g} moving by {incr:g}: {vi[0]!r}; closed form on the exact sum of squares {wi!r}",
                            case, n, {"impl": vi[0], "exact": wi})
            if mode in ("P", "W") and not batched:
                # dyadic weights and precision: the published matrix is exact, its quadratic form is the same rational number
                Ql = Q.tolist()
                quad = sum(F(held[i]) * F(Ql[i][j]) * F(held[j]) for i in range(n) for j in range(n) if Ql[i][j] != 0.0)
                if quad != F(tau) * S:
                    R.ck.bucket("smooth-field/published-matrix-not-exact")
                    if not close(float(quad), tau * float(S), 1e-3, tau * float(S)):
                        R.violation(f"GMRF.smooth-field:{mode}:matrix", f"GMRF ({mode}, {dtn}): quadratic form of the published matrix {float(quad)!r}, tau x sum of squared "
                                    f"differences {tau * float(S)!r}", case, n)


# ----------------------------------------------------------------------------- real tree model objects of every kind
REAL_TREES = ("time", "flexible", "ratios", "shifts")


def build_real_tree(kind, newick, samp, params):
    """a REAL tree model of the kind; -> (tree, dict of its parameter handles)"""
    from torchtree.evolution.tree_model import ReparameterizedTimeTreeModel, TimeTreeModel
    from torchtree.evolution.tree_model_flexible import FlexibleTimeTreeModel

    taxa = {f"T{i}": float(s) for i, s in enumerate(samp)}
    dic = {}
    m = len(samp) - 1
    if kind in ("time", "flexible"):
        cls = TimeTreeModel if kind == "time" else FlexibleTimeTreeModel
        js = cls.json_factory("tree", newick, [0.0] * m, taxa, keep_branch_lengths=True, internal_heights_id="internal_heights")
        js["internal_heights"]["dtype"] = "torch.float64"
        tree = cls.from_json(js, dic)
        return tree, {"internal_heights": dic["internal_heights"]}
    if kind == "ratios":
        ratios = {"id": "ratios", "type": "Parameter", "dtype": "torch.float64", "tensor": list(params["ratios"])}
        root = {"id": "root_height", "type": "Parameter", "dtype": "torch.float64", "tensor": [float(max(samp)) + params["root_extra"]]}
        js = ReparameterizedTimeTreeModel.json_factory("tree", newick, taxa, ratios=ratios, root_height=root)
        tree = ReparameterizedTimeTreeModel.from_json(js, dic)
        return tree, {k: dic[k] for k in ("ratios", "root_height") if k in dic}
    shifts = {"id": "shifts", "type": "Parameter", "dtype": "torch.float64", "tensor": list(params["shifts"])}
    js = ReparameterizedTimeTreeModel.json_factory("tree", newick, taxa, shifts=shifts)
    tree = ReparameterizedTimeTreeModel.from_json(js, dic)
    return tree, {"shifts": dic["shifts"]}


def real_trees(R, rng, n, tree_kind, given=None):
    """the time-aware priors on REAL tree model objects of every kind (TimeTreeModel on heights, FlexibleTimeTreeModel,
    ReparameterizedTimeTreeModel on ratios/root height and on shifts), before and after an update of the tree's own
    parameter: GMRF and GMRFGammaIntegrated (rescaled or not) against the closed forms on the heights the tree reports
    (`node_heights`), and against the same prior on a plain TimeTreeModel that is handed those heights directly"""
    import torch
    from torchtree import Parameter
    from torchtree.distributions.gmrf import GMRF
    from torchtree.distributions.gmrf_integrated import GMRFGammaIntegrated
    from torchtree.evolution.tree_model import TimeTreeModel

    ck = R.ck
    if given is None:
        base = make_gmrf_case(rng, n, "T0")
        m = len(base["samp"]) - 1
        case = {"what": "real-tree", "mode": "T0", "tree": tree_kind, "field": base["field"], "tau": base["tau"], "samp": base["samp"], "coal": base["coal"],
                "newick": base["newick"],
                "params": {"ratios": [rng.uniform(0.1, 0.9) for _ in range(max(m - 1, 0))], "root_extra": rng.uniform(0.5, 3.0),
                           "shifts": [rng.uniform(0.1, 2.0) for _ in range(m)],
                           "ratios2": [rng.uniform(0.1, 0.9) for _ in range(max(m - 1, 0))], "shifts2": [rng.uniform(0.1, 2.0) for _ in range(m)],
                           "scale2": rng.uniform(1.0, 2.0)}}
    else:
        case = given
        tree_kind = case["tree"]
    n = len(case["field"])
    samp = case["samp"]
    taxa = {f"T{i}": float(s) for i, s in enumerate(samp)}
    a, b = 1.375, 1.25
    tree, handles = build_real_tree(tree_kind, case["newick"], samp, case["params"])
    field = Parameter("field", T(case["field"]))
    prec = Parameter("precision", T([case["tau"]]))
    objs = {}
    for rescale in (False, True):
        objs[("GMRF", rescale)] = GMRF("g", field, prec, tree, None, rescale)
        objs[("GMRFGammaIntegrated", rescale)] = GMRFGammaIntegrated("gi", field, a, b, tree, None, rescale)
    for step in ("initial", "updated"):
        if step == "updated":
            pr = case["params"]
            if "ratios" in handles:
                handles["ratios"].tensor = T(pr["ratios2"])
            elif "shifts" in handles:
                handles["shifts"].tensor = T(pr["shifts2"])
            elif "internal_heights" in handles:
                h = handles["internal_heights"]
                h.tensor = h.tensor.detach() * pr["scale2"] + 0.25
            else:
                handles["root_height"].tensor = handles["root_height"].tensor.detach() * pr["scale2"]
        nh = [float(v) for v in tree.node_heights.detach().reshape(-1).tolist()]
        internal = nh[len(samp):]
        plain_js = TimeTreeModel.json_factory("plain", case["newick"], internal, taxa)
        plain_js["internal_heights"]["dtype"] = "torch.float64"
        plain = TimeTreeModel.from_json(plain_js, {})
        same_heights = [float(v) for v in plain.node_heights.reshape(-1).tolist()] == nh
        for (cls, rescale), obj in objs.items():
            mode = "T1" if rescale else "T0"
            ref_case = {"mode": mode, "field": case["field"], "tau": case["tau"], "coal": internal, "shape": a, "rate": b}
            want = gmrf_ref(ref_case) if cls == "GMRF" else gint_ref(ref_case)
            ck.case(key=("real-tree", tree_kind, cls, mode, step, n, tuple(case["field"]), tuple(internal)), bucket=f"real-tree/{tree_kind}/{cls}/{mode}/{step}")
            try:
                v = _scalar(obj())
                if cls == "GMRF":
                    direct = GMRF("d", field, prec, plain, None, rescale)
                else:
                    direct = GMRFGammaIntegrated("d", field, a, b, plain, None, rescale)
                vd = _scalar(direct())
            except Exception as e:
                R.violation(f"{cls}.real-tree:{tree_kind}:raises", f"{cls} ({mode}) on a {tree_kind} tree model raises ({step}): {type(e).__name__}: {str(e)[:120]}", case, n)
                continue
            if v is None or not close(v, want, 1e-10, abs(want)):
                R.violation(f"{cls}.real-tree:{tree_kind}:value",
                            f"{cls} ({mode}) on a real {tree_kind} tree model ({step}, field length {n}) = {v!r}; the closed form on the heights the tree reports gives {want!r}",
                            case, n, {"impl": v, "closed_form": want, "step": step})
            elif same_heights and (vd is None or not close(v, vd, 1e-12, abs(v))):
                R.violation(f"{cls}.real-tree:{tree_kind}:direct",
                            f"{cls} ({mode}) on a real {tree_kind} tree model = {v!r}; the same prior on a TimeTreeModel handed the same heights directly = {vd!r}",
                            case, n, {"impl": v, "direct": vd, "step": step})


# ----------------------------------------------------------------------------- GMRF with covariates: every spelling of the table
def covariate_ref(case):
    """(value, scale, residual): documented density (N-1)/2 log tau - tau/2 (x - Z beta)' K (x - Z beta) - (N-1)/2 log 2 pi, K the
    first-difference structure matrix, i.e. the sum of squared first differences of the residual x - Z beta — exact rationals"""
    x, Z, b = case["field"], case["Z"], case["beta"]
    r = [xi - sum(F(zij) * bj for zij, bj in zip(row, b)) for xi, row in zip(x, Z)]
    S = sum((a - c) ** 2 for a, c in zip(r, r[1:]))
    d = len(x) - 1
    tau = float(case["tau"])
    return d / 2 * math.log(tau) - tau * float(S) / 2 - d / 2 * LOG2PI, abs(d / 2 * math.log(tau)) + tau * float(S) / 2 + d, r


def covariate_routes(R, rng, N, P, given=None):
    """GMRFCovariate: one table Z [N, P] (N time points, P covariates; non-symmetric, beta != 0), every SPELLING of it and
    of beta — keyword/positional constructor, `from_json` with the table inline (floats; integer literals when integral),
    as a Parameter (dtype float64, short and full type name), as a reference to a Parameter defined beforehand; square
    P == N, P = 1, N = 2, P > N — all must give the documented quadratic form around Z beta. Spellings the unchanged code
    rejects (a flat list, a Parameter whose dtype differs from the field's) are recorded; if accepted they are held to the
    documented meaning ([N] = one covariate)."""
    import torch
    from torchtree import Parameter
    from torchtree.core.utils import process_object
    from torchtree.distributions.gmrf import GMRFCovariate

    ck = R.ck
    if given is None:
        integral = rng.random() < 0.5
        for _try in range(100):
            Z = [[F(rng.randint(-6, 6)) if integral else G.dy(rng, -4, 4, 2) for _ in range(P)] for _ in range(N)]
            if P == 1 or N == 1 or any(Z[i][j] != Z[j][i] for i in range(min(N, P)) for j in range(min(N, P))):
                break
        beta = [G.dy(rng, -2, 2, 2) or F(1, 2) for _ in range(P)]
        case = {"what": "gmrf-covariate", "field": [G.dy(rng, -4, 4, 3) for _ in range(N)], "tau": G.pow2(rng, -3, 3), "beta": beta, "Z": [list(r) for r in Z]}
    else:
        case = given
        Z, beta = case["Z"], case["beta"]
        N, P = len(Z), len(Z[0])
        integral = all(v.denominator == 1 for r in Z for v in r)
    want, scale, resid = covariate_ref(case)
    Zf = [[float(v) for v in r] for r in Z]

    def par(id_, values, type_="Parameter", dtype="torch.float64"):
        d = {"id": id_, "type": type_, "tensor": values}
        if dtype:
            d["dtype"] = dtype
        return d

    def doc(cov, beta_spelling=None, type_="GMRFCovariate"):
        return {"id": "g", "type": type_, "field": par("x", [float(v) for v in case["field"]]), "precision": par("tau", [float(case["tau"])]),
                "covariates": cov, "beta": beta_spelling or par("beta", [float(v) for v in beta])}

    def tensors():
        return (Parameter("x", T(case["field"])), Parameter("tau", T([case["tau"]])), Parameter("Z", torch.tensor(Zf, dtype=torch.float64)),
                Parameter("beta", T(beta)))

    routes = {
        "constructor/positional": lambda: GMRFCovariate("g", *tensors()),
        "constructor/keyword": lambda: (lambda x, t, z, b: GMRFCovariate(id_="g", field=x, precision=t, covariates=z, beta=b))(*tensors()),
        "json/inline-list-of-floats": lambda: process_object(doc(copy.deepcopy(Zf)), {}),
        "json/inline-list/from_json": lambda: GMRFCovariate.from_json(doc(copy.deepcopy(Zf)), {}),
        "json/inline-list/full-type": lambda: process_object(doc(copy.deepcopy(Zf), type_="torchtree.distributions.gmrf.GMRFCovariate"), {}),
        "json/parameter/dtype=float64": lambda: process_object(doc(par("Z", copy.deepcopy(Zf))), {}),
        "json/parameter/full-type": lambda: process_object(doc(par("Z", copy.deepcopy(Zf), type_="torchtree.Parameter")), {}),
    }
    if integral:
        routes["json/inline-list-of-integer-literals"] = lambda: process_object(doc([[int(v) for v in r] for r in Z]), {})
        routes["json/parameter/integer-literals/dtype=float64"] = lambda: process_object(doc(par("Z", [[int(v) for v in r] for r in Z])), {})

    def referenced():
        dic = {}
        process_object(par("Z", copy.deepcopy(Zf)), dic)
        process_object(par("beta", [float(v) for v in beta]), dic)
        return process_object(doc("Z", "beta"), dic)

    routes["json/references"] = referenced
    optional = {"json/parameter/no-dtype": lambda: process_object(doc(par("Z", copy.deepcopy(Zf), dtype=None)), {})}
    if P == 1:
        optional["json/flat-list"] = lambda: process_object(doc([r[0] for r in Zf]), {})
    shape = "square" if P == N else "P=1" if P == 1 else "P>N" if P > N else "P<N"
    for name, f in list(routes.items()) + list(optional.items()):
        ck.case(key=("gmrf-cov", name, N, P, tuple(case["field"]), tuple(tuple(r) for r in Z)), bucket=f"covariate-route/{shape}/{name}")
        try:
            v = _scalar(f()())
        except Exception as e:
            if name in optional:
                ck.bucket(f"covariate-route/rejected/{name}:{type(e).__name__}")
                continue
            R.violation("GMRFCovariate:route:raises", f"GMRFCovariate (N={N}, P={P}) through {name} raises {type(e).__name__}: {str(e)[:120]}", case, N * P, {"route": name})
            continue
        if v is None or not close(v, want, 1e-10, scale):
            R.violation("GMRFCovariate:route:value",
                        f"GMRFCovariate (N={N} time points, P={P} covariates) through {name} evaluates to {v!r}; documented quadratic form around Z beta {want!r}",
                        case, N * P, {"route": name, "impl": v, "reference": want})
    # the Lean model: the quadratic form of the plain structure at the residual x - Z beta (exact)
    if R.drv is not None and given is None:
        from c20 import Qx, fr

        rep = R.drv.ask(f"quad Q P {fr(case['tau'])} | {Qx(resid)}")
        if rep == "bad-op":
            ck.mismatch("model answered bad-op (covariate residual)", {"case": enc(case)})
        else:
            s_model, q_model = [F(v) for v in rep.split()]
            S = sum((a - c) ** 2 for a, c in zip(resid, resid[1:]))
            if s_model != q_model or q_model != F(case["tau"]) * S:
                ck.mismatch("model: quadratic form at the residual x - Z beta differs from tau x sum of squared differences", {"case": enc(case)})


def json_key(v):
    return repr(v)


# ----------------------------------------------------------------------------- 6. batches
def gmrf_batches(R, rng, mode):
    """B equal to the field length; ONE row special (constant field: every difference 0; precision exactly 1)"""
    import torch
    from torchtree import Parameter
    from torchtree.distributions.gmrf import GMRF

    ck = R.ck
    n = rng.randint(2, 5)
    for B, special in ((n, None), (3, "constant-field"), (3, "precision=1")):
        if B < 2:
            B = 2
        cases = [make_gmrf_case(rng, n, mode) for _ in range(B)]
        s0 = rng.randrange(B)
        if special == "constant-field":
            cases[s0]["field"] = [cases[s0]["field"][0]] * n
        elif special == "precision=1":
            cases[s0]["tau"] = F(1)
        ck.case(key=("c20batch", mode, n, B, special, tuple(cases[0]["field"])), bucket=f"batched/GMRF/{mode}/{'B=field-length' if special is None else 'special-row/' + special}")
        try:
            tree = w = None
            if mode == "W":
                w = T2([c["weights"] for c in cases])
            if mode in ("T0", "T1"):
                tree = SimpleNamespace(node_heights=T2([c["samp"] + c["coal"] for c in cases]), taxa_count=n + 1)
            gm = GMRF("g", Parameter("f", T2([c["field"] for c in cases])), Parameter("p", T2([[c["tau"]] for c in cases])), tree, w, mode == "T1")
            vals = [float(v) for v in gm().reshape(-1).tolist()]
            Qs = gm.precision_matrix().tolist()
        except Exception as e:
            R.violation(f"GMRF:batch:{mode}:raises", f"batch of {B} ({special}) raises {type(e).__name__}: {str(e)[:120]}", cases[0], n)
            continue
        if len(vals) != B or len(Qs) != B:
            R.violation(f"GMRF:batch:{mode}:shape", f"batch of {B} returns {len(vals)} values / {len(Qs)} matrices", cases[0], n)
            continue
        for s, c in enumerate(cases):
            want = gmrf_ref(c)
            x = [float(v) for v in c["field"]]
            q = sum(x[i] * float(Qs[s][i][j]) * x[j] for i in range(n) for j in range(n))
            if not close(vals[s], want, 1e-10, abs(want)) or not close(q, float(c["tau"]) * sumsq_ref(c), 1e-10, abs(q)):
                R.violation(f"GMRF:batch:{mode}:row", f"batch of {B} ({special or 'B = field length'}, special row {s0}): row {s} gives {vals[s]!r} / x'Qx {q!r}; "
                            f"documented {want!r} / {float(c['tau']) * sumsq_ref(c)!r}", c, n, {"row": s, "special_row": s0})


# ----------------------------------------------------------------------------- 7-8. special values, failure paths
def gmrf_special_and_failures(R, rng):
    import torch
    from torchtree import Parameter
    from torchtree.distributions.gmrf import GMRF
    from torchtree.distributions.gmrf_integrated import GMRFGammaIntegrated

    ck = R.ck
    for name, case in (
        ("precision=1,field=0", {"what": "gmrf", "mode": "P", "field": [F(0)] * 4, "tau": F(1)}),
        ("length-2", {"what": "gmrf", "mode": "P", "field": [F(3, 10), F(-7, 10)], "tau": F(13, 10)}),
        ("non-dyadic-weights", {"what": "gmrf", "mode": "W", "field": [F(1, 10), F(7, 10), F(-3, 10)], "tau": F(7, 10), "weights": [F(3, 10), F(11, 10)]}),
    ):
        ck.case(key=("c20special", name), bucket="special-values/GMRF/" + name)
        try:
            w = T(case["weights"]) if case["mode"] == "W" else None
            v = _scalar(GMRF("g", Parameter("f", T(case["field"])), Parameter("p", T([case["tau"]])), None, w)())
            c2 = dict(case, shape=F(3, 2), rate=F(5, 4), what="gint")
            vi = _scalar(GMRFGammaIntegrated("g", Parameter("f", T(case["field"])), 1.5, 1.25, None, w)())
        except Exception as e:
            R.violation(f"GMRF:special:{name}:raises", f"{type(e).__name__}: {str(e)[:120]}", case, len(case["field"]))
            continue
        if v is None or not close(v, gmrf_ref(case), 1e-12, abs(gmrf_ref(case))):
            R.violation(f"GMRF:special:{name}:value", f"{v!r}; documented {gmrf_ref(case)!r}", case, len(case["field"]))
        if vi is None or not close(vi, gint_ref(c2), 1e-12, abs(gint_ref(c2))):
            R.violation(f"GMRFGammaIntegrated:special:{name}:value", f"{vi!r}; documented {gint_ref(c2)!r}", c2, len(case["field"]))
    # failure paths: weights of the wrong length must not be accepted silently as a different model
    case = {"what": "gmrf", "mode": "W", "field": [F(1), F(3), F(0), F(2)], "tau": F(2), "weights": [F(2), F(4)]}
    ck.case(key=("c20failure", "weights-too-short"), bucket="failure-paths/GMRF/weights-wrong-length")
    try:
        v = _scalar(GMRF("g", Parameter("f", T(case["field"])), Parameter("p", T([2])), None, T(case["weights"]))())
        if v is not None and math.isfinite(v):
            R.violation("failure-path:GMRF/weights-wrong-length", f"3 differences with 2 weights evaluate to {v!r} instead of raising", case, 4)
    except Exception as e:
        ck.bucket(f"failure-paths/GMRF/weights-wrong-length/raises:{type(e).__name__}")
    try:
        v = _scalar(GMRF("g", Parameter("f", T(case["field"])), Parameter("p", T([2])), None, T([F(2)]))())
        ck.bucket("failure-paths/GMRF/one-weight-broadcast/" + ("accepted-silently" if v is not None else "rejected"))
    except Exception as e:
        ck.bucket(f"failure-paths/GMRF/one-weight-broadcast/raises:{type(e).__name__}")


def scan_constructors():
    out = []
    pat = re.compile(r"torch\.(tensor|zeros|ones|full|arange|linspace|empty|eye)\(")
    for rel in ("torchtree/distributions/gmrf.py", "torchtree/distributions/gmrf_integrated.py",
                "torchtree/inference/mcmc/gmrf_block_updating.py"):
        src = (REPO / rel).read_text().splitlines()
        for i, line in enumerate(src, 1):
            if pat.search(line):
                window = " ".join(src[i - 1: i + 5])
                call = window[window.index("torch."):]
                depth, end = 0, len(call)
                for j, ch in enumerate(call):
                    if ch == "(":
                        depth += 1
                    elif ch == ")":
                        depth -= 1
                        if depth == 0:
                            end = j
                            break
                if "dtype" not in call[:end]:
                    out.append(f"{rel.split('/')[-1]}:{i}: {line.strip()[:90]}")
    return out


def run(R, rng, ck):
    for n in ([2, 3, 5] if not ck.thorough() else [2, 3, 4, 5, 8, 12]):
        for integrated in (False, True):
            R.guard("gmrf_routes", gmrf_routes, R, rng, n, integrated)
        R.guard("cint_routes", cint_routes, R, rng, max(n, 2))
        for mode in ("P", "W", "T0", "T1"):
            R.guard("gmrf_regimes", gmrf_regimes, R, rng, n, mode)
        R.guard("suffstats_regimes", suffstats_regimes, R, rng, max(n, 2))
    for n in ([2, 5, 12, 50] if not ck.thorough() else [2, 3, 5, 8, 12, 30, 50, 200, 400]):
        for mode in ("P", "W", "T0", "T1"):
            R.guard("smooth_fields", smooth_fields, R, rng, n, mode)
    for n in ([2, 3, 5, 9] if not ck.thorough() else [2, 3, 4, 5, 7, 9, 14, 25]):
        for tk in REAL_TREES:
            R.guard("real_trees", real_trees, R, rng, n, tk)
    shapes = [(2, 2), (3, 3), (5, 5), (2, 1), (4, 1), (2, 3), (5, 2)] if not ck.thorough() else [(2, 2), (3, 3), (4, 4), (5, 5), (8, 8), (2, 1), (3, 1), (7, 1),
                                                                                                   (2, 3), (3, 5), (5, 2), (9, 3), (12, 12)]
    for N, P in shapes:
        for _ in range(2):
            R.guard("covariate_routes", covariate_routes, R, rng, N, P)
    for mode in ("P", "W", "T0", "T1"):
        R.guard("gmrf_batches", gmrf_batches, R, rng, mode)
    R.guard("gmrf_special_and_failures", gmrf_special_and_failures, R, rng)
    ck.extra["tensor_constructors_without_dtype"] = scan_constructors()
