"""C11 — cached values never go stale; a parameter update never raises.

Lean side : TTGen/C11_Wiring.lean regenerated (tr_wiring.py) from the handlers / getters /
            constructors of every Model/Parametric/AbstractParameter subclass; theorems in
            TTProofs/Props/C11.lean (wellwired_no_stale: all machines, all histories;
            torchtree_wellwired: decide on the generated table; torchtree_no_stale: combined).
Tie       : translator + exact correspondence.  A graph containing every parameter kind and a
            representative of every model family is built from JSON by torchtree's own loader; the
            harness extracts the machine (nodes, REAL listener lists, cells) from the real objects,
            applies operation histories to the real objects and sends the same histories to the Lean
            machine (drv_c11); after every operation it compares: did it raise, every dirty flag
            (exact), every leaf, and the set of quantities whose getter returns something different
            from a FRESH REBUILD from JSON holding the same leaf values (the property's own oracle).
            Which inputs a class reads (TTModel/C11_Reads.lean) is validated by perturbing every leaf.
Search    : the same histories on the implementation with the oracle alone (stale set empty, no
            raise), shrunk to the shortest failing history.
"""
from __future__ import annotations

import copy
import json
import sys
import traceback
from pathlib import Path

from common import REPO, VERIF, Check, use_repo

sys.path.insert(0, str(VERIF / "harness" / "translators"))
import tr_wiring  # noqa: E402

import c11_graph as G  # noqa: E402

RTOL, ATOL = 1e-9, 1e-12


# ------------------------------------------------------------------------------------------------
# extraction of the machine from real objects
# ------------------------------------------------------------------------------------------------
class ExtractionError(Exception):
    pass


def _torch():
    import torch

    return torch


def _kinds():
    from torchtree.core.abstractparameter import AbstractParameter
    from torchtree.core.model import Model
    from torchtree.core.parametric import Parametric

    return AbstractParameter, Model, Parametric


def held(obj):
    """objects `obj` holds: (child, origin) with origin 'a' (attribute of a Parametric), 'e' (explicit
    add_*_listener in the constructor) or None (held without any registration)"""
    AbstractParameter, Model, Parametric = _kinds()
    from torchtree.core.parameter import CatParameter, TransformedParameter, ViewParameter

    out = []
    if isinstance(obj, ViewParameter):
        out.append((obj.parameter, "e"))
    if isinstance(obj, CatParameter):
        out.append((obj._parameter_container, None))
        for p in obj._parameter_container.params():
            out.append((p, "e"))
    if isinstance(obj, Parametric):
        for p in obj._parameters.values():
            out.append((p, "a"))
        for m in obj._models.values():
            out.append((m, "a"))
        # a parameter / model sitting in the plain instance dictionary of a Parametric object is an attribute
        # assignment that was NOT registered: reported as an attribute input (the conformance check of the
        # machine then fails: the registration rule says the owner must listen to it)
        for v in vars(obj).values():
            if isinstance(v, (AbstractParameter, Model)) and not any(v is c for c, _ in out):
                out.append((v, "a"))
    if isinstance(obj, TransformedParameter):
        for v in vars(obj.transform).values():
            if isinstance(v, (AbstractParameter, Model)):
                out.append((v, "e"))
    return out


def listeners_of(obj):
    if hasattr(obj, "listeners"):
        return list(obj.listeners)
    if hasattr(obj, "_listeners"):
        return list(obj._listeners)
    return []


class Cell:
    __slots__ = ("owner", "tmpl", "reads", "get", "name", "orders")

    def __init__(self, owner, tmpl, reads, get, name, orders=None):
        self.owner, self.tmpl, self.reads, self.get, self.name = owner, tmpl, reads, get, name
        # a quantity served by SEVERAL public getters sharing one flag: every read order of them, each a callable
        # returning the values in the canonical order of `get`
        self.orders = orders or {}


class Graph:
    """real objects + the machine extracted from them"""

    def __init__(self, values, flags_of_class, small=False, grads=None, dic=None, route=0):
        self.values0 = {k: list(v) for k, v in values.items()}
        self.small = small
        self.registration_failures = []
        if dic is None:
            self.dic = G.build(values, small=small, grads=grads, route=route)
            # registration bookkeeping of every post-construction attribute assignment of the build
            for owner, attr, new, old in G.ASSIGNMENTS:
                if not any(l is owner for l in listeners_of(new)):
                    self.registration_failures.append(
                        f"{type(owner).__name__}.{attr} = {type(new).__name__}[{new.id}]: the owner is not in the new "
                        "parameter's listener list")
        else:
            self.dic = dic  # objects obtained otherwise (copy.deepcopy of a built graph)
        self.flags_of_class = flags_of_class
        AbstractParameter, Model, Parametric = _kinds()
        self.nodes = []
        self.idx = {}
        self.inputs = []
        self.back_edges = []  # (holder, held) where `held` is an ancestor still under construction: a listener cycle
        inprog = set()

        def visit(o):
            if id(o) in self.idx or id(o) in inprog or not isinstance(o, (AbstractParameter, Parametric)):
                return
            inprog.add(id(o))
            hs = held(o)
            for c, _ in hs:
                visit(c)
            self.idx[id(o)] = len(self.nodes)
            self.nodes.append(o)
            self.inputs.append([(self.idx[id(c)], org) for c, org in hs if org is not None and id(c) in self.idx])
            self.back_edges += [(o, c) for c, org in hs if org is not None and id(c) not in self.idx]

        for o in self.dic.values():
            visit(o)
        # listeners that stay registered on an input their owner no longer holds (a replaced parameter keeps
        # its old listener: Parametric.__setattr__ never unregisters) are kept as inputs that are read by nothing
        self.leftover = []
        for u, o in enumerate(self.nodes):
            for l in listeners_of(o):
                j = self.idx.get(id(l))
                if j is not None and j > u and u not in [a for a, _ in self.inputs[j]]:
                    self.inputs[j].append((u, "a"))
                    self.leftover.append((j, u))
        self.name = {}
        for k, o in self.dic.items():
            if id(o) in self.idx:
                self.name[self.idx[id(o)]] = k
        self.cls = [type(o).__name__ for o in self.nodes]
        self._make_cells()

    # ---- cells -----------------------------------------------------------------------------
    def cell_of(self, obj, tmpl):
        return self.cell_index[(self.idx[id(obj)], tmpl)]

    def _make_cells(self):
        from torchtree.core.container import Container
        from torchtree.core.parameter import CatParameter, Parameter, TransformedParameter, ViewParameter
        from torchtree.distributions.distributions import Distribution
        from torchtree.distributions.joint_distribution import JointDistributionModel

        AbstractParameter, Model, Parametric = _kinds()
        # who holds which container, and for what
        role = {}
        for o in self.nodes:
            if isinstance(o, JointDistributionModel):
                role[id(o._distributions)] = "joint"
            elif isinstance(o, Distribution):
                role[id(o.distribution_parameters)] = "dist"
            elif isinstance(o, CatParameter):
                role[id(o._parameter_container)] = "cat"
        self.cells = []
        self.cell_index = {}

        def lp_tmpl(o):  # template index of the `__call__` quantity
            n = type(o).__name__
            if n == "ReparameterizedTimeTreeModel":
                return 2
            if n == "TransformedParameter":
                return 1
            return 0

        def bl_tmpl(o):
            return {"UnRootedTreeModel": 0, "TimeTreeModel": 1, "FlexibleTimeTreeModel": 1,
                    "ReparameterizedTimeTreeModel": 1}[type(o).__name__]

        def add(j, tmpl, reads, get, name, orders=None):
            self.cell_index[(j, tmpl)] = len(self.cells)
            self.cells.append(Cell(j, tmpl, [(self.cell_index[(self.idx[id(ob)], t)], clr) for ob, t, clr in reads],
                                   get, name, orders))

        for j, o in enumerate(self.nodes):
            n = self.cls[j]
            if n == "Parameter":
                add(j, 0, [], lambda x: (x.tensor,), "tensor")
            elif n == "ViewParameter":
                add(j, 0, [(o.parameter, 0, 1)], lambda x: (x.tensor,), "tensor")
            elif n == "CatParameter":
                add(j, 0, [(p, 0, 1) for p in o._parameter_container.params()], lambda x: (x.tensor,), "tensor")
            elif n == "TransformedParameter":
                rd = [(o.x, 0, 1)]
                for v in vars(o.transform).values():
                    if isinstance(v, AbstractParameter):
                        rd.append((v, 0, 1))
                    elif isinstance(v, Model) and self.idx[id(v)] < j:
                        # (a node-height transform of the tree that HOLDS this parameter reads only the
                        # tree's topology and tip dates: the tree comes later in the graph, nothing is read)
                        rd.append((v, bl_tmpl(v), 1))
                add(j, 0, rd, lambda x: (x.tensor,), "tensor")
                has_ld = True  # (probed on the raw cached tensor: extraction must not call getters)
                try:
                    o.transform.log_abs_det_jacobian(o._tensor, o._tensor)
                except NotImplementedError:
                    has_ld = False
                except Exception:  # noqa: BLE001 — shapes of the probe: the method exists
                    pass
                if has_ld:  # transforms without a log-det-Jacobian have no such quantity
                    add(j, 1, [(o, 0, 1), (o.x, 0, 1)], lambda x: (x(),), "__call__")
            elif n == "Container":
                r = role.get(id(o), "dist")
                if r == "joint":
                    rd = [(mm, lp_tmpl(mm), 1) for mm in o._models.values()]
                    rd += [(p, 1, 1) for p in o._parameters.values() if callable(p)]
                else:
                    rd = [(p, 0, 1) for p in o._parameters.values()]
                add(j, 0, rd, lambda x: (), "contents")
            elif n == "UnRootedTreeModel":
                add(j, 0, [(o._branch_lengths, 0, 1)], lambda x: (x.branch_lengths(),), "branch_lengths")
            elif n in ("TimeTreeModel", "FlexibleTimeTreeModel"):
                add(j, 0, [(o._internal_heights, 0, 1)], lambda x: (x.node_heights,), "node_heights")
                add(j, 1, [(o, 0, 1)], lambda x: (x.branch_lengths(),), "branch_lengths")
            elif n == "ReparameterizedTimeTreeModel":
                add(j, 0, [(o._internal_heights, 0, 1)], lambda x: (x.node_heights,), "node_heights")
                add(j, 1, [(o, 0, 1)], lambda x: (x.branch_lengths(),), "branch_lengths")
                add(j, 2, [(o, 0, 0), (o._internal_heights, 0, 1)], lambda x: (x(),), "__call__")
            elif n in ("ConstantSiteModel", "InvariantSiteModel", "WeibullSiteModel"):
                def _pr(x):
                    pr = x.probabilities()
                    return (x.rates(), pr)

                def _ppr(x):
                    x.probabilities()
                    pr = x.probabilities()
                    return (x.rates(), pr)

                def _p_only_then_r(x):  # (probabilities alone answers first; rates is read last)
                    pr = x.probabilities()
                    pr = pr.clone()
                    return (x.rates(), pr)

                add(j, 0, [(p, 0, 1) for p, _ in held(o)],
                    lambda x: (x.rates(), x.probabilities()), "rates",
                    orders={"probabilities": lambda x: (x.probabilities(),), "probabilities->rates": _pr,
                            "probabilities,probabilities->rates": _ppr, "rates,rates": lambda x: (x.rates(), x.rates())[1:] + (x.probabilities(),)})
            elif n == "JC69":
                add(j, 0, [], lambda x: (x.q(), x.frequencies), "q")
            elif n in ("ExponentialCoalescentModel",):
                add(j, 0, [(o.tree_model, 0, 1)] + [(p, 0, 1) for p in o._parameters.values()],
                    lambda x: (x(),), "__call__")
            elif n in ("MultivariateNormal", "BayesianBridge"):
                add(j, 0, [(p, 0, 1) for p in o._parameters.values()], lambda x: (x(),), "__call__")
            elif n == "CTMCScale":
                add(j, 0, [(o.tree_model, bl_tmpl(o.tree_model), 1), (o.x, 0, 1)], lambda x: (x(),), "__call__")
            elif n in ("HKY", "GTR", "MG94"):
                add(j, 0, [(p, 0, 1) for p, _ in held(o) if self.idx[id(p)] < j and (j, self.idx[id(p)]) not in self.leftover],
                    lambda x: (x.q(), x.frequencies), "q")
            elif n in ("StrictClockModel", "SimpleClockModel"):
                add(j, 0, [(o._rates, 0, 1)], lambda x: (x.rates,), "rates")
            elif n == "SitePattern":
                pass
            elif n == "CompoundGammaDirichletPrior":
                add(j, 0, [(o.tree_model, bl_tmpl(o.tree_model), 1)] + [(p, 0, 1) for p in o._parameters.values()],
                    lambda x: (x(),), "__call__")
            elif n == "ConstantCoalescentModel":
                add(j, 0, [(o.tree_model, 0, 1)] + [(p, 0, 1) for p in o._parameters.values()],
                    lambda x: (x(),), "__call__")
            elif n == "TreeLikelihoodModel":
                rd = [(o.tree_model, bl_tmpl(o.tree_model), 1), (o.site_model, 0, 1), (o.subst_model, 0, 1)]
                if o.clock_model is not None:
                    rd.append((o.clock_model, 0, 1))
                add(j, 0, rd, lambda x: (x(),), "__call__")
            elif n == "Distribution":
                add(j, 0, [(o.x, 0, 1), (o.distribution_parameters, 0, 1)], lambda x: (x(),), "__call__")
            elif n == "JointDistributionModel":
                add(j, 0, [(o._distributions, 0, 1)], lambda x: (x(),), "__call__")
            else:
                raise ExtractionError(f"class {n} has no reads template")
        self.leaf_cells = [c for c, ce in enumerate(self.cells) if self.cls[ce.owner] == "Parameter"]
        self._leafset = set(self.leaf_cells)
        self.leaf_id = {}
        for c in self.leaf_cells:
            self.leaf_id[c] = self.name.get(self.cells[c].owner)

    def leaves_under(self, c):
        out = set()
        stack = [c]
        while stack:
            x = stack.pop()
            if x in self._leafset:
                out.add(x)
            stack.extend(d for d, _ in self.cells[x].reads)
        return out

    # ---- text for the driver -----------------------------------------------------------------
    def setter(self, j):
        o, n = self.nodes[j], self.cls[j]
        if n == "Parameter":
            return f"l{self.cell_index[(j, 0)]}"
        if n == "ViewParameter":
            p = self.idx[id(o.parameter)]
            if self.cls[p] != "Parameter":
                return "n"
            return f"v{p}:{self.cell_index[(p, 0)]}"
        if n == "CatParameter":
            ch = [self.idx[id(p)] for p in o._parameter_container.params()]
            return "c0:" + "+".join(map(str, ch))
        if n == "TransformedParameter":
            try:
                o.transform.inv(o._tensor)  # raw cached tensor: no getter is called
            except NotImplementedError:
                return "n"
            except Exception:  # noqa: BLE001
                pass
            return f"t{self.idx[id(o.x)]}"
        return "n"

    def real_listeners(self, j):
        out = []
        for l in listeners_of(self.nodes[j]):
            if id(l) not in self.idx:
                raise ExtractionError(f"listener {type(l).__name__} of {self.describe(j)} is not a node of the graph")
            if self.idx[id(l)] < j:
                # the echo edge of a listener cycle (tree -> the TransformedParameter over a transform of that tree);
                # TransformedParameter's re-entrancy guard swallows it: not part of the DAG machine
                continue
            out.append(self.idx[id(l)])
        return out

    def machine_text(self):
        nodes = []
        for j in range(len(self.nodes)):
            ls = "+".join(map(str, self.real_listeners(j))) or "-"
            ins = "+".join(f"{u}:{org}" for u, org in self.inputs[j]) or "-"
            nodes.append(f"{self.cls[j]},{self.setter(j)},{ls},{ins}")
        cells = []
        for ce in self.cells:
            rs = "+".join(f"{d}:{clr}" for d, clr in ce.reads) or "-"
            cells.append(f"{ce.owner},{ce.tmpl},{rs}")
        return " ".join(nodes), " ".join(cells)

    def describe(self, j):
        return f"{self.cls[j]}[{self.name.get(j, '#%d' % j)}]"

    def describe_cell(self, c):
        ce = self.cells[c]
        return f"{self.describe(ce.owner)}.{ce.name}"

    # ---- observations on the real objects ------------------------------------------------------
    def flags(self):
        out = []
        for j, o in enumerate(self.nodes):
            for f, fname in enumerate(self.flags_of_class.get(self.cls[j], [])):
                if bool(getattr(o, fname, False)):
                    out.append((j, f))
        return out

    def leaf_values(self):
        return {self.leaf_id[c]: self.nodes[self.cells[c].owner].tensor.detach().reshape(-1).tolist()
                for c in self.leaf_cells if self.leaf_id[c] in G.LEAVES}

    def leaf_key(self, c):
        t0 = self.nodes[self.cells[c].owner].tensor
        t = t0.detach()
        # the "value" of a leaf includes whether gradients are requested through it
        return (tuple(t.shape), t.numpy().tobytes(), bool(t0.requires_grad))

    def leaf_grads(self):
        return [self.leaf_id[c] for c in self.leaf_cells
                if self.leaf_id[c] in G.LEAVES and self.nodes[self.cells[c].owner].tensor.requires_grad]

    def eval_all(self, nodes=None):
        """call every getter (on `nodes`, default the real ones); exceptions are reported as values"""
        nodes = nodes or self.nodes
        out = []
        for ce in self.cells:
            try:
                vals = ce.get(nodes[ce.owner])
                out.append(tuple(t.detach().clone() for t in vals) + tuple("grad" if t.requires_grad else "nograd" for t in vals))
            except Exception as e:  # noqa: BLE001 — the implementation raised inside a getter
                out.append(("EXC", type(e).__name__))
        return out

    def stale_cells(self):
        """the oracle: every getter is called (the objects' state is restored afterwards, so the history under
        test is not disturbed) and compared with a fresh rebuild from JSON holding the same leaf values"""
        # (snapshot / restore of every object's attribute dictionary rather than copy.deepcopy: tensors that
        # carry an autograd graph cannot be deep-copied; getters only rebind attributes)
        snap = [dict(vars(o)) for o in self.nodes]
        # private helper objects that hold a node's state (e.g. a dataclass with the cached value and its flag) are
        # snapshotted one level down as well
        inner = []
        for o in self.nodes:
            for v in vars(o).values():
                if (id(v) not in self.idx and hasattr(v, "__dict__") and not isinstance(v, type)
                        and type(v).__module__.startswith("torchtree")):
                    inner.append((v, dict(vars(v))))

        def restore():
            for o, d in zip(self.nodes, snap):
                vars(o).clear()
                vars(o).update(d)
            for v, d in inner:
                vars(v).clear()
                vars(v).update(d)

        try:
            got = self.eval_all()
        finally:
            restore()
        # READ ORDER: a quantity served by several getters sharing one flag is also read in every other order
        # (probabilities before rates, one of them twice …), each from the same state
        alt = {}
        for c, ce in enumerate(self.cells):
            for oname, fn in ce.orders.items():
                if oname == "probabilities":
                    continue  # (a single getter: exercised as an operation of the histories)
                try:
                    vals = fn(self.nodes[ce.owner])
                    alt[(c, oname)] = tuple(t.detach().clone() for t in vals) + tuple("grad" if t.requires_grad else "nograd" for t in vals)
                except Exception as e:  # noqa: BLE001
                    alt[(c, oname)] = ("EXC", type(e).__name__)
                finally:
                    restore()
        # (the values of a fresh rebuild depend on the leaf values only: memoised per leaf state)
        key = (self.small, tuple(self.leaf_key(c) for c in self.leaf_cells))
        want = _FRESH.get(key)
        if want is None:
            # (the rebuild is written differently from the graph under test: reversed key order, full type names)
            fresh_g = Graph(self.leaf_values_full(), self.flags_of_class, small=self.small, grads=self.leaf_grads(), route=1)
            if fresh_g.cls != self.cls:
                raise ExtractionError("fresh rebuild has a different node list")
            want = fresh_g.eval_all()
            if len(_FRESH) > 400:
                _FRESH.clear()
            _FRESH[key] = want
        stale = [c for c in range(len(self.cells)) if not same(got[c], want[c])]
        for (c, oname), vals in alt.items():
            if c not in stale and not same(vals, want[c]):
                stale.append(c)
                got[c] = vals
                self.order_note = (c, oname)
        return sorted(stale), got, want

    def leaf_values_full(self):
        vals = {k: list(v) for k, v in self.values0.items()}
        vals.update(self.leaf_values())
        return vals


_FRESH = {}


def bitwise(a, b):
    torch = _torch()
    ta = [x for x in a if not isinstance(x, str)]
    tb = [x for x in b if not isinstance(x, str)]
    return len(ta) == len(tb) and all(x.shape == y.shape and torch.equal(x, y) for x, y in zip(ta, tb))


def same(a, b):
    torch = _torch()
    if len(a) != len(b):
        return False
    for x, y in zip(a, b):
        if isinstance(x, str) or isinstance(y, str):
            if x != y:
                return False
            continue
        if x.shape != y.shape:
            return False
        if not torch.allclose(x, y, rtol=RTOL, atol=ATOL, equal_nan=True):
            return False
    return True


# ------------------------------------------------------------------------------------------------
# operations
# ------------------------------------------------------------------------------------------------
POSITIVE = ["mu", "theta", "clock_rate", "wshape", "kappa", "cgd_alpha", "cgd_rate", "mg_kappa", "mg_alpha",
            "gtr_rates", "raw_rates", "cc_x", "kappa_rate", "vbase", "v_neg_slice", "v_long", "v_head", "v_bool", "v_first"]
REALS = ["loc", "cat_ab", "cat_a", "lin_x", "log_scale", "log_kappa"]
SIMPLEX = ["hky_freqs", "gtr_freqs", "cc_w"]
DUPS = ["dupA_pre", "dupA_1", "dupA_2", "dupC_1", "dupC_2", "dupC_pre", "prior_dupT_1", "prior_dupT_2", "prior_dupT_pre",
        "prior_dupV_1", "prior_dupV_2"]
DISTS = ["normal", "prior_kappa", "prior_theta", "prior_tail", "prior_v_neg_int", "prior_v_long", "prior_v_bool",
         "prior_v_head"]


def value_for(g: Graph, target, rng):
    """a VALID new value for parameter `target` (id or object) of any kind"""
    torch = _torch()
    from torchtree.core.parameter import CatParameter, Parameter, TransformedParameter, ViewParameter

    o = g.dic[target] if isinstance(target, str) else target
    if isinstance(o, Parameter):
        lid = g.name[g.idx[id(o)]]
        v = G.LEAVES[lid][0](rng)
        return torch.tensor(v, dtype=torch.float64).reshape(o.tensor.shape)
    if isinstance(o, ViewParameter):
        pid = g.name[g.idx[id(o.parameter)]]
        full = torch.tensor(G.LEAVES[pid][0](rng), dtype=torch.float64).reshape(o.parameter.tensor.shape)
        return full[..., o.indices].clone()
    if isinstance(o, CatParameter):
        parts = [value_for(g, p, rng) for p in o._parameter_container.params()]
        return torch.cat(parts, -1)
    if isinstance(o, TransformedParameter):
        return o.transform(value_for(g, o.x, rng))
    raise ValueError(target)


def settable_ids(g: Graph):
    """named parameters with a public setter (inline constants such as `dupA_1.loc` are not updated)"""
    return [g.name[j] for j in range(len(g.nodes)) if j in g.name and g.setter(j) != "n" and "." not in g.name[j]]


class Runner:
    """applies a history to a fresh real graph, recording after every operation what the
    correspondence and the oracle need; produces the driver request for the same history"""

    def __init__(self, flags_of_class, values=None, small=False):
        self.g = Graph(values or G.initial_values(), flags_of_class, small=small)
        self.stamps = {}
        self.ops_txt = []
        self.obs = []  # per step: dict(raised, exc, flags, leaves, stale)
        self.operators = {}
        self.copy_not_isomorphic = None
        self.leaves0 = self.leaf_stamps()
        self.flags0 = self.g.flags()
        self.record(False, None)

    def stamp(self, key):
        if key not in self.stamps:
            self.stamps[key] = len(self.stamps) + 1
        return self.stamps[key]

    def leaf_stamps(self):
        return {c: self.stamp(self.g.leaf_key(c)) for c in self.g.leaf_cells}

    def asg(self):
        return "+".join(f"{c}={s}" for c, s in self.leaf_stamps().items())

    def needs_split(self, j):
        """does assigning node j go through a CatParameter that has DERIVED children (transformed / concatenated)?
        CatParameter.tensor's setter reads `parameter.shape[-1]` of each child before and after assigning it, which
        for a derived child is a getter call (refreshes it, clears its flag)"""
        g = self.g
        st = g.setter(j)
        if st.startswith("t"):
            return self.needs_split(int(st[1:]))
        if st.startswith("c"):
            ch = [int(x) for x in st.split(":")[1].split("+")]
            return any(g.cls[c] in ("TransformedParameter", "CatParameter") or self.needs_split(c) for c in ch)
        return False

    def assign_tokens(self, j, asg):
        """primitive E / A tokens equivalent to the public setter of node j (see `needs_split`)"""
        g = self.g
        st = g.setter(j)
        if st.startswith("t"):
            return self.assign_tokens(int(st[1:]), asg)
        if st.startswith("c") and self.needs_split(j):
            out = []
            for c in [int(x) for x in st.split(":")[1].split("+")]:
                cell = g.cell_index[(c, 0)]
                out += [f"E{cell}"] + self.assign_tokens(c, asg) + [f"E{cell}"]
            return out
        return [f"A{j};{asg}"]

    def record(self, raised, exc):
        stale, got, want = self.g.stale_cells()
        how = {}
        for c in stale:
            g_exc = len(got[c]) > 0 and got[c][0] == "EXC"
            w_exc = len(want[c]) > 0 and want[c][0] == "EXC"
            how[c] = ("cached-where-fresh-raises" if w_exc and not g_exc else
                      "raises-where-fresh-evaluates" if g_exc and not w_exc else "stale")
        self.obs.append({"raised": raised, "exc": exc, "flags": sorted(self.g.flags()),
                         "leaves": self.leaf_stamps(), "stale": stale, "how": how})

    def apply(self, op, k):
        """op: JSON-able dict; k: its position in the history. Returns False when the op was skipped."""
        torch = _torch()
        g = self.g
        kind = op["op"]
        raised, exc = False, None
        try:
            if kind in ("assign", "inplace"):
                o = g.dic[op["target"]]
                j = g.idx[id(o)]
                t = torch.tensor(op["value"], dtype=torch.float64).reshape(op["shape"])
                try:
                    if kind == "assign":
                        o.tensor = t
                    else:
                        # the tensor OBJECT stays, its contents change, then the change notification (optimiser step)
                        with torch.no_grad():
                            how = op.get("how", "copy_")
                            if how == "add_":
                                o.tensor.add_(t - o.tensor)
                            elif how == "mul_" and bool((o.tensor.abs() > 1e-6).all()):
                                o.tensor.mul_(t / o.tensor)
                            elif how == "mul_":  # a zero entry cannot be rescaled to the new value
                                o.tensor.add_(t - o.tensor)
                            elif how == "index":
                                flat_o, flat_t = o.tensor.reshape(-1), t.reshape(-1)
                                for i in range(flat_t.numel()):
                                    flat_o[i] = flat_t[i]
                            else:
                                o.tensor.copy_(t)
                        o.fire_parameter_changed()
                except Exception as e:  # noqa: BLE001 — the implementation raised: that is an observation
                    raised, exc = True, exc_info(e)
                if kind == "assign" and self.needs_split(j):
                    self.ops_txt.append(",".join(self.assign_tokens(j, self.asg())))
                else:
                    self.ops_txt.append(f"{'A' if kind == 'assign' else 'I'}{j};{self.asg()}")
            elif kind == "deepcopy":
                # the history continues on copy.deepcopy of the whole graph (op["roots"]: copy only these objects —
                # everything reachable from them, listeners included, comes along — and look the others up by id)
                roots = op.get("roots")
                src = g.dic if not roots else {k: g.dic[k] for k in roots}
                try:
                    cp = copy.deepcopy(src)
                except Exception as e:  # noqa: BLE001
                    cp, raised, exc = None, True, exc_info(e)
                if cp is not None:
                    if roots:
                        cp = complete_by_id(cp, g.dic)
                    g2 = Graph(g.values0, g.flags_of_class, small=g.small, dic=cp)
                    if g2.machine_text() != g.machine_text():
                        self.copy_not_isomorphic = first_difference(g, g2)
                    if not roots and any(a is b for a, b in zip(g.nodes, g2.nodes)):
                        self.copy_not_isomorphic = "the copy shares objects with the original"
                    self.g = g = g2
                    self.operators = {}
                self.ops_txt.append("")
            elif kind == "device":
                # model.cpu() / model.to("cpu") / model.to(torch.float64): moves that leave every value unchanged here
                o = g.dic[op["target"]]
                try:
                    if op["how"] == "cpu":
                        o.cpu()
                    elif op["how"] == "tocpu":
                        o.to("cpu")
                    else:
                        o.to(torch.float64)
                except Exception as e:  # noqa: BLE001
                    raised, exc = True, exc_info(e)
                self.ops_txt.append("")
            elif kind == "reassign":
                # t = p.tensor; t[i] = v; p.tensor = t  — in-place edit of the held tensor, then the SAME tensor
                # object is assigned back (what ScalerOperator / SlidingWindowOperator do)
                o = g.dic[op["target"]]
                j = g.idx[id(o)]
                cc = g.cell_index[(j, 0)]
                try:
                    t = o.tensor
                except Exception as e:  # noqa: BLE001
                    t, raised, exc = None, True, exc_info(e)
                if t is not None:
                    if t.requires_grad and t.is_leaf:
                        return False  # torch forbids the caller's own in-place edit: not an operation
                    t.reshape(-1)[op["index"] % t.numel()] = op["element"]
                    try:
                        o.tensor = t
                    except Exception as e:  # noqa: BLE001
                        raised, exc = True, exc_info(e)
                if self.needs_split(j):
                    self.ops_txt.append(",".join([f"E{cc}"] + self.assign_tokens(j, self.asg())))
                else:
                    self.ops_txt.append(f"P-;{cc};{j};-;{self.asg()}")
            elif kind == "grad":
                o = g.dic[op["target"]]
                j = g.idx[id(o)]
                try:
                    o.requires_grad = bool(op["value"])
                except Exception as e:  # noqa: BLE001
                    raised, exc = True, exc_info(e)
                self.ops_txt.append(f"A{j};{self.asg()}")
            elif kind == "eval":
                o = g.dic[op["node"]]
                c = g.cell_index[(g.idx[id(o)], op["cell"])]
                try:
                    (g.cells[c].orders[op["getter"]] if op.get("getter") else g.cells[c].get)(o)
                except Exception as e:  # noqa: BLE001
                    raised, exc = True, exc_info(e)
                self.ops_txt.append(f"E{c}")
            elif kind == "evalall":
                for c, ce in enumerate(g.cells):
                    try:
                        ce.get(g.nodes[ce.owner])
                    except Exception as e:  # noqa: BLE001
                        raised, exc = True, exc_info(e)
                self.ops_txt.append(",".join(f"E{c}" for c in range(len(g.cells))))
            elif kind == "draw":
                d = g.dic[op["dist"]]
                torch.manual_seed(op["seed"])
                try:
                    (d.rsample if op.get("rsample") else d.sample)()
                except Exception as e:  # noqa: BLE001
                    raised, exc = True, exc_info(e)
                cc = g.cell_of(d.distribution_parameters, 0)
                jx = g.idx[id(d.x)]
                if self.needs_split(jx):
                    self.ops_txt.append(",".join([f"E{cc}"] + self.assign_tokens(jx, self.asg())))
                else:
                    self.ops_txt.append(f"D{cc};{jx};{self.asg()}")
            elif kind == "propose":
                from torchtree.inference.mcmc.operator import DirichletOperator, ScalerOperator, SlidingWindowOperator

                ps = [g.dic[p] for p in op["params"]]
                klass = {"scaler": ScalerOperator, "slide": SlidingWindowOperator, "dirichlet": DirichletOperator}[op["kind"]]
                oper = klass(None, ps, 1.0, 0.24, op.get("tune", 0.5))
                self.operators[op["ref"]] = oper
                before = {c: g.leaf_key(c) for c in g.leaf_cells}
                torch.manual_seed(op["seed"])
                try:
                    oper.step()
                except Exception as e:  # noqa: BLE001
                    raised, exc = True, exc_info(e)
                # which parameter did the operator pick: the one under which a leaf changed (found
                # WITHOUT calling any getter: an observation must not clear flags)
                changed = {c for c in g.leaf_cells if g.leaf_key(c) != before[c]}
                chosen = 0
                for i, p in enumerate(ps):
                    if g.leaves_under(g.cell_of(p, 0)) & changed:
                        chosen = i
                        break
                cells = "+".join(str(g.cell_of(p, 0)) for p in ps)
                # Scaler/SlidingWindow end with `self.parameters[0].device/.dtype`: one more getter call
                after = str(g.cell_of(ps[0], 0)) if op["kind"] != "dirichlet" else "-"
                jc = g.idx[id(ps[chosen])]
                if self.needs_split(jc):
                    toks = [f"E{g.cell_of(p, 0)}" for p in ps] + [f"E{g.cell_of(ps[chosen], 0)}"] + self.assign_tokens(jc, self.asg())
                    if after != "-":
                        toks.append(f"E{after}")
                    self.ops_txt.append(",".join(toks))
                else:
                    self.ops_txt.append(f"P{cells};{g.cell_of(ps[chosen], 0)};{jc};{after};{self.asg()}")
            elif kind == "reject":
                oper = self.operators.get(op["ref"])
                if oper is None or not hasattr(oper, "saved_tensors"):
                    return False
                try:
                    oper.reject()
                except Exception as e:  # noqa: BLE001
                    raised, exc = True, exc_info(e)
                pj = [g.idx[id(p)] for p in oper.parameters]
                if any(self.needs_split(j_) for j_ in pj):
                    self.ops_txt.append(",".join(t for j_ in pj for t in self.assign_tokens(j_, self.asg())))
                else:
                    self.ops_txt.append(f"R{'+'.join(map(str, pj))};{self.asg()}")
            else:
                raise ValueError(kind)
        except KeyError:
            return False
        self.record(raised, exc)
        return True

    def request(self):
        nodes, cells = self.g.machine_text()
        leaves = " ".join(f"{c}={s}" for c, s in self.leaves0.items())
        flags = " ".join(f"{j}:{f}" for j, f in self.flags0)
        return f"run {nodes} | {cells} | {leaves} | {flags} | " + " ".join(t for t in self.ops_txt if t)


def complete_by_id(cp, orig):
    """id dictionary of a partial deep copy: every object reachable from the copied roots (through what they hold
    and through listener lists), keyed like the original dictionary"""
    by_id = {}
    seen = set()
    stack = list(cp.values())
    while stack:
        o = stack.pop()
        if id(o) in seen:
            continue
        seen.add(id(o))
        if getattr(o, "id", None) is not None:
            by_id.setdefault(o.id, o)
        stack.extend(c for c, _ in held(o))
        stack.extend(listeners_of(o))
    out = {}
    for k in orig:
        if k in cp:
            out[k] = cp[k]
        elif k in by_id:
            out[k] = by_id[k]
        else:
            out[k] = orig[k]  # another connected component: not copied, the original object stays in use
    return out


def first_difference(g, g2):
    if g.cls != g2.cls:
        return f"node lists differ ({len(g.nodes)} vs {len(g2.nodes)} nodes)"
    for j in range(len(g.nodes)):
        try:
            a, b = g.real_listeners(j), g2.real_listeners(j)
        except ExtractionError as e:
            return str(e)
        if a != b:
            return (f"listeners of {g.describe(j)}: original {[g.describe(x) for x in a]}, "
                    f"copy {[g2.describe(x) for x in b]}")
    return "cells / inputs differ"


def exc_info(e):
    """(exception type, class of the innermost torchtree object in whose method it was raised)"""
    cls = None
    tb = e.__traceback__
    while tb is not None:
        slf = tb.tb_frame.f_locals.get("self")
        if slf is not None and type(slf).__module__.startswith("torchtree"):
            cls = type(slf).__name__
        tb = tb.tb_next
    return [type(e).__name__, cls, str(e)[:120]]


def parse_reply(rep):
    parts = rep.split(" | ")
    head = dict(kv.split("=") for kv in parts[0].split()[1:])
    steps = []
    for p in parts[1:]:
        r, F, S, L = p.split(";")
        steps.append({
            "raised": r == "r1",
            "flags": sorted(tuple(map(int, x.split(":"))) for x in F[1:].split("+") if x),
            "stale": sorted(int(x) for x in S[1:].split("+") if x),
            "leaves": {int(a): int(b) for a, b in (x.split("=") for x in L[1:].split("+") if x)},
        })
    return head, steps


def evalall_expand(history):
    """number of model steps each history op expands to (evalall = one E per cell: the driver reports
    one step per op token, the harness records one observation per history op)"""
    return history


# ------------------------------------------------------------------------------------------------
# history generation
# ------------------------------------------------------------------------------------------------
def footprint(g: Graph, target):
    """ids of the plain leaves an update of `target` writes"""
    o = g.dic[target]
    return {g.leaf_id[c] for c in g.leaves_under(g.cell_index[(g.idx[id(o)], 0)])}


def gen_reassign(g: Graph, rng, target):
    v = value_for(g, target, rng).reshape(-1)
    i = rng.randrange(len(v))
    return {"op": "reassign", "target": target, "index": i, "element": float(v[i])}


GRADABLE = ["mu", "theta", "theta2", "heights2", "heights3", "bl", "log_kappa", "kappa", "cat_ab", "cat_a", "loc",
            "log_scale", "scale", "clock_rate", "pinv2", "wshape", "hky_freqs", "cgd_alpha", "ratios"]


def gen_update(g: Graph, rng, k, grad_on=frozenset()):
    """one random update operation (JSON-able). `grad_on`: leaves currently built with requires_grad — torch
    forbids in-place edits of those, so only whole-tensor assignments / no_grad in-place steps touch them"""
    r = rng.random()
    if r < 0.10:
        t = rng.choice(GRADABLE)
        return {"op": "grad", "target": t, "value": not (footprint(g, t) & grad_on)}
    if r < 0.22:
        for _ in range(20):
            # (not on simplex-valued leaves: editing one element leaves the simplex, and a later
            # DirichletOperator would rightly refuse the value — that would be the harness's doing)
            t = rng.choice([x for x in settable_ids(g) if x not in SIMPLEX and x not in ("mg_freqs", "mvn_cov")])
            if not (footprint(g, t) & grad_on):
                return gen_reassign(g, rng, t)
    if r < 0.50:
        t = rng.choice(sorted(G.LEAVES))
        v = value_for(g, t, rng)
        u = {"op": "assign" if rng.random() < 0.7 else "inplace", "target": t,
             "value": v.reshape(-1).tolist(), "shape": list(v.shape)}
        if u["op"] == "inplace":
            u["how"] = rng.choice(["copy_", "add_", "mul_", "index"])
        return u
    if r < 0.68:
        for _ in range(20):
            t = rng.choice([x for x in settable_ids(g) if x not in G.LEAVES])
            if not (footprint(g, t) & grad_on):  # views / cats write in place into their parents
                v = value_for(g, t, rng)
                return {"op": "assign", "target": t, "value": v.reshape(-1).tolist(), "shape": list(v.shape)}
    if r < 0.80:
        for _ in range(20):
            d = rng.choice(DISTS)
            if not (footprint(g, g.name[g.idx[id(g.dic[d].x)]]) & grad_on):
                return {"op": "draw", "dist": d, "seed": rng.randrange(1 << 30), "rsample": rng.random() < 0.5}
    for _ in range(20):
        kind = rng.choice(["scaler", "slide", "dirichlet"])
        if kind == "scaler":
            ps = rng.sample(POSITIVE, rng.choice([1, 2, 3]))
        elif kind == "slide":
            ps = rng.sample(REALS + ["heights3"], rng.choice([1, 2]))
        else:
            ps = [rng.choice(SIMPLEX)]
        if not any(footprint(g, x) & grad_on for x in ps):
            return {"op": "propose", "kind": kind, "params": ps, "seed": rng.randrange(1 << 30), "ref": k,
                    "tune": (0.5 if kind == "scaler" else 0.05) if kind != "dirichlet" else 50.0}
    t = rng.choice(sorted(G.LEAVES))
    v = value_for(g, t, rng)
    return {"op": "assign", "target": t, "value": v.reshape(-1).tolist(), "shape": list(v.shape)}


def gen_history(g: Graph, rng, length):
    hist = []
    pending = []
    grad_on = set()
    named = [(g.name[ce.owner], ce.tmpl) for ce in g.cells if ce.owner in g.name]
    while len(hist) < length:
        r = rng.random()
        k = len(hist)
        if r < 0.30:
            n, t = rng.choice(named)
            hist.append({"op": "eval", "node": n, "cell": t})
        elif r < 0.34:
            hist.append({"op": "evalall"})
        elif r < 0.36 and not grad_on and not pending:
            hist.append({"op": "deepcopy"})
        elif r < 0.44 and pending and not grad_on:
            hist.append({"op": "reject", "ref": pending.pop()})
        else:
            op = gen_update(g, rng, k, frozenset(grad_on))
            if op["op"] == "propose":
                pending.append(k)
            # keep track of which leaves request gradients (a whole-tensor assignment installs a fresh tensor)
            if op["op"] == "grad":
                (grad_on.update if op["value"] else grad_on.difference_update)(footprint(g, op["target"]))
            elif op["op"] in ("assign", "draw", "reassign"):
                tgt = op.get("target") or g.name[g.idx[id(g.dic[op["dist"]].x)]]
                if tgt in G.LEAVES:
                    grad_on.discard(tgt)
            hist.append(op)
    return hist


# ------------------------------------------------------------------------------------------------
# running one history: correspondence + oracle
# ------------------------------------------------------------------------------------------------
def run_history(flags_of_class, drv, hist, want_model=True, small=False):
    """-> dict(mismatch=None|{...}, violation=None|{...}, head, n_steps)"""
    rn = Runner(flags_of_class, small=small)
    done = []
    for k, op in enumerate(hist):
        if rn.apply(op, k):
            done.append(op)
    res = {"mismatch": None, "violation": None, "head": None, "steps": len(done), "runner": rn, "done": done}
    if rn.g.registration_failures or rn.copy_not_isomorphic:
        res["mismatch"] = {"what": "bookkeeping", "registration": rn.g.registration_failures,
                           "deepcopy_not_isomorphic": rn.copy_not_isomorphic}
    # ---- oracle on the implementation
    for i, ob in enumerate(rn.obs):
        op = done[i - 1] if i > 0 else None
        if ob["raised"] and op is not None and op["op"] not in ("eval", "evalall"):
            res["violation"] = {"step": i, "kind": "raises", "class": ob["exc"][1], "exc": ob["exc"], "op": op}
            break
        # (a getter that raises is judged like any other outcome: against the fresh rebuild, which may raise too)
        if ob["stale"]:
            c = ob["stale"][0]
            how = ob.get("how", {}).get(c, "stale")
            res["violation"] = {"step": i, "kind": how, "class": rn.g.cls[rn.g.cells[c].owner],
                                "cell": rn.g.describe_cell(c), "all": [rn.g.describe_cell(x) for x in ob["stale"]],
                                "op": op}
            break
    # ---- correspondence with the Lean machine
    if drv is not None and want_model:
        if res["mismatch"] is not None:
            return res
        rep = drv.ask(rn.request())
        if not rep.startswith("ok "):
            res["mismatch"] = {"what": "driver rejected the request", "reply": rep[:200]}
            return res
        head, steps = parse_reply(rep)
        res["head"] = head
        # the driver reports one step per op token; an `evalall` is many tokens: keep the last of each group
        idx = [0]
        pos = 0
        for txt in rn.ops_txt:
            pos += len(txt.split())
            idx.append(pos)
        if idx[-1] != len(steps) - 1:
            res["mismatch"] = {"what": "driver step count", "got": len(steps), "want": idx[-1] + 1}
            return res
        raised_acc = [False] * len(steps)
        for i, (a, b) in enumerate(zip(idx[:-1], idx[1:])):
            raised_acc[b] = any(steps[x]["raised"] for x in range(a + 1, b + 1))
        for i, ob in enumerate(rn.obs):
            st = steps[idx[i]]
            diffs = {}
            if i > 0 and ob["raised"] != raised_acc[idx[i]]:
                diffs["raised"] = {"impl": ob["raised"], "model": raised_acc[idx[i]], "exc": ob["exc"]}
            if [tuple(x) for x in ob["flags"]] != st["flags"]:
                a, b = set(map(tuple, ob["flags"])), set(st["flags"])
                diffs["flags"] = {"impl_only": [f"{rn.g.describe(j)}.{_flag_name(flags_of_class, rn.g.cls[j], f)}" for j, f in sorted(a - b)],
                                  "model_only": [f"{rn.g.describe(j)}.{_flag_name(flags_of_class, rn.g.cls[j], f)}" for j, f in sorted(b - a)]}
            # a Container has no value of its own to observe: leave its cell out of the comparison
            full_model_stale = list(st["stale"])
            st["stale"] = [c for c in st["stale"] if rn.g.cells[c].name != "contents"]
            # values are uninterpreted in the model, so it propagates staleness through every read, while a
            # real function may ignore an input (log|det J| of ConvexCombinationTransform is constant):
            # compare the ORIGINS of staleness exactly (stale cells none of whose reads is stale), and
            # require every stale getter of the implementation to be predicted stale
            def roots(S):
                Sx = set(S)
                return sorted(c for c in Sx if not any(d in Sx for d, _ in rn.g.cells[c].reads))
            impl_full = set(ob["stale"])  # a Container is stale iff something it holds is
            for c, ce in enumerate(rn.g.cells):
                if ce.name == "contents" and any(d in impl_full for d, _ in ce.reads):
                    impl_full.add(c)
            if roots(impl_full) != roots(full_model_stale) or not set(ob["stale"]) <= set(st["stale"]):
                diffs["stale"] = {"impl": [rn.g.describe_cell(c) for c in ob["stale"]],
                                  "model": [rn.g.describe_cell(c) for c in st["stale"]]}
            if ob["leaves"] != st["leaves"]:
                bad = [c for c in ob["leaves"] if ob["leaves"][c] != st["leaves"].get(c)]
                diffs["leaves"] = [rn.g.describe_cell(c) for c in bad]
            if diffs:
                res["mismatch"] = {"step": i, "op": done[i - 1] if i else None, "diffs": diffs}
                break
    return res


def shrink(flags_of_class, drv, hist, pred, small=False):
    """shortest sub-history (greedy one-at-a-time removal to a fixpoint) on which `pred(result)` holds"""
    import time

    cur = list(hist)
    changed = True
    t_end = time.time() + 20.0  # bounded: the check must still report promptly after a finding
    while changed and len(cur) > 1 and time.time() < t_end:
        changed = False
        for i in range(len(cur) - 1, -1, -1):
            if time.time() > t_end:
                break
            cand = cur[:i] + cur[i + 1:]
            try:
                r = run_history(flags_of_class, drv, cand, want_model=drv is not None, small=small)
            except Exception:  # noqa: BLE001
                continue
            if pred(r):
                cur = cand
                changed = True
                break
    return cur


def _flag_name(flags_of_class, cls, f):
    fl = flags_of_class.get(cls, [])
    return fl[f] if f < len(fl) else f"flag#{f}"


def vio_sig(v):
    return f"{v['class']}:{v['kind']}"


# ------------------------------------------------------------------------------------------------
# perturbation validation of the hand-written reads
# ------------------------------------------------------------------------------------------------
def validate_reads(ck, flags_of_class, rng):
    g = Graph(G.initial_values(), flags_of_class)
    base = g.eval_all()
    # model dependency: transitive closure of reads down to leaf cells
    dep = [set() for _ in g.cells]
    for c, ce in enumerate(g.cells):
        if c in g.leaf_cells:
            dep[c].add(c)
        for d, _ in ce.reads:
            dep[c] |= dep[d]
    unread = []
    n_dep = 0
    for lc in g.leaf_cells:
        lid = g.leaf_id[lc]
        if lid not in G.LEAVES:
            continue
        vals = G.initial_values()
        for _ in range(3):
            vals[lid] = G.LEAVES[lid][0](rng)
            if vals[lid] != G.initial_values()[lid]:
                break
        g2 = Graph(vals, flags_of_class)
        v2 = g2.eval_all()
        for c in range(len(g.cells)):
            if not same(base[c], v2[c]):
                n_dep += 1
                if lc not in dep[c]:
                    unread.append((g.describe_cell(c), lid))
    ck.extra["reads_validation"] = {"dependencies_observed": n_dep, "not_in_model": unread[:10]}
    ck.bucket("reads-perturbation/leaf", len(g.leaf_cells))
    return unread


# ------------------------------------------------------------------------------------------------
def run(ck: Check):
    use_repo()
    torch = _torch()
    torch.set_num_threads(2)
    torch.set_default_dtype(torch.float64)
    ck.rule = (
        "one case = one operation history applied to REAL torchtree objects built from JSON (graph with every "
        "parameter kind and 22 classes) and to the Lean machine; after every operation: raised?, every dirty flag, "
        "every leaf, and the set of getters differing from a fresh rebuild are compared. distinct = distinct "
        "(operation kinds, targets) sequence; non-trivial = contains at least one update followed by an observation"
    )
    ck.assumptions += [
        "values are uninterpreted in the model: a quantity is a function of the quantities it reads "
        "(TTModel/C11_Reads.lean, validated by perturbing every leaf of the real graph)",
        "BirthDeathModel is excluded from the graph (its defects F09 are C09's)",
        "ModuleParameter / plug-in / nf / nn classes are covered only by all_handlers_total (handlers never raise)",
        "assignment to a TransformedParameter whose transform has no inverse (RescaledRateTransform, "
        "ConvexCombinationTransform, LinearTransform raise NotImplementedError by design) is not an admissible update",
        "ViewParameter is a view of a plain Parameter (its constructor's declared type)",
    ]
    ck.trusted += ["torch tensor semantics (aliasing of in-place writes), copy.deepcopy of torchtree objects, "
                   "torchtree's JSON loader (used to build the graph and the fresh rebuild)"]
    lean_src, tr_ok, notes, table = tr_wiring.translate(REPO)
    for n in notes:
        ck.notes.append("translator: " + n)
    flags_of_class = {d["name"]: d["flags"] for d in table}
    setattr_src, setattr_ok, setattr_table = tr_wiring.translate_setattr()
    ck.extra["setattr_table"] = [[k, d, a] for k, d, a in setattr_table]
    if not setattr_ok:
        ck.notes.append("translator: Parametric.__setattr__ has a statement shape that is not recognised")
    ok, broken = ck.lean_side(
        {"TTGen/C11_Wiring.lean": lean_src, "TTGen/C11_Setattr.lean": setattr_src},
        ["TTGen.C11_Wiring", "TTGen.C11_Setattr", "TTModel.C11_Table", "drv_c11", "TTProofs.Props.C11"],
        "TTProofs/Props/C11.lean",
    )
    ck.extra["translator_recognised_source"] = tr_ok
    ck.extra["classes_in_generated_table"] = len(table)
    import time

    _T_RUN[0] = time.time()
    drv = None
    try:
        drv = ck.driver("drv_c11")
    except Exception as e:  # noqa: BLE001
        ck.notes.append(f"driver unavailable: {e}")

    rng = ck.rng
    found = {}  # signature -> (violation, shortest history)
    reported = set()
    first_mismatch = None

    def handle(hist, bucket, small=False, model=True):
        nonlocal first_mismatch
        try:
            r = run_history(flags_of_class, drv if model else None, hist, small=small, want_model=model)
        except ExtractionError as e:
            ck.mismatch("graph extraction failed", str(e))
            return None
        key = tuple((o["op"], o.get("target") or o.get("node") or o.get("dist") or ",".join(o.get("params", [])) or "",
                     o.get("cell", o.get("index", o.get("value") if o["op"] == "grad" else None))) for o in r["done"])
        ck.case(key=key, bucket=bucket,
                nontrivial=any(o["op"] not in ("eval", "evalall") for o in r["done"]),
                sample={"history": [_short(o) for o in r["done"]][:6], "violation": r["violation"] and vio_sig(r["violation"]),
                        "model_agrees": r["mismatch"] is None})
        if r["head"] is not None:
            for k2 in ("wf", "conf"):
                if r["head"].get(k2) != "1" and ("head", k2) not in reported:
                    reported.add(("head", k2))
                    ck.mismatch(f"extracted graph fails the model's {k2} check", r["head"])
            ck.extra["graph_checks"] = r["head"]
        if r["mismatch"] is not None and first_mismatch is None:
            sm = shrink(flags_of_class, drv, r["done"], lambda x: x["mismatch"] is not None, small=small)
            rr = run_history(flags_of_class, drv, sm, small=small)
            first_mismatch = {"history": sm, "small_graph": small, "mismatch": rr["mismatch"]}
            ck.mismatch("model and implementation disagree", first_mismatch)
        if r["violation"] is not None:
            sig = vio_sig(r["violation"])
            if sig not in found and len(found) < 8:
                sm = shrink(flags_of_class, None, r["done"],
                            lambda x: x["violation"] is not None and vio_sig(x["violation"]) == sig, small=small)
                rr = run_history(flags_of_class, None, sm, want_model=False, small=small)
                found[sig] = (rr["violation"], sm, small)
        return r

    # ---- corpus first
    corpus = sorted((VERIF / "corpus").glob("C11-*.json"))
    for f in corpus:
        obj = json.loads(f.read_text())
        handle(obj["history"], "corpus")

    # ---- which inputs each class reads: perturb every leaf
    try:
        unread = validate_reads(ck, flags_of_class, rng)
        if unread:
            ck.mismatch("a quantity depends on a leaf the reads table does not list", unread[:10])
    except ExtractionError as e:
        ck.mismatch("graph extraction failed", str(e))

    # ---- exhaustive: warm caches, then every single update on every settable parameter / every draw
    g0 = Graph(G.initial_values(), flags_of_class)
    ck.extra["graph"] = {"nodes": len(g0.nodes), "cells": len(g0.cells), "leaves": len(g0.leaf_cells),
                         "classes": sorted(set(g0.cls))}
    singles = []
    for t in settable_ids(g0):
        v = value_for(g0, t, rng)
        singles.append({"op": "assign", "target": t, "value": v.reshape(-1).tolist(), "shape": list(v.shape)})
        if t in G.LEAVES:
            v = value_for(g0, t, rng)
            singles.append({"op": "inplace", "target": t, "value": v.reshape(-1).tolist(), "shape": list(v.shape)})
        if t not in SIMPLEX and t not in ("mg_freqs", "mvn_cov"):  # one edited element would leave the valid set
            singles.append(gen_reassign(g0, rng, t))  # in-place edit + the same tensor object assigned back
    for t in GRADABLE:
        singles.append({"op": "grad", "target": t, "value": True})
    for d in DISTS:
        singles.append({"op": "draw", "dist": d, "seed": rng.randrange(1 << 30), "rsample": False})
    for k, (kind, ps) in enumerate([("scaler", ["mu", "kappa", "gtr_rates"]), ("slide", ["cat_ab", "loc"]),
                                    ("dirichlet", ["hky_freqs"]), ("scaler", ["mg_kappa", "theta"]),
                                    ("slide", ["heights3"]), ("slide", ["heights2"]), ("scaler", ["theta2"]),
                                    ("scaler", ["bl"]), ("scaler", ["root_height"]), ("slide", ["log_kappa", "log_scale"]),
                                    ("scaler", ["tail_rates", "clock_rate"]), ("dirichlet", ["gtr_freqs"])]):
        singles.append({"op": "propose", "kind": kind, "params": ps, "seed": rng.randrange(1 << 30),
                        "ref": 1, "tune": 50.0 if kind == "dirichlet" else (0.5 if kind == "scaler" else 0.05)})
    if not ck.thorough():  # quick tier: every assignment target and every operator, a sample of the rest
        keep = [u for u in singles if u["op"] in ("propose", "draw")]
        for kind, n in (("assign", 24), ("inplace", 5), ("reassign", 5), ("grad", 3)):
            pool = [u for u in singles if u["op"] == kind]
            keep += rng.sample(pool, min(n, len(pool)))
        singles_run = keep
    else:
        singles_run = singles
    for u in singles_run:
        h = [{"op": "evalall"}, dict(u)]
        if u["op"] == "propose":
            h.append({"op": "reject", "ref": 1})
        if u["op"] == "grad":  # and back off again
            h.append({"op": "grad", "target": u["target"], "value": False})
        handle(h, "exhaustive/warm+1")
    # ---- only ONE of several dependents is evaluated between two updates of the same leaf
    dep = {}
    for c, ce in enumerate(g0.cells):
        if ce.owner in g0.name and c not in g0._leafset and ce.name != "contents":
            for lc in g0.leaves_under(c):
                if g0.leaf_id[lc] in G.LEAVES:
                    dep.setdefault(g0.leaf_id[lc], []).append((g0.name[ce.owner], ce.tmpl))
    leaves = sorted(dep)
    rng.shuffle(leaves)
    for lid in leaves[: (len(leaves) if ck.thorough() else 6)]:
        ds = dep[lid]
        a, b = (rng.sample(ds, 2) if len(ds) >= 2 else (ds[0], ds[0]))
        v1, v2 = value_for(g0, lid, rng), value_for(g0, lid, rng)
        u1 = {"op": "assign", "target": lid, "value": v1.reshape(-1).tolist(), "shape": list(v1.shape)}
        u2 = {"op": "assign", "target": lid, "value": v2.reshape(-1).tolist(), "shape": list(v2.shape)}
        ea, eb = {"op": "eval", "node": a[0], "cell": a[1]}, {"op": "eval", "node": b[0], "cell": b[1]}
        handle([{"op": "evalall"}, u1, ea, u2, eb], "interleave/one-dependent-warm")
        handle([dict(u1), dict(ea), dict(u2)], "interleave/one-dependent-cold")
    # pairs (a random sample; larger in the thorough tier)
    pairs = [(a, b) for a in singles for b in singles
             if a["op"] not in ("propose", "grad") and b["op"] not in ("propose", "grad")]
    rng.shuffle(pairs)
    for a, b in pairs[: (500 if ck.thorough() else 8)]:
        handle([{"op": "evalall"}, dict(a), dict(b)], "exhaustive/warm+2")
    # cold start (flags as the constructors leave them), every single update
    for u in singles[:: (1 if ck.thorough() else 22)]:
        if u["op"] != "propose":
            handle([dict(u)], "exhaustive/cold+1")
    # UPDATE MODES on the parameters of the tree models (one model class, its parameter held as a plain Parameter,
    # a CatParameter or a TransformedParameter): new tensor object, in-place mutation keeping the object (copy_, add_,
    # mul_, element assignment) + notification, edit + same object assigned back, real operators, requires_grad
    tree_leaves = ["shifts_p", "rrh_p", "ratios", "root_height", "heights2", "heights3", "differences", "bl"]
    modes = [("assign", None), ("inplace", "copy_"), ("inplace", "add_"), ("inplace", "mul_"), ("inplace", "index"),
             ("reassign", None), ("slide", None), ("grad", None)]
    for lid in tree_leaves:
        for mode, how in (modes if ck.thorough() else rng.sample(modes[:1], 1) + rng.sample(modes[1:5], 3) + rng.sample(modes[5:], 1)):
            v = value_for(g0, lid, rng)
            if mode in ("assign", "inplace"):
                u = {"op": mode, "target": lid, "value": v.reshape(-1).tolist(), "shape": list(v.shape)}
                if how:
                    u["how"] = how
            elif mode == "reassign":
                u = gen_reassign(g0, rng, lid)
            elif mode == "slide":
                u = {"op": "propose", "kind": "slide", "params": [lid], "seed": rng.randrange(1 << 30), "ref": 1, "tune": 0.02}
            else:
                u = {"op": "grad", "target": lid, "value": True}
            handle([{"op": "evalall"}, u], "update-modes/tree-parameters")
    # NESTED transformed parameters (x of a TransformedParameter is a TransformedParameter: directly, through a list x,
    # through a model used by the transform): update the innermost leaf by every route, the listeners of the OUTER one
    # (a prior, a joint, a clock model + likelihood) must follow
    for lid, watchers in (("tt_z", ["prior_tt_outer", "prior_tt_list", "joint_tt"]), ("tt_b", ["prior_tt_list"]),
                          ("differences", ["clock_f", "like_f", "joint_tt"])):
        for w_ in watchers:
            v = value_for(g0, lid, rng)
            mode = rng.choice(["assign", "inplace"])
            u = {"op": mode, "target": lid, "value": v.reshape(-1).tolist(), "shape": list(v.shape)}
            ew = {"op": "eval", "node": w_, "cell": 0}
            handle([dict(ew), u, dict(ew)], "nested-transformed")
    for tgt in ("tt_outer", "tt_inner", "fheights"):
        v = value_for(g0, tgt, rng)
        handle([{"op": "evalall"}, {"op": "assign", "target": tgt, "value": v.reshape(-1).tolist(), "shape": list(v.shape)}],
               "nested-transformed")
    handle([{"op": "evalall"}, {"op": "propose", "kind": "slide", "params": ["tt_z"], "seed": rng.randrange(1 << 30), "ref": 1, "tune": 0.05},
            {"op": "eval", "node": "joint_tt", "cell": 0}, {"op": "reject", "ref": 1}], "nested-transformed")
    # READ ORDER on objects whose getters share one flag (site models): after an update read ONLY probabilities(), or
    # probabilities() before rates(), then the downstream likelihood
    for site, lids, down in (("site_w2", ["wshape2", "mu_w2"], "like_w2"), ("site_w", ["wshape", "pinv", "mu"], "like_u"),
                             ("site_i", ["pinv2"], "like_t"), ("site_i2", ["pinv3", "mu3"], None)):
        for lid in lids:
            v = value_for(g0, lid, rng)
            u = {"op": "assign" if rng.random() < 0.6 else "inplace", "target": lid, "value": v.reshape(-1).tolist(), "shape": list(v.shape)}
            ep = {"op": "eval", "node": site, "cell": 0, "getter": "probabilities"}
            er = {"op": "eval", "node": site, "cell": 0}
            tail = [{"op": "eval", "node": down, "cell": 0}] if down else []
            handle([{"op": "evalall"}, dict(u), dict(ep)] + tail, "read-order")
            handle([dict(er), dict(u), dict(ep), dict(ep), dict(er)], "read-order")
    # a device move on a CatParameter (explicit, or implicit: a list x of a Distribution / TransformedParameter, the
    # ratios+root_height of a reparameterised tree) or on a model OWNING one, NO read afterwards, then an update of a
    # COMPONENT: its listeners must still hear it (oracle only)
    for tgt, lid in (("cat_ab", "cat_a"), ("normal", "cat_b"), ("dupA_1", "dup_a"), ("dupT_1", "dup_b"), ("prior_dupT_2", "dup_a"),
                     ("ttree", "ratios"), ("joint", "root_height"), ("joint_dup", "dup_c")):
        for how in (("cpu", "to64", "tocpu") if ck.thorough() else (rng.choice(["cpu", "to64", "tocpu"]),)):
            v = value_for(g0, lid, rng)
            u = {"op": "assign", "target": lid, "value": v.reshape(-1).tolist(), "shape": list(v.shape)}
            handle([{"op": "evalall"}, {"op": "device", "target": tgt, "how": how}, u], "device-move/cat-component", model=False)
    # FAILURE THEN RETRY: evaluate, put a parameter where evaluation RAISES (outside the support of a validated
    # torch distribution, a non positive-definite covariance), evaluate (raises), evaluate the same node and the
    # enclosing ones AGAIN, repair the parameter, evaluate: a call after a failed one must raise again or recompute,
    # never answer from the cache.  (Oracle only: the fresh rebuild raises too; failing getters are not in the machine.)
    for lid, bad, node, above in (("kappa_rate", [-1.0], "prior_kappa", "joint"), ("theta", [-2.0], "prior_theta", "joint"),
                                  ("mvn_cov", [1.0, 2.0, 2.0, 1.0], "mvn", "joint_in"), ("theta2", [-1.0], "coal2", "joint_out"),
                                  ("bb_scale", [-1.0], "bridge", "joint_in")):
        o = g0.dic[lid]
        ub = {"op": "assign", "target": lid, "value": bad, "shape": list(o.tensor.shape)}
        v = value_for(g0, lid, rng)
        ug = {"op": "assign", "target": lid, "value": v.reshape(-1).tolist(), "shape": list(v.shape)}
        en, ea = {"op": "eval", "node": node, "cell": 0}, {"op": "eval", "node": above, "cell": 0}
        handle([{"op": "evalall"}, ub, dict(en), dict(en), dict(ea), dict(ea), ug, {"op": "evalall"}], "failure-then-retry", model=False)
        handle([dict(ea), ub, dict(ea), dict(en), dict(ea), ug, dict(ea)], "failure-then-retry", model=False)
    # several VALUE-EQUAL consumers of the same plain parameters (duplicate CatParameter / TransformedParameter /
    # ViewParameter wrappers, prefix lists, both build orders): evaluate one consumer, update a shared leaf (or
    # update THROUGH a twin), evaluate again — every consumer must follow
    for m in DUPS:
        em = {"op": "eval", "node": m, "cell": 0}
        for lid in ("dup_a", "dup_b", "dup_c", "dup_d"):
            if ck.thorough() or rng.random() < 0.35:
                v = value_for(g0, lid, rng)
                handle([dict(em), {"op": "assign", "target": lid, "value": v.reshape(-1).tolist(), "shape": list(v.shape)},
                        dict(em)], "value-equal-consumers")
    for d1, d2 in (("dupA_1", "dupA_2"), ("dupA_2", "dupA_pre"), ("dupC_2", "dupC_1"), ("dupC_pre", "dupC_2"),
                   ("prior_dupT_1", "prior_dupT_2"), ("prior_dupV_1", "prior_dupV_2"), ("prior_dupV_2", "prior_dupV_1")):
        handle([{"op": "evalall"}, {"op": "draw", "dist": d1, "seed": rng.randrange(1 << 30), "rsample": False},
                {"op": "eval", "node": d2, "cell": 0}], "value-equal-consumers")
    # ---- random histories
    n_hist = 150 if ck.thorough() else 22
    max_len = 40 if ck.thorough() else 12
    for _ in range(n_hist):
        L = rng.randint(2, max_len)
        handle(gen_history(g0, rng, L), f"random/len<={((L - 1) // 10 + 1) * 10}")
        if ck_time(ck) > (700 if ck.thorough() else 45):
            ck.notes.append("stopped random histories at the time budget")
            break

    # overlapping sibling views of one parameter (negative int, negative slices, LongTensor, bool mask; one
    # disjoint pair as control): a model attached to one view is evaluated, the value is assigned through
    # ANOTHER view (setter / edit+reassign / real operator / draw), the first must not stay stale
    vpairs = [(a, b) for a in G.VIEWS for b in G.VIEWS if a != b]
    if not ck.thorough():
        vpairs = rng.sample(vpairs, 10)
    for i, (va, vb) in enumerate(vpairs):
        ea = {"op": "eval", "node": "prior_" + va, "cell": 0}
        v = value_for(g0, vb, rng)
        ups = [{"op": "assign", "target": vb, "value": v.reshape(-1).tolist(), "shape": list(v.shape)}]
        if ck.thorough() or i % 6 == 0:
            ups.append(gen_reassign(g0, rng, vb))
            ups.append({"op": "draw", "dist": "prior_" + vb, "seed": rng.randrange(1 << 30), "rsample": False})
            if vb != "v_neg_int":
                ups.append({"op": "propose", "kind": "scaler", "params": [vb], "seed": rng.randrange(1 << 30), "ref": 1, "tune": 0.5})
        for u in ups:
            handle([dict(ea), dict(u), dict(ea)], "sibling-views")
    # copy.deepcopy of the graph (cold, warm, and through a sub-set of roots), then updates ON THE COPY: the copy must
    # be isomorphic to the original (listener edges included) and behave like a fresh rebuild
    pool = [u for u in singles if u["op"] in ("assign", "inplace", "reassign", "draw")]
    for u in rng.sample(pool, len(pool) if ck.thorough() else 6):
        handle([{"op": "deepcopy"}, dict(u)], "deepcopy/cold")
    for u in rng.sample(pool, 60 if ck.thorough() else 6):
        handle([{"op": "evalall"}, {"op": "deepcopy"}, dict(u)], "deepcopy/warm")
    for roots in (["joint"], ["coal_f"], ["like_t", "prior_v_long"], ["kappa_a", "site_i2"]):
        for u in rng.sample(pool, 12 if ck.thorough() else 1):
            handle([{"op": "evalall"}, {"op": "deepcopy", "roots": roots}, dict(u), {"op": "deepcopy"}, dict(u)],
                   "deepcopy/sub-graph")
    # device / dtype moves that leave every value unchanged (cpu(), to("cpu"), to(float64)) as operations: they must
    # not raise and nothing may go stale afterwards or after a following update.  (Oracle only: which flags a move
    # sets is not part of the machine.)
    for tgt, how in (("joint", "cpu"), ("joint", "to64"), ("joint_out", "tocpu"), ("like_t", "cpu"), ("kappa", "cpu"),
                     ("cat_ab", "to64"), ("site_w", "cpu"), ("ftree", "cpu"), ("gtr_rates", "cpu"), ("ctmc", "to64")):
        u = rng.choice(pool)
        handle([{"op": "evalall"}, {"op": "device", "target": tgt, "how": how}, dict(u)], "device-move", model=False)
    # evaluation under torch.no_grad(), with autograd enabled, and with leaves requiring grad must agree bitwise
    try:
        ga = Graph(G.initial_values(), flags_of_class)
        with torch.no_grad():
            va = ga.eval_all()
        vb = Graph(G.initial_values(), flags_of_class).eval_all()
        vc = Graph(G.initial_values(), flags_of_class, grads=[x for x in GRADABLE if x in G.LEAVES]).eval_all()
        bad = [ga.describe_cell(c) for c in range(len(ga.cells))
               if not (bitwise(va[c], vb[c]) and bitwise(vb[c], vc[c]))]
        ck.case(key=("grad-modes",), bucket="grad-modes", sample={"cells": len(ga.cells), "differing": bad[:5]})
        if bad:
            ck.mismatch("values differ between torch.no_grad(), autograd enabled and leaves requiring grad", bad[:10])
            found.setdefault("grad-mode:value", ({"class": "grad-mode", "kind": "value", "cells": bad[:10]}, [], False))
    except ExtractionError as e:
        ck.mismatch("graph extraction failed", str(e))
    # the plain TimeTreeModel seen only through node_heights by its coalescent
    for upd in ("assign", "inplace", "reassign"):
        v = value_for(g0, "heights3", rng)
        u = (gen_reassign(g0, rng, "heights3") if upd == "reassign" else
             {"op": upd, "target": "heights3", "value": v.reshape(-1).tolist(), "shape": list(v.shape)})
        ec = {"op": "eval", "node": "coal2", "cell": 0}
        handle([dict(ec), u, dict(ec)], "heights-only-observer")
        handle([dict(ec), u, {"op": "eval", "node": "ttree3", "cell": 1}, dict(ec)], "heights-only-observer")

    # ---- exhaustive short histories over a fixed operation alphabet on the tree-free sub-graph
    gs = Graph(G.initial_values(), flags_of_class, small=True)
    ck.extra["small_graph"] = {"nodes": len(gs.nodes), "cells": len(gs.cells), "classes": sorted(set(gs.cls))}
    alphabet = []
    for t in settable_ids(gs):
        v = value_for(gs, t, rng)
        alphabet.append({"op": "assign", "target": t, "value": v.reshape(-1).tolist(), "shape": list(v.shape)})
    for d in ("normal", "prior_kappa", "prior_tail"):
        alphabet.append({"op": "draw", "dist": d, "seed": rng.randrange(1 << 30), "rsample": False})
    for n, t in (("joint", 0), ("normal", 0), ("hky", 0), ("gtr", 0), ("cc", 0), ("kappa", 1), ("site_i", 0), ("cat_ab", 0)):
        alphabet.append({"op": "eval", "node": n, "cell": t})
    ck.extra["small_graph"]["alphabet"] = len(alphabet)
    import itertools

    depth2 = list(itertools.product(alphabet, repeat=2))
    if not ck.thorough():
        rng.shuffle(depth2)
        depth2 = depth2[:20]
    for i, (a, b) in enumerate(depth2):
        if i % 2 == 1:
            # DTYPE REGIME: torch's own default (float32) with float64 parameters, for every other history
            torch.set_default_dtype(torch.float32)
            _FRESH.clear()
        try:
            handle([dict(a), dict(b)], "exhaustive-small/len2" + ("/default-float32" if i % 2 else ""), small=True)
        finally:
            if i % 2 == 1:
                torch.set_default_dtype(torch.float64)
                _FRESH.clear()
        if not ck.thorough() and ck_time(ck) > 78:
            break
    if ck.thorough():
        upd = [o for o in alphabet if o["op"] != "eval"]
        core = upd[::2] + [o for o in alphabet if o["op"] == "eval"][:4]
        for tr in itertools.product(core, repeat=3):
            handle([dict(o) for o in tr], "exhaustive-small/len3", small=True)

    import c11_scan

    ck.extra["tensor_constructors_without_dtype_or_device"] = c11_scan.scan(REPO, [
        "torchtree/core/model.py", "torchtree/core/parametric.py", "torchtree/core/parameter.py", "torchtree/core/container.py",
        "torchtree/evolution/tree_model.py", "torchtree/evolution/site_model.py", "torchtree/distributions/tree_prior.py",
        "torchtree/evolution/substitution_model/codon.py"])
    if drv:
        drv.close()

    # ---- verdict
    for sig, (v, hist, on_small) in sorted(found.items()):
        if v["kind"] == "value":
            ck.violation(sig, f"values differ between grad modes: {v['cells']}", {"violation": v})
            continue
        what = (f"{v['class']}: " + (f"public operation ({v["op"]["op"]}) raises {v['exc'][0]} ({v['exc'][2]})" if v["kind"] == "raises"
                                     else f"{v['cell']} returns a cached value where a fresh copy with the same parameter values raises"
                                     if v["kind"] == "cached-where-fresh-raises"
                                     else f"{v['cell']} raises where a fresh copy with the same parameter values evaluates"
                                     if v["kind"] == "raises-where-fresh-evaluates"
                                     else f"{v['cell']} returns a stale value (also stale: {len(v['all']) - 1} downstream)")
                + f" after a history of {len(hist)} operation(s)")
        ck.violation(sig, what, {"history": hist, "small_graph": on_small, "violation": v, "broken_obligations": broken,
                                 "replay_cmd": "./check C11 --replay <this file>"})
    if not found and (not ok or ck.mismatches):
        ck.violation("C11:unproved", "C11 theorems or the model/implementation correspondence no longer check",
                     {"broken_obligations": broken, "mismatches": ck.mismatches[:3], "translator_notes": notes},
                     found_input=False)


_T_RUN = [None]


def ck_time(ck):
    """seconds spent on cases (waiting for the shared lake lock / the Lean build is not counted)"""
    import time

    return time.time() - (_T_RUN[0] or ck.t0)


def _short(o):
    d = {k: v for k, v in o.items() if k not in ("value", "shape", "seed")}
    return d


def replay(path: str) -> int:
    use_repo()
    torch = _torch()
    torch.set_num_threads(2)
    torch.set_default_dtype(torch.float64)
    obj = json.loads(Path(path).read_text())
    hist = obj.get("history")
    if not hist:
        print("replay names broken obligations only:", obj.get("broken_obligations"))
        return 1
    _, _, _, table = tr_wiring.translate(REPO)
    flags_of_class = {d["name"]: d["flags"] for d in table}
    r = run_history(flags_of_class, None, hist, want_model=False, small=bool(obj.get("small_graph")))
    rn = r["runner"]
    for i, ob in enumerate(rn.obs):
        op = r["done"][i - 1] if i else "(after construction)"
        print(f"step {i}: {_short(op) if i else op}")
        if ob["raised"]:
            print("   RAISED", ob["exc"])
        if ob["stale"]:
            print("   STALE (differs from a fresh rebuild with the same leaf values):",
                  [rn.g.describe_cell(c) for c in ob["stale"]])
    if r["violation"]:
        print("VIOLATES:", vio_sig(r["violation"]))
        return 1
    print("ok: no stale value, nothing raised")
    return 0
