"""C18 — a crash while writing a checkpoint never loses the last good checkpoint.

Lean side : TTGen/C18_SavePlan.lean regenerated from save_parameters' AST; theorems in
            TTProofs/Props/C18.lean (crash_safe_step by decide over 27 states x crash points,
            crash_safe_forever by induction over any number of interrupted writes).
Tie       : translator + exact correspondence: the real save_parameters runs in a forked child
            with open/write/close/rename/remove wrapped by the harness (not in /repo) and is
            SIGKILLed after the k-th operation; the surviving directory must classify exactly as
            the model predicts, and the operation trace must equal the model's effective ops.
Search    : the same crash enumeration with the property's own predicate on the real directory.
"""
from __future__ import annotations

import builtins
import errno
import re
import json
import os
import shutil
import signal
import sys
import tempfile
from pathlib import Path

from common import REPO, VERIF, Check, use_repo

sys.path.insert(0, str(VERIF / "harness" / "translators"))
import tr_saveparams  # noqa: E402
import tr_ckcallers  # noqa: E402

PATHS = ("name", "new", "old")
SUFF = {"name": "", "new": ".new", "old": ".old"}
CK = "checkpoint.json"
CKNAME = [CK]      # the configured checkpoint name (relative to the scratch directory)
LINK = [False]     # True: the configured name is a symbolic link run/checkpoint.json -> ../scratch/chain1.json
LINK_NAME, LINK_TARGET = "run/checkpoint.json", "scratch/chain1.json"
# other spellings of the configured name ({ABS} = the scratch directory itself): the siblings must be derived from the
# name as configured whatever it looks like
NAME_FORMS = ["ck pt \u00fc.json", "deep/er/checkpoint.json", "./checkpoint.json", "{ABS}/checkpoint.json",
              "state.old", "state.new", "checkpoint"]


def ckname(d) -> str:
    """the checkpoint name handed to the writer when the scratch directory is d"""
    return CKNAME[0].replace("{ABS}", str(d))


_PAY = {}
VARIANT = [0]  # 0: older generations serialise LONGER than newer ones; 1: shorter (a stale sibling that is
#                longer / shorter than the new payload exposes writes that do not truncate / that append)


def payload(gen: int) -> str:
    if WRITER[0] != "save_parameters":
        return _caller_payload(gen)
    key = (gen, VARIANT[0])
    if key not in _PAY:
        _PAY[key] = _payload(gen)
    return _PAY[key]


def _payload(gen: int) -> str:
    """the text a complete checkpoint of generation `gen` has on disk (as save_parameters writes it)"""
    use_repo()
    import torch
    from torchtree.core.parameter import Parameter
    from torchtree.core.parameter_encoder import ParameterEncoder

    ps = params(gen)
    return json.dumps(ps, cls=ParameterEncoder, indent=2)


def params(gen: int):
    import torch
    from torchtree.core.parameter import Parameter

    n = (8 - gen) if VARIANT[0] == 0 else (1 + gen)
    if VARIANT[0] == 2:  # a payload of several hundred kB: many write() system calls per checkpoint
        n = 30000 + gen
    return [
        Parameter("p", torch.tensor([float(gen) + 0.125 * i for i in range(max(n, 1))], dtype=torch.float64)),
        Parameter("q", torch.tensor([[gen, gen + 1]], dtype=torch.int64)),
    ]


def materialise(d: Path, st: str, gen_of: dict):
    """create directory state `st` (3 letters C/T/A for name,new,old); complete files carry the
    generation given in gen_of"""
    if LINK[0]:
        (d / "run").mkdir(exist_ok=True)
        (d / "scratch").mkdir(exist_ok=True)
    for ch, p in zip(st, PATHS):
        f = d / (ckname(d) + SUFF[p])
        f.parent.mkdir(parents=True, exist_ok=True)
        if os.path.lexists(f):
            f.unlink()
        if ch == "A":
            continue
        txt = payload(gen_of[p])
        if LINK[0] and p == "name":  # the checkpoint is reached through a symbolic link
            (d / LINK_TARGET).write_text(txt if ch == "C" else txt[: len(txt) // 2])
            os.symlink("../" + LINK_TARGET, f)
        else:
            f.write_text(txt if ch == "C" else txt[: len(txt) // 2])


def classify(d: Path, max_gen: int):
    """-> (3-letter state, {path: generation of complete files})"""
    wholes = {payload(g): g for g in range(0, max_gen + 1)}
    st, gens = "", {}
    for p in PATHS:
        f = d / (ckname(d) + SUFF[p])
        if not os.path.lexists(f):
            st += "A"
            continue
        try:
            txt = f.read_text()
        except OSError:  # e.g. a dangling symbolic link: the name exists but refers to no complete file
            st += "T"
            continue
        if txt in wholes:
            try:
                json.loads(txt)
                st += "C"
                gens[p] = wholes[txt]
                continue
            except ValueError:
                pass
        if WRITER[0].endswith(".run"):
            # a whole run writes checkpoints whose text depends on the run's state: complete = parses as the JSON list
            # a checkpoint is (json.dump output cut anywhere before its end does not parse)
            try:
                if isinstance(json.loads(txt), list):
                    st += "C"
                    gens[p] = -1
                    continue
            except ValueError:
                pass
        st += "T"
    return st, gens


def which(path: str):
    b = os.path.basename(str(path))
    for p in PATHS:
        if b == CK + SUFF[p]:
            return p
    return None


FLAGS = [(True, False)]  # (safely, overwrite) handed to save_parameters by run_write when not given explicitly


def run_write(d: Path, gen: int, kill_after: int | None, flags=None, fail_at: int | None = None):
    """run the REAL save_parameters(name, params(gen)) in a forked child, in directory d;
    SIGKILL the child right after its `kill_after`-th file-system operation (None: run to the end).
    fail_at = i: the i-th ATTEMPTED write / rename / replace / remove / unlink / open-for-writing raises OSError(EIO)
    instead of being performed (an I/O error the process survives; recorded as the event "!:<op>").
    Returns (events, status) where events is the list of operations performed."""
    if flags is None:
        flags = FLAGS[0]
    r, w = os.pipe()
    pid = os.fork()
    if pid == 0:
        try:
            os.close(r)
            os.chdir(d)
            count = [0]
            attempts = [0]

            def attempt(what):
                attempts[0] += 1
                if fail_at is not None and attempts[0] == fail_at:
                    emit("!:" + what)
                    raise OSError(errno.EIO, "injected I/O error", what)

            def emit(ev):
                count[0] += 1
                os.write(w, (ev + "\n").encode())
                if kill_after is not None and count[0] >= kill_after:
                    os.kill(os.getpid(), signal.SIGKILL)

            real_open = builtins.open
            real_rename, real_replace, real_remove, real_unlink = os.rename, os.replace, os.remove, os.unlink

            class Proxy:
                def __init__(self, f, p):
                    self.f, self.p = f, p

                def write(self, s):
                    attempt("W:" + self.p)
                    n = self.f.write(s)
                    emit("W:" + self.p)
                    return n

                def close(self):
                    self.f.close()
                    emit("F:" + self.p)

                def flush(self):
                    return self.f.flush()

                def __getattr__(self, name):  # fileno, writelines, … behave as on the real file
                    return getattr(self.f, name)

                def __enter__(self):
                    return self

                def __exit__(self, *a):
                    self.close()
                    return False

            def my_open(file, mode="r", *a, **k):
                p = which(file) if isinstance(file, (str, os.PathLike)) else None
                if p is not None and "w" in mode:
                    attempt("O:" + p)
                    f = real_open(file, mode, *a, **k)
                    emit("O:" + p)
                    return Proxy(f, p)
                return real_open(file, mode, *a, **k)

            def my_rename(a, b, *x, **k):
                attempt(f"R:{which(a)}>{which(b)}")
                real_rename(a, b, *x, **k)
                emit(f"R:{which(a)}>{which(b)}")

            def my_replace(a, b, *x, **k):
                attempt(f"R:{which(a)}>{which(b)}")
                real_replace(a, b, *x, **k)
                emit(f"R:{which(a)}>{which(b)}")

            def my_remove(a, *x, **k):
                attempt(f"X:{which(a)}")
                real_remove(a, *x, **k)
                emit(f"X:{which(a)}")

            def my_unlink(a, *x, **k):
                attempt(f"X:{which(a)}")
                real_unlink(a, *x, **k)
                emit(f"X:{which(a)}")

            real_os_open, real_fdopen = os.open, os.fdopen
            fds = {}

            def my_os_open(path, fl, *a, **k):
                fd = real_os_open(path, fl, *a, **k)
                p = which(path) if isinstance(path, (str, os.PathLike)) else None
                if p is not None and (fl & (os.O_WRONLY | os.O_RDWR)):
                    fds[fd] = p
                    # "o:" = opened for writing WITHOUT truncation: no such operation in the model
                    emit(("O:" if fl & os.O_TRUNC else "o:") + p)
                return fd

            def my_fdopen(fd, *a, **k):
                f = real_fdopen(fd, *a, **k)
                return Proxy(f, fds[fd]) if fd in fds else f

            builtins.open = my_open
            os.open, os.fdopen = my_os_open, my_fdopen
            os.rename, os.replace, os.remove, os.unlink = my_rename, my_replace, my_remove, my_unlink
            import torchtree.core.parameter_utils as pu

            try:
                if WRITER[0] == "save_parameters":
                    pu.save_parameters(CK, params(gen), safely=flags[0], overwrite=flags[1])
                else:
                    _caller_write(WRITER[0], gen)
                os.write(w, b"END\n")
            except BaseException as e:  # the operation raised (e.g. rename of a missing file)
                os.write(w, f"EXC:{type(e).__name__}\n".encode())
        finally:
            os._exit(0)
    os.close(w)
    data = b""
    while True:
        chunk = os.read(r, 65536)
        if not chunk:
            break
        data += chunk
    os.close(r)
    _, status = os.waitpid(pid, 0)
    lines = data.decode().split()
    tail = lines[-1] if lines and (lines[-1] == "END" or lines[-1].startswith("EXC")) else None
    events = [l for l in lines if l != tail]
    return events, tail


WRITER = ["save_parameters"]  # or "Optimizer.save_full_state" / "MCMC.save_full_state" / "Optimizer.run" / "MCMC.run"
RUN_ITERS = [1]  # iterations (= periodic checkpoints) of the `.run` writers


def _caller_obj(kind: str, gen: int):
    """a real Optimizer / MCMC object whose checkpoint is CK and whose state depends on `gen`"""
    import torch

    ps = params(gen)
    if kind.endswith(".from_json") or kind.endswith(".run"):
        # built exactly as torchtree builds them from a configuration file, checkpoint option = configured name;
        # the `.run` kinds checkpoint after every iteration and are driven through their public run()
        runs = kind.endswith(".run")
        from torchtree.core.utils import process_objects

        n = (8 - gen) if VARIANT[0] == 0 else (1 + gen)
        x = [float(gen) + 0.125 * i for i in range(max(n, 1))]
        if runs:
            x = x[:1]  # Optimizer.run differentiates the loss: one element
        spec = [
            {"id": "joint", "type": "torchtree.distributions.Distribution", "distribution": "torch.distributions.Normal",
             "x": {"id": "x", "type": "torchtree.Parameter", "tensor": x, "dtype": "torch.float64"},
             "parameters": {"loc": 0.0, "scale": 1.0}},
            {"id": "jj", "type": "torchtree.distributions.joint_distribution.JointDistributionModel",
             "distributions": ["joint"]},  # a scalar target, as MCMC.run prints it
            {"id": "mcmc", "type": "torchtree.inference.mcmc.mcmc.MCMC", "joint": "jj" if runs else "joint", "iterations": RUN_ITERS[0] if runs else 3,
             "operators": [{"id": "op", "type": "torchtree.inference.mcmc.operator.ScalerOperator", "parameters": ["x"],
                            "weight": 1.0, "scaler": 0.5}], "checkpoint": ckname(os.getcwd()),
             **({"checkpoint_frequency": 1} if runs else {})},
            {"id": "opt", "type": "torchtree.optim.optimizer.Optimizer", "algorithm": "torch.optim.SGD",
             "options": {"lr": 0.5}, "loss": "joint", "parameters": ["x"], "iterations": RUN_ITERS[0] if runs else 3,
             "checkpoint": ckname(os.getcwd()), **({"checkpoint_frequency": 1} if runs else {})},
        ]
        dic = {}
        for o in spec:
            process_objects(o, dic)
        obj = dic["mcmc" if kind.startswith("MCMC") else "opt"]
        if not runs:  # a run starts at its own first iteration
            obj._epoch = gen
        return obj
    if kind == "Optimizer.save_full_state":
        from torchtree.optim.optimizer import Optimizer

        opt = torch.optim.SGD([p.tensor for p in ps[:1]], lr=0.5)
        o = Optimizer("opt", ps, None, opt, 10, checkpoint=ckname(os.getcwd()))
        o._epoch = gen
        return o
    from torchtree.inference.mcmc.mcmc import MCMC

    m = MCMC("mcmc", None, [], 10, checkpoint=ckname(os.getcwd()))
    m.parameters = ps
    m._epoch = gen
    return m


def _caller_write(kind: str, gen: int):
    o = _caller_obj(kind, gen)
    if kind.endswith(".run"):
        import contextlib
        import io

        with contextlib.redirect_stdout(io.StringIO()):
            o.run()  # the whole public run: start-up, every periodic checkpoint, shut-down
    elif kind.startswith("Optimizer"):
        o.save_full_state(o.checkpoint)  # as Optimizer._run calls it
    else:
        o.save_full_state()


_CPAY = {}


def _caller_payload(gen: int) -> str:
    """what a complete checkpoint written by the current caller looks like"""
    key = (WRITER[0], gen, VARIANT[0], CKNAME[0])
    if key not in _CPAY:
        from torchtree.core.parameter_encoder import ParameterEncoder

        o = _caller_obj(WRITER[0], gen)
        st = {"id": o.id, "type": WRITER[0].split(".")[0]}
        st.update(o.state_dict())
        _CPAY[key] = json.dumps([st] + o.parameters, cls=ParameterEncoder, indent=2)
    return _CPAY[key]


SYSCALLS = "openat,open,creat,write,pwrite64,writev,rename,renameat,renameat2,unlink,unlinkat,link,linkat,truncate,ftruncate,close"


def run_write_strace(d: Path, gen: int, when):
    """Syscall-level crash: run the real writer in a forked child traced by `strace -p`, which delivers SIGKILL on
    entry of the i-th invocation of system call `name` for when = (name, i) (strace counts invocations per system
    call); when = None: trace only. Returns (list of file-related system calls made, end marker).
    Independent of which Python API the implementation uses to touch the files."""
    import subprocess

    r, w = os.pipe()
    pid = os.fork()
    if pid == 0:
        try:
            os.close(r)
            os.chdir(d)
            os.kill(os.getpid(), signal.SIGSTOP)  # wait for the tracer
            import torchtree.core.parameter_utils as pu

            try:
                if WRITER[0] == "save_parameters":
                    pu.save_parameters(ckname(d), params(gen))
                else:
                    _caller_write(WRITER[0], gen)
                os.write(w, b"END")
            except BaseException as e:  # noqa: BLE001
                os.write(w, f"EXC:{type(e).__name__}".encode())
        finally:
            os._exit(0)
    os.close(w)
    os.waitpid(pid, os.WUNTRACED)
    log = d.parent / f"strace-{pid}.log"
    cmd = ["strace", "-q", "-p", str(pid), "-e", "trace=" + SYSCALLS, "-o", str(log)]
    if when is not None:
        cmd += ["-e", f"inject={when[0]}:signal=SIGKILL:when={when[1]}"]
    tr = subprocess.Popen(cmd, stderr=subprocess.PIPE, text=True)
    # strace announces the attachment on stderr unless -q: poll /proc for the tracer instead
    import time as _t

    for _ in range(400):
        try:
            st = open(f"/proc/{pid}/status").read()
            if "TracerPid:\t0" not in st:
                break
        except OSError:
            break
        _t.sleep(0.005)
    os.kill(pid, signal.SIGCONT)
    data = b""
    while True:
        chunk = os.read(r, 4096)
        if not chunk:
            break
        data += chunk
    os.close(r)
    try:
        os.waitpid(pid, 0)
    except ChildProcessError:
        pass
    try:
        tr.wait(timeout=20)
    except subprocess.TimeoutExpired:
        tr.kill()
    calls = []
    if log.exists():
        for l in log.read_text().splitlines():
            m = re.match(r"(?:\d+\s+)?([a-z0-9_]+)\(", l)
            if m:
                calls.append(m.group(1))
        log.unlink()
    return calls, data.decode()


def explore_syscalls(ck: Check, writer: str, states, tmp_root: Path, worst: list, depth: int, variant: int = 0,
                     sample_writes: bool = False):
    """syscall-level crash enumeration (strace fault injection) with the property's predicate only;
    sample_writes: of the write() invocations only the first two, the middle one and the last two are crash points
    (large payloads make hundreds of them)"""
    import shutil as _sh

    if _sh.which("strace") is None:
        ck.notes.append("strace not available: syscall-level crash enumeration skipped")
        return
    WRITER[0], VARIANT[0] = writer, variant
    form = CKNAME[0] if CKNAME[0] not in (CK, LINK_NAME) else None
    tag = ("-symlink" if LINK[0] else "") + ("-nameform" if form else "") + ("-large" if variant == 2 else "")
    frontier = []
    for st in states:
        d0 = Path(tempfile.mkdtemp(prefix="y-", dir=tmp_root))
        materialise(d0, st, GEN0)
        frontier.append((d0, st, []))
    gen = FIRST_GEN
    for level in range(1, depth + 1):
        nxt, seen = [], set()
        for d, st, hist in frontier:
            _st0, gens0 = classify(d, gen)
            calls, tail = run_write_strace(_clone(d, tmp_root), gen, None)
            if not calls:
                ck.notes.append("strace saw no system call (ptrace not permitted?): syscall-level enumeration skipped")
                return
            if writer.endswith(".run") and tail.startswith("EXC"):
                # the uninterrupted run raised: nothing about its checkpoints was observed
                ck.mismatch("the algorithm's run() raised when driven as a writer", {"writer": writer, "from": st, "error": tail})
                continue
            points, count = [], {}
            for c in calls:  # crash before the i-th invocation of each traced call, in program order
                count[c] = count.get(c, 0) + 1
                points.append((c, count[c]))
            if sample_writes:
                nw = count.get("write", 0)
                keep = {1, 2, (nw + 1) // 2, nw - 1, nw}
                points = [pt for pt in points if pt[0] != "write" or pt[1] in keep]
            for n, pt in enumerate(points + [None], 1):
                d2 = _clone(d, tmp_root)
                run_write_strace(d2, gen, pt)
                got_st, _g = classify(d2, gen + 1)
                h2 = hist + [{"from": st, "kill_before_syscall": list(pt) if pt else None, "position": n,
                              "writer": writer, "variant": variant, "mode": "strace", "symlinked_name": LINK[0],
                              "name_form": form, **({"run_iterations": RUN_ITERS[0]} if writer.endswith(".run") else {})}]
                ck.case(key=("sys", writer, LINK[0], form, variant, st, tuple(str(h.get("kill_before_syscall")) for h in h2)),
                        sample={"writer": writer, "initial": st, "kill_before_syscall": pt, "syscalls": calls,
                                "dir_after": got_st} if level == 1 and n == 2 else None,
                        bucket=f"{writer}/syscall{tag}/depth{level}")
                if not safe_pred(got_st):
                    worst.append((h2, got_st))
                elif not writer.endswith(".run"):
                    gen_check(ck, None, worst, h2, st, gens0, got_st, _g, gen)
                if level < depth and got_st not in seen and pt is not None:
                    seen.add(got_st)
                    nxt.append((d2, got_st, h2))
                else:
                    shutil.rmtree(d2, ignore_errors=True)
            shutil.rmtree(d, ignore_errors=True)
        frontier = nxt
        gen += 1
    for d, _s, _h in frontier:
        shutil.rmtree(d, ignore_errors=True)


def derive_plan_from_behaviour(tmp_root: Path):
    """Fallback when the AST reader does not recognise save_parameters (a deep but possibly harmless rewrite): the
    write program as a FUNCTION of the abstract directory state is observed exhaustively — all 27 states x the 4 flag
    combinations are run on the real function and the operation traces recorded — and emitted as a `Prog` that tests
    which of the three files exist and then performs the observed operations. The abstract domain is finite, so the
    derived program is exact for the model; it is refused (-> None) when a trace depends on anything but the flags
    and on which files exist, or contains an operation the model does not have. The syscall-level enumeration and
    the directory-state correspondence stay independent of it."""
    pat = re.compile(r"^(O|W|F|X):(name|new|old)$|^R:(name|new|old)>(name|new|old)$")

    def lean_op(e):
        k, rest = e.split(":", 1)
        if k == "R":
            a, b = rest.split(">")
            return f"(.rename .{a} .{b})"
        return {"O": "(.openTrunc .", "W": "(.writeChunk .", "F": "(.finishWrite .", "X": "(.remove ."}[k] + rest + ")"

    WRITER[0], VARIANT[0] = "save_parameters", 0
    trees = {}
    for fl in [(True, False), (True, True), (False, False), (False, True)]:
        leaves = {}
        for st in [a + b + c for a in "ATC" for b in "ATC" for c in "ATC"]:
            d = Path(tempfile.mkdtemp(prefix="p-", dir=tmp_root))
            materialise(d, st, GEN0)
            events, _tail = run_write(d, FIRST_GEN, None, flags=fl)
            shutil.rmtree(d, ignore_errors=True)
            ops = collapse(events)
            if not all(pat.match(e) for e in ops):
                return None, f"unmodelled operation in {ops} from {st} with flags {fl}"
            key = tuple(ch != "A" for ch in st)
            if leaves.setdefault(key, ops) != ops:
                return None, f"the operations depend on more than which files exist ({st}, flags {fl})"

        def leaf(key):
            out = ".done"
            for e in reversed(leaves[key]):
                out = f"(.seq {lean_op(e)} {out})"
            return out

        def tree(prefix):
            if len(prefix) == 3:
                return leaf(tuple(prefix))
            p = PATHS[len(prefix)]
            return f"(.ite (.pathExists .{p})\n  {tree(prefix + [True])}\n  {tree(prefix + [False])})"

        trees[fl] = tree([])
    prog = (f"(.ite .overwrite\n (.ite .safely {trees[(True, True)]} {trees[(False, True)]})\n"
            f" (.ite .safely {trees[(True, False)]} {trees[(False, False)]}))")
    lean = (
        "import TTModel.FS\n"
        "/-! GENERATED by harness/c18.py:derive_plan_from_behaviour — the AST reader (tr_saveparams.py) did not recognise\n"
        "    save_parameters; this program is the operation trace of the REAL function observed exhaustively over the 27\n"
        "    abstract directory states x 4 flag combinations — do not edit.\n-/\n"
        "namespace TTGen.C18_SavePlan\nopen TT.FS\n\n"
        "def translatorOk : Bool := true\n\n"
        f"def prog : Prog :=\n  {prog}\n\n"
        "end TTGen.C18_SavePlan\n"
    )
    return lean, ""


def collapse(events):
    """consecutive W:p events -> one (the model's writeChunk stands for any number of them)"""
    out = []
    for e in events:
        if e.startswith("W:") and out and out[-1] == e:
            continue
        out.append(e)
    return out


def kill_points(events):
    """indices (1-based count of operations) after which to crash: every non-write operation, and
    the first, a middle and the last partial write"""
    pts = set()
    ws = [i for i, e in enumerate(events, 1) if e.startswith("W:")]
    for i, e in enumerate(events, 1):
        if not e.startswith("W:"):
            pts.add(i)
    for grp in _groups(ws):
        pts.update({grp[0], grp[len(grp) // 2], grp[-1]})
    pts.add(0)
    return sorted(pts)


def _groups(idx):
    out, cur = [], []
    for i in idx:
        if cur and i != cur[-1] + 1:
            out.append(cur)
            cur = []
        cur.append(i)
    if cur:
        out.append(cur)
    return out


def explore_faults(ck: Check, writer: str, states, tmp_root: Path, worst: list):
    """I/O errors the process SURVIVES: the i-th attempted file operation raises OSError instead of being
    performed. Whatever the implementation then does (propagate, clean up, fall back to another way of writing),
    the directory must stay safe at the end and at every crash point of what it does after the error, the restart
    checkpoint must be the previous or the new generation, and the next uninterrupted write must install itself."""
    WRITER[0], VARIANT[0] = writer, 0
    for st in states:
        d0 = Path(tempfile.mkdtemp(prefix="f-", dir=tmp_root))
        materialise(d0, st, GEN0)
        gens0 = {p: GEN0[p] for ch, p in zip(st, PATHS) if ch == "C"}
        full_events, _tail = run_write(_clone(d0, tmp_root), FIRST_GEN, None)
        n_attempts = sum(1 for e in full_events if e[0] in "OWRX")
        # first / middle / last write attempts only; every other attempt
        w_idx = [i for i, e in enumerate([e for e in full_events if e[0] in "OWRX"], 1) if e[0] == "W"]
        keep_w = {w_idx[0], w_idx[len(w_idx) // 2], w_idx[-1]} if w_idx else set()
        for i in range(1, n_attempts + 1):
            if i in w_idx and i not in keep_w:
                continue
            d = _clone(d0, tmp_root)
            events, tail = run_write(d, FIRST_GEN, None, fail_at=i)
            got_st, g = classify(d, FIRST_GEN + 1)
            hist = [{"from": st, "fail_at": i, "kill_after": None, "events": events, "writer": writer, "variant": 0,
                     "mode": "io-error"}]
            ck.case(key=("fault", writer, st, i), bucket=f"{writer}/io-error",
                    sample={"writer": writer, "initial": st, "failing_attempt": i, "events": collapse([e for e in events if e[0] != "!"]),
                            "ended": tail, "dir_after": got_st} if i == 2 else None)
            if not safe_pred(got_st):
                worst.append((hist, got_st))
            else:
                gen_check(ck, None, worst, hist, st, gens0, got_st, g, FIRST_GEN)
            # crash points of whatever the implementation does AFTER the error
            pos = next((n for n, e in enumerate(events, 1) if e[0] == "!"), None)
            if pos is not None:
                for k in range(pos + 1, len(events) + 1):
                    d2 = _clone(d0, tmp_root)
                    ev2, _t = run_write(d2, FIRST_GEN, k, fail_at=i)
                    st2, g2 = classify(d2, FIRST_GEN + 1)
                    h2 = [dict(hist[0], kill_after=k, events=ev2)]
                    ck.case(key=("fault", writer, st, i, k), bucket=f"{writer}/io-error+crash")
                    if not safe_pred(st2):
                        worst.append((h2, st2))
                    else:
                        gen_check(ck, None, worst, h2, st, gens0, st2, g2, FIRST_GEN)
                    shutil.rmtree(d2, ignore_errors=True)
            # the next write, uninterrupted, must install itself
            if safe_pred(got_st) and inv_pred(got_st):
                run_write(d, FIRST_GEN + 1, None)
                st3, g3 = classify(d, FIRST_GEN + 2)
                if st3[0] != "C" or g3.get("name") != FIRST_GEN + 1:
                    worst.append((hist + [{"from": got_st, "kill_after": None, "writer": writer, "variant": 0}], st3,
                                  f"after an I/O error at attempt {i} the next complete write did not install generation {FIRST_GEN + 1}"))
            shutil.rmtree(d, ignore_errors=True)
        shutil.rmtree(d0, ignore_errors=True)


GEN0 = {"name": 2, "new": 0, "old": 1}  # generations of the files a scenario starts with (all distinct)
FIRST_GEN = 3                            # generation of the first checkpoint written on top of them


def best_of(st: str, gens: dict):
    """the generation a restart would use: the file under the name if complete, else .old"""
    if st[0] == "C":
        return gens.get("name")
    if st[2] == "C":
        return gens.get("old")
    return None


def tagged(st: str, gens: dict) -> str:
    """directory state with generations, as the driver's tagged commands spell it"""
    return " ".join(str(gens[p]) if ch == "C" else ch for ch, p in zip(st, PATHS))


def gen_check(ck, drv, worst, hist, st0, gens0, st1, gens1, gen, events=None):
    """generation-level checks after one (interrupted) write of generation `gen`:
    the property on the real directory (restart checkpoint = previous or new, no other payload appears) and,
    when the python-level operation trace is known, the tagged model's prediction"""
    if not inv_pred(st0):
        return
    b0, b1 = best_of(st0, gens0), best_of(st1, gens1)
    known = set(gens0.values()) | {gen}
    if inv_pred(st1) and b1 not in (b0, gen):
        worst.append((hist, st1, f"the checkpoint a restart would use went from generation {b0} to generation {b1} "
                                  f"while generation {gen} was being written"))
    elif any(g not in known for g in gens1.values()):
        worst.append((hist, st1, f"a complete file holds generation {sorted(set(gens1.values()) - known)} which was "
                                  f"neither on disk before nor being written"))
    if drv and events is not None:
        rep = drv.ask(f"trun {gen} {tagged(st0, gens0)}" + "".join(" " + e for e in collapse(events)))
        want = tagged(st1, gens1).replace(" ", ",") + " best " + (str(b1) if b1 is not None else "-")
        if rep != want:
            ck.mismatch("generations after crash differ from the tagged model",
                        {"history": hist, "impl": want, "model": rep})


def safe_pred(st: str) -> bool:
    return ("C" in st) and st[0] != "T"


def inv_pred(st: str) -> bool:
    return (st[0] == "C" or st[2] == "C") and st[0] != "T"


def explore(ck: Check, drv, writer: str, variant: int, depth: int, states, tmp_root: Path, worst: list):
    """crash enumeration of the real `writer` from `states`, histories up to `depth` consecutive interrupted
    writes; compares with the model (driver) and evaluates the property's predicate on the real directory"""
    WRITER[0], VARIANT[0] = writer, variant
    tag = f"{writer}/v{variant}"
    frontier = []
    for st in states:
        d0 = Path(tempfile.mkdtemp(prefix="b-", dir=tmp_root))
        materialise(d0, st, GEN0)
        full_events, tail = run_write(_clone(d0, tmp_root), FIRST_GEN, None)
        gens0 = {p: GEN0[p] for ch, p in zip(st, PATHS) if ch == "C"}
        pred_ops = None
        if drv:
            rep = drv.ask(f"prog 1 0 {st}")
            if rep != "bad-op":
                body = rep.split(" states ")[0][4:]
                pred_ops = body.split(";") if body else []
        if pred_ops is not None:
            got = collapse(full_events)
            model_raises = _raises(drv, st, pred_ops)
            want = pred_ops[:-1] if model_raises else pred_ops
            if got != want or (tail != "END") != model_raises:
                ck.mismatch("operation trace differs from generated plan",
                            {"writer": writer, "state": st, "impl": got, "impl_end": tail, "model": pred_ops})
        for k in kill_points(full_events) + [None]:
            d = _clone(d0, tmp_root)
            events, _t = run_write(d, FIRST_GEN, k) if k != 0 else ([], None)
            got_st, _g = classify(d, FIRST_GEN + 1)
            hist = [{"from": st, "kill_after": k, "events": events, "writer": writer, "variant": variant}]
            ck.case(key=(tag, st, k), nontrivial=k != 0,
                    sample={"writer": writer, "initial": st, "crash_after_op": k, "ops": collapse(events), "dir_after": got_st},
                    bucket=f"{tag}/depth1/{'inv' if inv_pred(st) else 'noinv'}")
            if drv:
                rep = drv.ask("run " + st + "".join(" " + e for e in collapse(events)))
                if rep == "bad-op" or rep.split()[-1] != got_st:
                    ck.mismatch("directory state after crash differs from model",
                                {"history": hist, "impl": got_st, "model": rep})
            if inv_pred(st):
                if not safe_pred(got_st):
                    worst.append((hist, got_st))
                else:
                    gen_check(ck, drv, worst, hist, st, gens0, got_st, _g, FIRST_GEN, events)
                if st[0] == "C" and k is not None and depth > 1:
                    frontier.append((d, got_st, hist))
                    continue
            shutil.rmtree(d, ignore_errors=True)
        shutil.rmtree(d0, ignore_errors=True)
    gen = FIRST_GEN + 1
    for level in range(2, depth + 1):
        nxt, seen = [], set()
        for d, st, hist in frontier:
            _st0, gens0 = classify(d, gen)
            keyh = (tag, st, tuple((h["from"], h["kill_after"]) for h in hist))
            full_events, _ = run_write(_clone(d, tmp_root), gen, None)
            for k in kill_points(full_events) + [None]:
                if k == 0:
                    continue
                d2 = _clone(d, tmp_root)
                events, _t = run_write(d2, gen, k)
                got_st, _g = classify(d2, gen + 1)
                h2 = hist + [{"from": st, "kill_after": k, "events": events, "writer": writer, "variant": variant}]
                ck.case(key=keyh + (k,), bucket=f"{tag}/depth{level}")
                if drv:
                    rep = drv.ask("run " + st + "".join(" " + e for e in collapse(events)))
                    if rep == "bad-op" or rep.split()[-1] != got_st:
                        ck.mismatch("directory state after crash differs from model",
                                    {"history": h2, "impl": got_st, "model": rep})
                if not safe_pred(got_st):
                    worst.append((h2, got_st))
                else:
                    gen_check(ck, drv, worst, h2, st, gens0, got_st, _g, gen, events)
                # continue only from abstractly new states: the model is a function of the abstract state and the
                # correspondence above checks that the implementation is too
                if level < depth and k is not None and got_st not in seen:
                    seen.add(got_st)
                    nxt.append((d2, got_st, h2))
                else:
                    shutil.rmtree(d2, ignore_errors=True)
            shutil.rmtree(d, ignore_errors=True)
        frontier = nxt
        gen += 1
    for d, _s, _h in frontier:
        shutil.rmtree(d, ignore_errors=True)


def run(ck: Check):
    ck.rule = (
        "one case = one (writer, initial directory state, history of writes, crash point) executed by the REAL "
        "save_parameters / Optimizer.save_full_state / MCMC.save_full_state in a forked child SIGKILLed after its "
        "k-th file-system operation; distinct = distinct (writer, payload variant, initial state, crash history); "
        "non-trivial = at least one operation executed before the crash"
    )
    ck.assumptions += [
        "POSIX rename/remove are atomic; a file opened with 'w' is truncated from that instant; data reach the "
        "file no later than close (a crash before close leaves a truncated file) — modelled, not verified",
        "file contents are abstracted to absent / truncated / complete(generation)",
        "the theorems cover the default flags safely=True, overwrite=False; callers_use_safe_flags (generated call-site "
        "table) shows every call that rewrites the run's checkpoint file uses them; per-epoch files (checkpoint_all) "
        "are written once each and are outside the property",
    ]
    lean_src, tr_ok, note = tr_saveparams.translate(REPO)
    callers_src, c_ok, c_notes, sites = tr_ckcallers.translate(REPO)
    ck.extra["plan_source"] = "source (AST)"
    if not tr_ok:
        ck.notes.append("translator: " + note)
        # a deep rewrite the AST reader cannot follow: derive the program from exhaustive observation instead
        _root = Path(tempfile.mkdtemp(prefix="c18p-"))
        try:
            derived, why = derive_plan_from_behaviour(_root)
        except Exception as e:  # noqa: BLE001
            derived, why = None, f"{type(e).__name__}: {e}"
        finally:
            shutil.rmtree(_root, ignore_errors=True)
        if derived is not None:
            lean_src, tr_ok = derived, True
            ck.extra["plan_source"] = "behaviour (27 states x 4 flag combinations observed on the real function)"
            ck.notes.append("the write program was derived from exhaustive observation of save_parameters")
        else:
            ck.notes.append("behavioural derivation refused: " + why)
    if not c_ok:
        ck.notes.append("caller scan: " + "; ".join(c_notes))
    ok, broken = ck.lean_side(
        {"TTGen/C18_SavePlan.lean": lean_src, "TTGen/C18_Callers.lean": callers_src},
        ["TTGen.C18_SavePlan", "TTGen.C18_Callers", "TTProofs.Props.C18", "drv_c18"], "TTProofs/Props/C18.lean",
    )
    ck.extra["translator_recognised_source"] = tr_ok
    ck.extra["call_sites"] = [list(map(str, x)) for x in sites]
    # call sites that rewrite the run's checkpoint file with other flags than (safely=True, overwrite=False), or
    # with flags that cannot be resolved statically: what such a call does to an existing checkpoint is searched below
    unsafe_sites = [(l, sf_, o_) for l, same, sf_, o_ in sites if same and not (sf_ is True and o_ is False)]

    drv = None
    try:
        drv = ck.driver("drv_c18")
    except Exception as e:  # driver may be unbuildable when the generated file is broken
        ck.notes.append(f"driver unavailable: {e}")

    all_states = [a + b + c for a in "ATC" for b in "ATC" for c in "ATC"]
    depth = 3 if ck.thorough() else 2
    tmp_root = Path(tempfile.mkdtemp(prefix="c18-"))
    worst = []  # failing histories on the implementation
    try:
        explore(ck, drv, "save_parameters", 0, depth, all_states, tmp_root, worst)
        explore(ck, drv, "save_parameters", 1, 1, all_states, tmp_root, worst)
        inv_states = [s for s in all_states if inv_pred(s)]
        for writer in ("Optimizer.save_full_state", "MCMC.save_full_state"):
            try:
                explore(ck, drv, writer, 0, 2 if ck.thorough() else 1, inv_states, tmp_root, worst)
            except Exception as e:  # the caller could not be constructed/driven: correspondence broken, not a crash
                ck.mismatch("caller could not be driven", {"writer": writer, "error": f"{type(e).__name__}: {e}"})
        # a caller that reaches save_parameters with unsafe flags on the run's checkpoint file: crash enumeration of
        # exactly that write (the flags as resolved at the call site; unresolved ones are tried both ways)
        for label, sf_, o_ in unsafe_sites[:4]:
            for fl in [(a, b) for a in ([sf_] if sf_ is not None else [True, False])
                       for b in ([o_] if o_ is not None else [False, True])]:
                if fl == (True, False):
                    continue
                w0 = len(worst)
                try:
                    FLAGS[0] = fl
                    explore(ck, None, "save_parameters", 0, 1, ["CAA", "CCC"], tmp_root, worst)
                finally:
                    FLAGS[0] = (True, False)
                for k in range(w0, len(worst)):
                    h = worst[k][0]
                    for step in h:
                        step["flags"] = list(fl)
                        step["call_site"] = label
                    why = (f"the call site {label} rewrites the checkpoint file with safely={fl[0]}, overwrite={fl[1]}: "
                           + ("the checkpoint name refers to a truncated file" if worst[k][1][0] == "T" else "no complete checkpoint survives"))
                    worst[k] = (h, worst[k][1], why)
        # I/O errors the process survives (the i-th attempted operation raises), then crash points of the aftermath
        for writer in ("save_parameters", "MCMC.save_full_state"):
            try:
                explore_faults(ck, writer, inv_states if ck.thorough() else ["CAA", "CCC", "ACC", "CAT", "ATC"], tmp_root, worst)
            except Exception as e:  # noqa: BLE001
                ck.mismatch("writer could not be driven under I/O errors", {"writer": writer, "error": f"{type(e).__name__}: {e}"})
        # API-independent crash points: SIGKILL injected by strace at every file-related system call
        sys_states = ["CAA", "CCC", "ACC"] if not ck.thorough() else [s for s in all_states if inv_pred(s)]
        for writer in ("save_parameters", "Optimizer.save_full_state", "MCMC.save_full_state"):
            try:
                explore_syscalls(ck, writer, sys_states, tmp_root, worst, 2 if ck.thorough() or writer == "save_parameters" else 1)
            except Exception as e:  # noqa: BLE001
                ck.notes.append(f"syscall-level enumeration failed for {writer}: {type(e).__name__}: {e}")
        # the configured name is a symbolic link; writers built through from_json as torchtree builds them
        try:
            LINK[0], CKNAME[0] = True, LINK_NAME
            for writer in ("MCMC.from_json", "Optimizer.from_json", "save_parameters"):
                try:
                    explore_syscalls(ck, writer, ["CAA", "CCC"] if ck.thorough() else ["CAA"], tmp_root, worst, 2)
                except Exception as e:  # noqa: BLE001
                    ck.mismatch("writer with a symlinked checkpoint name could not be driven",
                                {"writer": writer, "error": f"{type(e).__name__}: {e}"})
        finally:
            LINK[0], CKNAME[0] = False, CK
        # from_json-built writers with a plain name as well
        for writer in ("MCMC.from_json", "Optimizer.from_json"):
            try:
                explore_syscalls(ck, writer, ["CAA"], tmp_root, worst, 1)
            except Exception as e:  # noqa: BLE001
                ck.mismatch("from_json-built writer could not be driven", {"writer": writer, "error": f"{type(e).__name__}: {e}"})
        # the whole public run() of an algorithm as the writer: whatever it does to the three files at start-up, at
        # each periodic checkpoint and at shut-down is inside the crash enumeration; started from "all three exist"
        # and from the state a crash between the two renames leaves (name absent, .new and .old complete)
        try:
            RUN_ITERS[0] = 3 if ck.thorough() else 2
            for writer in ("Optimizer.run", "MCMC.run"):
                try:
                    explore_syscalls(ck, writer, ["CCC", "ACC", "CAA"] if ck.thorough() else ["ACC", "CCC"], tmp_root, worst,
                                     2 if ck.thorough() else 1, sample_writes=True)
                except Exception as e:  # noqa: BLE001
                    ck.mismatch("the algorithm's run() could not be driven as a writer",
                                {"writer": writer, "error": f"{type(e).__name__}: {e}"})
        finally:
            RUN_ITERS[0] = 1
        # other spellings of the configured name (spaces / non-ASCII, nested relative, ./, absolute, names that
        # themselves end in .old / .new, no extension): from the state "all three exist" and from the state a crash
        # between the two renames leaves (name absent)
        try:
            for i, form in enumerate(NAME_FORMS):
                CKNAME[0] = form
                writers = ("save_parameters", "MCMC.from_json", "Optimizer.from_json")
                for writer in (writers if ck.thorough() else (writers[i % 3],)):
                    try:
                        explore_syscalls(ck, writer, ["CCC", "ACC"], tmp_root, worst, 2 if ck.thorough() else 1)
                    except Exception as e:  # noqa: BLE001
                        ck.mismatch("writer with an unusual checkpoint name could not be driven",
                                    {"writer": writer, "name": form, "error": f"{type(e).__name__}: {e}"})
        finally:
            CKNAME[0] = CK
        # a payload of several hundred kB (dozens of write() calls per checkpoint)
        for writer in (("save_parameters", "MCMC.save_full_state") if ck.thorough() else ("save_parameters",)):
            try:
                explore_syscalls(ck, writer, ["CCC", "ACC"] if ck.thorough() else ["CCC"], tmp_root, worst,
                                 2 if ck.thorough() else 1, variant=2, sample_writes=True)
            except Exception as e:  # noqa: BLE001
                ck.mismatch("writer with a large payload could not be driven", {"writer": writer, "error": f"{type(e).__name__}: {e}"})
    finally:
        WRITER[0], VARIANT[0] = "save_parameters", 0
        LINK[0], CKNAME[0] = False, CK
        shutil.rmtree(tmp_root, ignore_errors=True)
        if drv:
            drv.close()

    ck.extra["depth_of_consecutive_interrupted_writes"] = depth
    # ---- verdict
    if worst:
        # plain safety failures (2-tuples) first, then generation-level ones; shortest history first
        worst.sort(key=lambda x: (len(x), len(x[0]), sum((h.get("kill_after") or h.get("position") or 10**6) for h in x[0])))
        hist, st = worst[0][0], worst[0][1]
        why = worst[0][2] if len(worst[0]) > 2 else None
        what = why or ("checkpoint name refers to a truncated/corrupt file" if st[0] == "T" else "no complete checkpoint survives")
        ck.violation(
            hist[-1]["writer"] + ":" + ("unsafe-call-site" if hist[-1].get("call_site") else "stale-or-mixed-generation" if why
                                        else "truncated-name" if st[0] == "T" else "lost-checkpoint"),
            f"{what} after crash history {[(h['from'], h.get('kill_after', h.get('kill_before_syscall'))) for h in hist]} "
            f"({hist[-1].get('mode', 'python-level')} crash points) of {hist[-1]['writer']} -> {st}",
            {"history": hist, "dir_after": st, "broken_obligations": broken, "replay_cmd": "./check C18 --replay <this file>"},
        )
    elif not ok or ck.mismatches:
        ck.violation(
            "save_parameters:unproved",
            "C18 theorems or the model/implementation correspondence no longer check",
            {"broken_obligations": broken, "mismatches": ck.mismatches[:5], "translator_note": note,
             "caller_scan_notes": c_notes},
            found_input=False,
        )


def _raises(drv, st, ops):
    return drv.ask("run " + st + "".join(" " + o for o in ops)).startswith("raise@")


def _clone(d: Path, root: Path) -> Path:
    t = Path(tempfile.mkdtemp(prefix="s-", dir=root))
    shutil.copytree(d, t, symlinks=True, dirs_exist_ok=True)
    return t


def replay(path: str) -> int:
    """re-execute a recorded crash history against the real save_parameters"""
    use_repo()
    obj = json.loads(Path(path).read_text())
    hist = obj.get("history")
    if not hist:
        print("replay names broken obligations only:", obj.get("broken_obligations"))
        return 1
    d = Path(tempfile.mkdtemp(prefix="c18r-"))
    WRITER[0] = hist[0].get("writer", "save_parameters")
    VARIANT[0] = hist[0].get("variant", 0)
    RUN_ITERS[0] = hist[0].get("run_iterations", 1)
    if hist[0].get("symlinked_name"):
        LINK[0], CKNAME[0] = True, LINK_NAME
    elif hist[0].get("name_form"):
        CKNAME[0] = hist[0]["name_form"]
    try:
        materialise(d, hist[0]["from"], GEN0)
        gen = FIRST_GEN
        bad = False
        for h in hist:
            st0, gens0 = classify(d, gen)
            if h.get("mode") == "strace":
                run_write_strace(d, gen, tuple(h["kill_before_syscall"]) if h["kill_before_syscall"] else None)
            else:
                run_write(d, gen, h["kill_after"], flags=tuple(h["flags"]) if h.get("flags") else None, fail_at=h.get("fail_at"))
            st1, gens1 = classify(d, gen + 1)
            w = []
            if not WRITER[0].endswith(".run"):
                gen_check(None, None, w, [h], st0, gens0, st1, gens1, gen)
            print("after crash at", h.get("kill_after", h.get("kill_before_syscall")), "->", st1, gens1,
                  ("GENERATIONS: " + w[0][2]) if w else "")
            bad = bad or bool(w)
            gen += 1
        st, _ = classify(d, gen)
        bad = bad or not safe_pred(st)
        print("final directory state (name,new,old):", st, "VIOLATES" if bad else "ok")
        return 1 if bad else 0
    finally:
        shutil.rmtree(d, ignore_errors=True)
