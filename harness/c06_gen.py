"""Generators and builders shared by the C06 / C07 checks (time trees, sampling dates, models).

Trees are nested tuples over taxon positions 0..n-1, e.g. ((0, 1), (2, 3)); the child order is
the order written in the Newick string, which is the order dendropy keeps.
"""
from __future__ import annotations

import itertools
from fractions import Fraction

from common import use_repo

use_repo()
import torch  # noqa: E402

torch.set_num_threads(2)


# ----------------------------------------------------------------------------- topologies
def _insertions(tree, new):
    """all trees obtained by attaching leaf `new` on an edge of `tree` (incl. above its root)"""
    yield (tree, new)
    if isinstance(tree, tuple):
        l, r = tree
        for t in _insertions(l, new):
            yield (t, r)
        for t in _insertions(r, new):
            yield (l, t)


def all_topologies(n: int):
    """every rooted labelled binary topology on taxa 0..n-1, (2n-3)!! of them (one child order each)"""
    trees = [0] if n == 1 else [(0, 1)]
    for k in range(2, n):
        trees = [t for tr in trees for t in _insertions(tr, k)]
    return trees


def random_topology(n: int, rng):
    t = (0, 1)
    for k in range(2, n):
        c = list(_insertions(t, k))
        t = c[rng.randrange(len(c))]
    return relabel(t, rng.sample(range(n), n))


def caterpillar(n: int):
    t = 0
    for k in range(1, n):
        t = (t, k)
    return t


def relabel(t, perm):
    return perm[t] if not isinstance(t, tuple) else (relabel(t[0], perm), relabel(t[1], perm))


def flips(t):
    """all child orders of t"""
    if not isinstance(t, tuple):
        yield t
        return
    for l in flips(t[0]):
        for r in flips(t[1]):
            yield (l, r)
            yield (r, l)


def random_flip(t, rng):
    if not isinstance(t, tuple):
        return t
    l, r = random_flip(t[0], rng), random_flip(t[1], rng)
    return (l, r) if rng.random() < 0.5 else (r, l)


def ntips(t):
    return 1 if not isinstance(t, tuple) else ntips(t[0]) + ntips(t[1])


def depth(t):
    return 0 if not isinstance(t, tuple) else 1 + max(depth(t[0]), depth(t[1]))


def paren(t) -> str:
    return str(t) if not isinstance(t, tuple) else "(" + paren(t[0]) + "," + paren(t[1]) + ")"


def parse_paren(s: str):
    return eval(s, {"__builtins__": {}})  # only ever applied to strings produced by paren()


def newick(t) -> str:
    def go(u):
        return f"T{u}" if not isinstance(u, tuple) else "(" + go(u[0]) + "," + go(u[1]) + ")"

    return go(t) + ";"


def independent_index(t, n):
    """independent re-derivation of the indexing convention: leaves = taxon position, internal nodes
    numbered in post-order from n. Returns (edges [(parent, child)], root index, tips_below{idx: [taxa]})"""
    edges, below = [], {}
    counter = [n]

    def go(u):
        if not isinstance(u, tuple):
            below[u] = [u]
            return u
        a = go(u[0])
        b = go(u[1])
        me = counter[0]
        counter[0] += 1
        edges.append((me, a))
        edges.append((me, b))
        below[me] = below[a] + below[b]
        return me

    root = go(t)
    return edges, root, below


# ----------------------------------------------------------------------------- dates
def date_schemes(n: int, rng):
    """name -> dates (all exactly representable in float32, which is what sampling_times is)"""
    q = lambda: rng.randrange(0, 41) / 4.0  # noqa: E731  quarter units in [0, 10]
    out = {"isochronous": [0.0] * n}
    ages = [q() for _ in range(n)]
    ages[rng.randrange(n)] = 0.0
    out["ages"] = ages
    tied = [float(rng.randrange(0, 3)) for _ in range(n)]
    tied[rng.randrange(n)] = 0.0
    if n > 2:
        j = rng.randrange(n)
        tied[(j + 1) % n] = tied[j]
    out["ages-ties"] = tied
    cal = [2000.0 + q() for _ in range(n)]
    out["calendar"] = cal
    calt = [2010.0 + float(rng.randrange(0, 3)) / 2 for _ in range(n)]
    out["calendar-ties"] = calt
    # decimal fractions that neither float32 nor float64 hold exactly (2015.44, 1999.13, 17.3, 0.1 …)
    out["calendar-decimal"] = [round(2000.0 + rng.uniform(0.0, 16.0), rng.choice([2, 2, 3, 4, 6])) for _ in range(n)]
    agd = [round(rng.uniform(0.05, 18.0), rng.choice([1, 1, 2, 3, 5])) for _ in range(n)]
    agd[rng.randrange(n)] = 0.0
    out["ages-decimal"] = agd
    # time-origin / sign conventions: a forward time axis whose origin is the most recent sample (all dates <= 0,
    # max 0), mixed signs, negative only (not touching 0), all equal and non-zero
    fwd = [-q() for _ in range(n)]
    fwd[rng.randrange(n)] = 0.0
    if n > 1 and all(v == 0.0 for v in fwd):
        fwd[(fwd.index(0.0) + 1) % n] = -1.5
    out["forward-max0"] = fwd
    mixed = [q() - 5.0 for _ in range(n)]
    if min(mixed) == 0.0:
        mixed[mixed.index(0.0)] = -0.25
    out["mixed-signs"] = mixed
    out["negative-only"] = [-1.0 - q() for _ in range(n)]
    out["all-equal-nonzero"] = [rng.choice([2021.0, -4.0, 10.0])] * n
    return out


def expected_leaf_heights(dates):
    """the property's reading of sampling dates: ages when the smallest is 0, else calendar dates
    (height = most recent date − date)"""
    if min(dates) == 0.0:
        return list(dates)
    m = max(dates)
    return [m - d for d in dates]


# ----------------------------------------------------------------------------- models
def make_taxa(dates):
    from torchtree.evolution.taxa import Taxa, Taxon

    return Taxa("taxa", [Taxon(f"T{i}", {"date": d}) for i, d in enumerate(dates)])


def make_tree(t, taxa):
    from torchtree.evolution.tree_model import initialize_dates_from_taxa, parse_tree

    tree = parse_tree(taxa, {"newick": newick(t)})
    initialize_dates_from_taxa(tree, taxa)
    return tree


def make_reparam(t, dates, x, kind="ratio", dtype=None):
    """ReparameterizedTimeTreeModel with parameter tensor x ([n-1] or [B, n-1])"""
    from torchtree import Parameter
    from torchtree.evolution.tree_model import ReparameterizedTimeTreeModel

    taxa = make_taxa(dates)
    tree = make_tree(t, taxa)
    xt = x if isinstance(x, torch.Tensor) else torch.tensor(x, dtype=dtype or torch.float64)
    p = Parameter("x", xt)
    if kind == "ratio":
        return ReparameterizedTimeTreeModel("tree", tree, taxa, p)
    return ReparameterizedTimeTreeModel("tree", tree, taxa, shifts=p)


def make_timetree(t, dates, heights):
    from torchtree import Parameter
    from torchtree.evolution.tree_model import TimeTreeModel

    taxa = make_taxa(dates)
    tree = make_tree(t, taxa)
    ht = heights if isinstance(heights, torch.Tensor) else torch.tensor(heights, dtype=torch.float64)
    return TimeTreeModel("tree", tree, taxa, Parameter("h", ht))


def heights_param(model):
    """the parameter object a tree model evaluates (public constructor argument; stored privately): found by its
    conventional name or, after a rename, as the AbstractParameter among the model's attributes"""
    from torchtree.core.abstractparameter import AbstractParameter

    p = getattr(model, "_internal_heights", None)
    if isinstance(p, AbstractParameter):
        return p
    cands = [v for v in vars(model).values() if isinstance(v, AbstractParameter)]
    if not cands:
        params = getattr(model, "_parameters", None)
        cands = list(params.values()) if isinstance(params, dict) else []
    if len(cands) >= 1:
        return cands[0]
    raise AttributeError("no parameter found on the tree model")


def dendropy_edges(model):
    """(parent index, child index) for every edge, read from the dendropy tree itself"""
    return [(nd.parent_node.index, nd.index) for nd in model.tree.preorder_node_iter() if nd.parent_node is not None]


def ratio_margin(t, leaf, row):
    """independent float evaluation of the ratio parameterisation: the smallest (height − bound) over the
    internal nodes relative to the size of the heights. Rows whose margin falls under ~1e-10 cannot be
    represented in float64 (the node collapses onto its bound) and are not in the testable domain."""
    n = len(leaf)
    edges, root, below = independent_index(t, n)
    parent = {c: p for p, c in edges}
    H = {root: row[n - 2]}
    S = max(1.0, abs(row[n - 2]), max(abs(v) for v in leaf))
    margin = (H[root] - max(leaf)) / S
    for v in range(2 * n - 3, n - 1, -1):
        b = max(leaf[i] for i in below[v])
        H[v] = b + row[v - n] * (H[parent[v]] - b)
        margin = min(margin, (H[v] - b) / S)
    return margin


# ----------------------------------------------------------------------------- numbers
def frac(x) -> Fraction:
    return Fraction(x)


def rat_str(x) -> str:
    f = Fraction(x)
    return str(f.numerator) if f.denominator == 1 else f"{f.numerator}/{f.denominator}"


def parse_rat(s: str) -> Fraction:
    return Fraction(s)


def dyadic(rng, lo_num, hi_num, den):
    return rng.randrange(lo_num, hi_num + 1) / den


def exact_ok(fracs, maxbits=38) -> bool:
    """all values dyadic with few enough bits that every float64 intermediate was exact"""
    for f in fracs:
        d = f.denominator
        if d & (d - 1):
            return False
        if d.bit_length() > maxbits or abs(f.numerator).bit_length() > 50:
            return False
    return True
