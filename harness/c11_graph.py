"""C11 helper — the model graph the checks are run on.

`spec(values)` returns the JSON description (a list of top-level object descriptions processed in order
with one shared id dictionary, exactly as torchtree's own loader does) of a graph that contains
every parameter kind (plain, view, concatenated, transformed without and with a parametric
transform) and a representative of every model family of the anchored files (tree models, site
models, substitution models incl. MG94, clock model, CompoundGammaDirichletPrior, coalescent,
tree likelihood, distributions, joint).  BirthDeathModel is excluded (F09 belongs to C09).

`LEAVES` lists the plain `Parameter` leaves with a generator of VALID values (positive rates,
simplex frequencies, ordered node heights ...) so that every derived quantity stays finite and
a comparison with a fresh rebuild is meaningful.
"""
from __future__ import annotations

import math

TAXA = ["A", "B", "C", "D"]
DATES = {"A": 0.0, "B": 0.0, "C": 1.0, "D": 2.0}
NEWICK = "(((A:1,B:1):1,C:1):1,D:1);"
SEQS = {"A": "ACGTACGTAAGGCC", "B": "ACGTACGAAAGGCT", "C": "ACTTACGTCAGGCC", "D": "GCGTACCTAAGGTC"}
CODON_SEQS = {"A": "ATGGCTAAACTG", "B": "ATGGCAAAACTG", "C": "ATGGCTAGACTA", "D": "ATGTCTAAACTG"}


# ---------------------------------------------------------------------------------- leaves
def _pos(n, lo=0.2, hi=3.0):
    return lambda rng: [round(rng.uniform(lo, hi), 6) for _ in range(n)]


def _simplex(n):
    def g(rng):
        w = [rng.uniform(0.5, 1.5) for _ in range(n)]
        s = sum(w)
        return [x / s for x in w]
    return g


def _unit(n, lo=0.1, hi=0.9):
    return lambda rng: [round(rng.uniform(lo, hi), 6) for _ in range(n)]


def _real(n, lo=-1.0, hi=1.0):
    return lambda rng: [round(rng.uniform(lo, hi), 6) for _ in range(n)]


def _spd2(rng):
    a, b, c, d = (rng.uniform(-1, 1) for _ in range(4))
    return [round(a * a + b * b + 0.5, 6), round(a * c + b * d, 6), round(a * c + b * d, 6), round(c * c + d * d + 0.5, 6)]


def _heights(rng):
    # caterpillar (((A,B),C),D) with tip dates 0,0,1,2: internal heights must increase and clear the tips
    h0 = rng.uniform(0.2, 0.9)
    h1 = max(h0, 1.0) + rng.uniform(0.1, 0.9)
    h2 = max(h1, 2.0) + rng.uniform(0.1, 0.9)
    return [round(h0, 6), round(h1, 6), round(h2, 6)]


# id -> (generator, initial value)
LEAVES = {
    "bl": (_pos(5, 0.05, 0.6), [0.1, 0.2, 0.3, 0.15, 0.25]),
    "cgd_alpha": (_pos(1, 0.5, 2.0), [1.0]),
    "cgd_c": (_pos(1, 0.5, 2.0), [0.7]),
    "cgd_shape": (_pos(1, 0.5, 3.0), [2.0]),
    "cgd_rate": (_pos(1, 0.5, 3.0), [1.5]),
    "ratios": (_unit(2), [0.4, 0.6]),
    "root_height": (_pos(1, 2.5, 5.0), [3.0]),
    "heights2": (_heights, [0.5, 1.5, 2.5]),
    "wshape": (_pos(1, 0.4, 2.0), [0.8]),
    "pinv": (_unit(1, 0.05, 0.5), [0.2]),
    "pinv2": (_unit(1, 0.05, 0.5), [0.3]),
    "mu": (_pos(1, 0.5, 2.0), [1.2]),
    "log_kappa": (_real(1, -0.5, 1.5), [0.7]),
    "hky_freqs": (_simplex(4), [0.1, 0.2, 0.3, 0.4]),
    "allrates": (_pos(8, 0.3, 3.0), [1.0, 1.1, 1.2, 1.3, 1.4, 1.5, 1.6, 1.7]),
    "gtr_freqs": (_simplex(4), [0.25, 0.25, 0.25, 0.25]),
    "mg_alpha": (_pos(1, 0.5, 2.0), [1.1]),
    "mg_beta": (_pos(1, 0.5, 2.0), [0.9]),
    "mg_kappa": (_pos(1, 1.0, 4.0), [2.0]),
    "mg_freqs": (_simplex(61), [1.0 / 61] * 61),
    "clock_rate": (_pos(1, 0.01, 0.2), [0.05]),
    "raw_rates": (_pos(6, 0.5, 2.0), [1.0, 1.2, 0.8, 1.1, 0.9, 1.3]),
    "cc_x": (_pos(3, 0.5, 2.0), [1.0, 2.0, 1.5]),
    "cc_w": (_simplex(3), [0.2, 0.3, 0.5]),
    "lin_x": (_real(2), [0.3, -0.2]),
    "lin_w": (_real(6), [0.5, 0.1, -0.3, 0.7, 0.2, 0.4]),
    "lin_b": (_real(3), [0.0, 0.1, -0.1]),
    "theta": (_pos(1, 1.0, 10.0), [4.0]),
    "cat_a": (_real(2), [0.1, -0.4]),
    "cat_b": (_real(1), [0.6]),
    "loc": (_real(3), [0.0, 0.1, -0.2]),
    "log_scale": (_real(3, -1.0, 0.5), [0.0, -0.3, 0.2]),
    "kappa_rate": (_pos(1, 0.5, 2.0), [1.0]),
    "theta_loc": (_real(1, 0.5, 2.0), [1.0]),
    "theta_scale": (_pos(1, 0.5, 1.5), [1.0]),
    # a plain TimeTreeModel that is observed ONLY through node_heights (by a coalescent): nobody ever calls
    # its branch_lengths() unless a history does so explicitly
    # base of a family of OVERLAPPING sibling views (negative int, negative slices, LongTensor, bool mask)
    "vbase": (_pos(5, 0.3, 3.0), [0.5, 0.7, 0.9, 1.1, 1.3]),
    "heights3": (_heights, [0.6, 1.4, 2.6]),
    # construction routes other than "constructor with all its parameters":
    "differences": (_pos(3, 0.2, 1.0), [0.5, 0.7, 0.9]),   # FlexibleTimeTreeModel.from_json (heights assigned afterwards)
    "theta_f": (_pos(1, 1.0, 10.0), [2.5]),
    "pinv3": (_unit(1, 0.05, 0.5), [0.25]),
    "mu3": (_pos(1, 0.5, 2.0), [1.4]),                      # assigned to a None placeholder after construction
    "kappa_a": (_pos(1, 1.0, 4.0), [1.5]),                  # replaced by kappa_b after construction
    "kappa_b": (_pos(1, 1.0, 4.0), [2.5]),
    "hky2_freqs": (_simplex(4), [0.3, 0.2, 0.2, 0.3]),
    # parameters consumed by several structurally identical / VALUE-EQUAL consumers (duplicate wrappers)
    "dup_a": (_real(2), [0.4, -0.1]),
    "dup_b": (_real(1), [0.7]),
    "dup_c": (_real(2), [-0.3, 0.2]),
    "dup_d": (_real(1), [0.5]),
    # the SAME model class holding its parameter through different object types: the usual ratios + root_height JSON
    # route builds a CatParameter (a new tensor object at every update); `shifts` and a constructor call with
    # ratios_root_height hold ONE plain Parameter (in-place updates keep the tensor object)
    "shifts_p": (_pos(3, 0.2, 1.0), [0.4, 0.6, 0.8]),
    "rrh_p": (lambda rng: [round(rng.uniform(0.1, 0.9), 6), round(rng.uniform(0.1, 0.9), 6), round(rng.uniform(2.5, 5.0), 6)],
              [0.5, 0.3, 3.5]),
    # NESTED transformed parameters on one notification path: a TransformedParameter whose x is itself a
    # TransformedParameter — directly, through a list x (CatParameter), through a model its transform uses
    "tt_z": (_real(2, -0.5, 0.8), [0.1, 0.4]),
    "tt_b": (_real(1, -0.5, 0.8), [0.2]),
    "raw_rates_f": (_pos(6, 0.5, 2.0), [1.1, 0.9, 1.2, 0.8, 1.0, 1.3]),
    # a Weibull site model WITHOUT an invariant category (its proportions are the constant 1/K)
    "wshape2": (_pos(1, 0.4, 2.0), [1.2]),
    "mu_w2": (_pos(1, 0.5, 2.0), [0.9]),
    # further model classes
    "theta_e": (_pos(1, 1.0, 10.0), [5.0]),
    "growth": (_real(1, -0.5, 0.5), [0.1]),
    "mvn_x": (_real(2), [0.2, -0.3]),
    "mvn_loc": (_real(2), [0.0, 0.1]),
    "mvn_cov": (_spd2, [1.0, 0.3, 0.3, 1.5]),
    "bb_x": (_real(3), [0.3, -0.2, 0.5]),
    "bb_scale": (_pos(1, 0.5, 2.0), [1.0]),
    "bb_alpha": (_pos(1, 0.3, 1.5), [0.5]),
    "ctmc_rate": (_pos(1, 0.01, 0.2), [0.02]),
    "theta2": (_pos(1, 1.0, 10.0), [3.0]),
}

LEAF_SHAPES = {"lin_w": (3, 2), "mvn_cov": (2, 2)}


def _tensor(lid, v):
    if lid in LEAF_SHAPES:
        r, c = LEAF_SHAPES[lid]
        return [v[i * c:(i + 1) * c] for i in range(r)]
    return v


VIEWS = ["v_neg_int", "v_neg_slice", "v_long", "v_head", "v_bool", "v_first"]

def _num(i, v):
    return {"id": i, "type": "Parameter", "tensor": [v], "dtype": "torch.float64"}


GRADS = {}  # leaf id -> True for the leaves built with requires_grad (set by `build`)


def P(lid, values):
    d = {"id": lid, "type": "Parameter", "tensor": _tensor(lid, values[lid]), "dtype": "torch.float64"}
    if GRADS.get(lid):
        d["requires_grad"] = True
    return d


def spec(values: dict, with_mg94_like: bool = True):
    """JSON description (list of objects, in construction order). `values`: leaf id -> flat list."""
    taxa = {"id": "taxa", "type": "Taxa",
            "taxa": [{"id": t, "type": "Taxon", "attributes": {"date": DATES[t]}} for t in TAXA]}
    out = [taxa]
    out += [P(k, values) for k in LEAVES]
    out += [
        # ---------------- derived parameters
        {"id": "kappa", "type": "TransformedParameter", "transform": "torch.distributions.ExpTransform",
         "x": "log_kappa"},
        {"id": "gtr_rates", "type": "ViewParameter", "parameter": "allrates", "indices": "0:6"},
        {"id": "tail_rates", "type": "ViewParameter", "parameter": "allrates", "indices": "6:8"},
        {"id": "scale", "type": "TransformedParameter", "transform": "torch.distributions.ExpTransform",
         "x": "log_scale"},
        {"id": "cat_ab", "type": "CatParameter", "parameters": ["cat_a", "cat_b"], "dim": -1},
        # sibling views of `vbase` (entries 0..4).  Overlaps: v_neg_int / v_neg_slice / v_long / v_bool on entry 4,
        # v_long / v_head on entry 3, v_bool / v_head / v_first on entry 0; v_first is disjoint from the "-1" views.
        # ("py" items are built through the constructor: torchtree's JSON loader cannot express list indices)
        {"id": "v_neg_int", "py": "view", "parameter": "vbase", "indices": {"int": -1}},
        {"id": "v_neg_slice", "type": "ViewParameter", "parameter": "vbase", "indices": "-1:"},
        {"id": "v_long", "py": "view", "parameter": "vbase", "indices": {"long": [-2, -1]}},
        {"id": "v_head", "type": "ViewParameter", "parameter": "vbase", "indices": ":-1"},
        {"id": "v_bool", "py": "view", "parameter": "vbase", "indices": {"bool": [True, False, False, False, True]}},
        {"id": "v_first", "type": "ViewParameter", "parameter": "vbase", "indices": "0:2"},
        # ---------------- tree models
        {"id": "utree", "type": "UnRootedTreeModel", "newick": NEWICK, "taxa": "taxa", "branch_lengths": "bl"},
        {"id": "ttree", "type": "ReparameterizedTimeTreeModel", "newick": NEWICK, "taxa": "taxa",
         "ratios": "ratios", "root_height": "root_height"},
        {"id": "ttree2", "type": "TimeTreeModel", "newick": NEWICK, "taxa": "taxa", "internal_heights": "heights2"},
        {"id": "ttree3", "type": "TimeTreeModel", "newick": NEWICK, "taxa": "taxa", "internal_heights": "heights3"},
        # ---------------- parametric transforms
        {"id": "branch_rates", "type": "TransformedParameter",
         "transform": "torchtree.evolution.rate_transform.RescaledRateTransform",
         "parameters": {"rate": "clock_rate", "tree_model": "ttree"}, "x": "raw_rates"},
        {"id": "cc", "type": "TransformedParameter",
         "transform": "torchtree.distributions.transforms.ConvexCombinationTransform",
         "parameters": {"weights": "cc_w"}, "x": "cc_x"},
        {"id": "lin", "type": "TransformedParameter",
         "transform": "torchtree.distributions.transforms.LinearTransform",
         "parameters": {"weight": "lin_w", "bias": "lin_b"}, "x": "lin_x"},
        # ---------------- site models
        {"id": "site_w", "type": "WeibullSiteModel", "categories": 3, "shape": "wshape", "invariant": "pinv",
         "mu": "mu"},
        {"id": "site_i", "type": "InvariantSiteModel", "invariant": "pinv2"},
        {"id": "site_w2", "type": "WeibullSiteModel", "categories": 4, "shape": "wshape2", "mu": "mu_w2"},
        {"id": "site_c", "type": "ConstantSiteModel"},
        # ---------------- substitution models
        {"id": "hky", "type": "HKY", "kappa": "kappa", "frequencies": "hky_freqs"},
        {"id": "gtr", "type": "GTR", "rates": "gtr_rates", "frequencies": "gtr_freqs"},
        {"id": "codon", "type": "CodonDataType", "genetic_code": "Universal"},
        {"id": "mg94", "type": "MG94", "data_type": "codon", "alpha": "mg_alpha", "beta": "mg_beta",
         "kappa": "mg_kappa", "frequencies": "mg_freqs"},
        # ---------------- clock
        {"id": "clock", "type": "SimpleClockModel", "tree_model": "ttree", "rate": "branch_rates"},
        {"id": "clock2", "type": "StrictClockModel", "tree_model": "ttree2", "rate": "clock_rate"},
        # ---------------- data
        {"id": "aln", "type": "Alignment", "datatype": "nucleotide", "taxa": "taxa",
         "sequences": [{"taxon": t, "sequence": SEQS[t]} for t in TAXA]},
        {"id": "sp", "type": "SitePattern", "alignment": "aln"},
        {"id": "caln", "type": "Alignment", "datatype": "codon", "taxa": "taxa",
         "sequences": [{"taxon": t, "sequence": CODON_SEQS[t]} for t in TAXA]},
        {"id": "csp", "type": "SitePattern", "alignment": "caln"},
        # ---------------- likelihoods and priors
        {"id": "like_u", "type": "TreeLikelihoodModel", "tree_model": "utree", "site_model": "site_w",
         "substitution_model": "gtr", "site_pattern": "sp"},
        {"id": "like_t", "type": "TreeLikelihoodModel", "tree_model": "ttree", "site_model": "site_i",
         "substitution_model": "hky", "site_pattern": "sp", "branch_model": "clock"},
        {"id": "like_t2", "type": "TreeLikelihoodModel", "tree_model": "ttree2", "site_model": "site_c",
         "substitution_model": "hky", "site_pattern": "sp", "branch_model": "clock2"},
    ]
    if with_mg94_like:
        out.append({"id": "like_c", "type": "TreeLikelihoodModel", "tree_model": "utree", "site_model": "site_c",
                    "substitution_model": "mg94", "site_pattern": "csp"})
    out += [
        {"id": "cgd", "type": "CompoundGammaDirichletPrior", "tree_model": "utree", "alpha": "cgd_alpha",
         "c": "cgd_c", "shape": "cgd_shape", "rate": "cgd_rate"},
        {"id": "coal", "type": "ConstantCoalescentModel", "theta": "theta", "tree_model": "ttree"},
        {"id": "coal2", "type": "ConstantCoalescentModel", "theta": "theta2", "tree_model": "ttree3"},
        # torchtree's own route for a tree whose heights are a transform OF THAT TREE: built with heights None,
        # `tree_model._internal_heights = ...` assigned afterwards (FlexibleTimeTreeModel.from_json)
        {"id": "ftree", "type": "FlexibleTimeTreeModel", "newick": NEWICK, "taxa": "taxa",
         "internal_heights": {"id": "fheights", "type": "TransformedParameter",
                              "transform": "torchtree.evolution.tree_height_transform.DifferenceNodeHeightTransform",
                              "parameters": {"tree_model": "ftree"}, "x": "differences"}},
        {"id": "coal_f", "type": "ConstantCoalescentModel", "theta": "theta_f", "tree_model": "ftree"},
        # a parameter attribute first left at its None placeholder, assigned after construction
        {"id": "site_i2", "type": "InvariantSiteModel", "invariant": "pinv3"},
        {"post": "setattr", "obj": "site_i2", "attr": "_mu", "value": "mu3"},
        # a registered parameter REPLACED by another one after construction (`model.param = other_param`)
        {"id": "hky2", "type": "HKY", "kappa": "kappa_a", "frequencies": "hky2_freqs"},
        {"post": "setattr", "obj": "hky2", "attr": "_kappa", "value": "kappa_b"},
        # ---------------- distributions
        {"id": "normal", "type": "Distribution", "distribution": "torch.distributions.Normal",
         "x": "cat_ab", "parameters": {"loc": "loc", "scale": "scale"}},
        {"id": "prior_kappa", "type": "Distribution", "distribution": "torch.distributions.Exponential",
         "x": "kappa", "parameters": {"rate": "kappa_rate"}},
        {"id": "prior_theta", "type": "Distribution", "distribution": "torch.distributions.LogNormal",
         "x": "theta", "parameters": {"loc": "theta_loc", "scale": "theta_scale"}},
        {"id": "prior_tail", "type": "Distribution", "distribution": "torch.distributions.Exponential",
         "x": "tail_rates", "parameters": {"rate": 1.0}},
        {"id": "ttree_s", "type": "ReparameterizedTimeTreeModel", "newick": NEWICK, "taxa": "taxa", "shifts": "shifts_p"},
        {"id": "ttree_p", "py": "reparam_plain", "parameter": "rrh_p"},
        {"id": "coal_s", "type": "ConstantCoalescentModel", "theta": "theta_e", "tree_model": "ttree_s"},
        {"id": "coal_p", "type": "ConstantCoalescentModel", "theta": "theta_e", "tree_model": "ttree_p"},
        # ---------------- further classes: JC69, exponential coalescent, torchtree's MultivariateNormal model,
        # BayesianBridge, CTMCScale; a joint INSIDE a joint (container of models holding a container of models)
        {"id": "jc", "type": "JC69"},
        {"id": "tt_inner", "type": "TransformedParameter", "transform": "torch.distributions.ExpTransform", "x": "tt_z"},
        {"id": "tt_outer", "type": "TransformedParameter", "transform": "torch.distributions.AffineTransform",
         "parameters": {"loc": 0.5, "scale": 2.0}, "x": "tt_inner"},
        {"id": "prior_tt_outer", "type": "Distribution", "distribution": "torch.distributions.Exponential", "x": "tt_outer",
         "parameters": {"rate": {"id": "prior_tt_outer.rate", "type": "Parameter", "tensor": [1.0, 1.0], "dtype": "torch.float64"}}},
        {"id": "tt_list", "type": "TransformedParameter", "transform": "torch.distributions.ExpTransform",
         "x": ["tt_inner", "tt_b"]},
        {"id": "prior_tt_list", "type": "Distribution", "distribution": "torch.distributions.Exponential", "x": "tt_list",
         "parameters": {"rate": {"id": "prior_tt_list.rate", "type": "Parameter", "tensor": [1.0, 1.0, 1.0], "dtype": "torch.float64"}}},
        # the transform of `rates_f` uses a tree whose heights are themselves a TransformedParameter (ftree / fheights)
        {"id": "rates_f", "type": "TransformedParameter",
         "transform": "torchtree.evolution.rate_transform.RescaledRateTransform",
         "parameters": {"rate": "clock_rate", "tree_model": "ftree"}, "x": "raw_rates_f"},
        {"id": "clock_f", "type": "SimpleClockModel", "tree_model": "ftree", "rate": "rates_f"},
        {"id": "like_f", "type": "TreeLikelihoodModel", "tree_model": "ftree", "site_model": "site_c",
         "substitution_model": "jc", "site_pattern": "sp", "branch_model": "clock_f"},
        {"id": "joint_tt", "type": "JointDistributionModel", "distributions": ["prior_tt_outer", "prior_tt_list", "like_f", "tt_outer"]},
        {"id": "like_jc", "type": "TreeLikelihoodModel", "tree_model": "utree", "site_model": "site_c",
         "substitution_model": "jc", "site_pattern": "sp"},
        {"id": "like_w2", "type": "TreeLikelihoodModel", "tree_model": "utree", "site_model": "site_w2",
         "substitution_model": "jc", "site_pattern": "sp"},
        {"id": "coal_e", "type": "ExponentialCoalescentModel", "theta": "theta_e", "growth": "growth", "tree_model": "ttree2"},
        {"id": "mvn", "type": "MultivariateNormal", "x": "mvn_x",
         "parameters": {"loc": "mvn_loc", "covariance_matrix": "mvn_cov"}},
        {"id": "bridge", "type": "BayesianBridge", "x": "bb_x", "scale": "bb_scale", "alpha": "bb_alpha"},
        {"id": "ctmc", "type": "CTMCScale", "x": "ctmc_rate", "tree_model": "ttree2"},
        {"id": "joint_in", "type": "JointDistributionModel", "distributions": ["mvn", "bridge", "coal_e"]},
        {"id": "joint_out", "type": "JointDistributionModel", "distributions": ["joint_in", "ctmc", "like_jc", "coal2"]},
        # ---------------- value-equal duplicate consumers of the same plain parameters.  A Distribution given a list
        # x wraps it in CatParameter('x', ...), TransformedParameter in CatParameter(None, ...): every such wrapper
        # compares EQUAL (==) to its twins, and a wrapper of a prefix list equals the longer one (zip).  Both
        # build orders: prefix first (a / a,b) and longer first (c,d / c).
        {"id": "dupA_pre", "type": "Distribution", "distribution": "torch.distributions.Normal", "x": ["dup_a"],
         "parameters": {"loc": _num("dupA_pre.loc", 0.0), "scale": _num("dupA_pre.scale", 1.0)}},
        {"id": "dupA_1", "type": "Distribution", "distribution": "torch.distributions.Normal", "x": ["dup_a", "dup_b"],
         "parameters": {"loc": _num("dupA_1.loc", 0.0), "scale": _num("dupA_1.scale", 1.0)}},
        {"id": "dupA_2", "type": "Distribution", "distribution": "torch.distributions.Normal", "x": ["dup_a", "dup_b"],
         "parameters": {"loc": _num("dupA_2.loc", 0.5), "scale": _num("dupA_2.scale", 2.0)}},
        {"id": "dupC_1", "type": "Distribution", "distribution": "torch.distributions.Normal", "x": ["dup_c", "dup_d"],
         "parameters": {"loc": _num("dupC_1.loc", 0.0), "scale": _num("dupC_1.scale", 1.0)}},
        {"id": "dupC_2", "type": "Distribution", "distribution": "torch.distributions.Normal", "x": ["dup_c", "dup_d"],
         "parameters": {"loc": _num("dupC_2.loc", 0.5), "scale": _num("dupC_2.scale", 2.0)}},
        {"id": "dupC_pre", "type": "Distribution", "distribution": "torch.distributions.Normal", "x": ["dup_c"],
         "parameters": {"loc": _num("dupC_pre.loc", 0.0), "scale": _num("dupC_pre.scale", 1.0)}},
        {"id": "dupT_1", "type": "TransformedParameter", "transform": "torch.distributions.ExpTransform",
         "x": ["dup_a", "dup_b"]},
        {"id": "dupT_2", "type": "TransformedParameter", "transform": "torch.distributions.ExpTransform",
         "x": ["dup_a", "dup_b"]},
        {"id": "dupT_pre", "type": "TransformedParameter", "transform": "torch.distributions.ExpTransform",
         "x": ["dup_a"]},
        {"id": "prior_dupT_1", "type": "Distribution", "distribution": "torch.distributions.Exponential", "x": "dupT_1",
         "parameters": {"rate": {"id": "prior_dupT_1.rate", "type": "Parameter", "tensor": [1.0, 1.0, 1.0], "dtype": "torch.float64"}}},
        {"id": "prior_dupT_2", "type": "Distribution", "distribution": "torch.distributions.Exponential", "x": "dupT_2",
         "parameters": {"rate": {"id": "prior_dupT_2.rate", "type": "Parameter", "tensor": [2.0, 2.0, 2.0], "dtype": "torch.float64"}}},
        {"id": "prior_dupT_pre", "type": "Distribution", "distribution": "torch.distributions.Exponential", "x": "dupT_pre",
         "parameters": {"rate": {"id": "prior_dupT_pre.rate", "type": "Parameter", "tensor": [2.0, 2.0], "dtype": "torch.float64"}}},
        # two ViewParameters with the SAME id, parent and indices (only the constructor allows equal ids)
        {"id": "dupV_1", "py": "view", "parameter": "dup_c", "indices": {"slice": [0, 1]}, "obj_id": "dupV"},
        {"id": "dupV_2", "py": "view", "parameter": "dup_c", "indices": {"slice": [0, 1]}, "obj_id": "dupV"},
        {"id": "prior_dupV_1", "type": "Distribution", "distribution": "torch.distributions.Normal", "x": "dupV_1",
         "parameters": {"loc": 0.0, "scale": 1.0}},
        {"id": "prior_dupV_2", "type": "Distribution", "distribution": "torch.distributions.Normal", "x": "dupV_2",
         "parameters": {"loc": 1.0, "scale": 1.0}},
        {"id": "joint_dup", "type": "JointDistributionModel",
         "distributions": ["dupA_pre", "dupA_1", "dupA_2", "dupC_1", "dupC_2", "dupC_pre", "prior_dupT_1",
                           "prior_dupT_2", "prior_dupT_pre", "prior_dupV_1", "prior_dupV_2"]},
    ] + [
        {"id": "prior_" + v, "type": "Distribution", "distribution": "torch.distributions.Exponential",
         "x": v, "parameters": {"rate": 1.5}} for v in VIEWS
    ] + [
        {"id": "joint", "type": "JointDistributionModel",
         "distributions": ["like_u", "like_t", "like_t2", "cgd", "coal", "coal2", "normal", "prior_kappa", "prior_theta",
                           "prior_tail", "ttree", "kappa"] + (["like_c"] if with_mg94_like else [])},
    ]
    return out


SMALL_LEAVES = ["log_kappa", "hky_freqs", "allrates", "gtr_freqs", "cat_a", "cat_b", "loc", "log_scale", "pinv2",
                "cc_x", "cc_w", "kappa_rate"]


def spec_small(values: dict):
    """a tree-free sub-graph (cheap enough for exhaustive short histories): every parameter kind incl. a
    parametric transform, two substitution models, a site model, three distributions, a joint"""
    keep = {"kappa", "gtr_rates", "tail_rates", "scale", "cat_ab", "cc", "site_i", "hky", "gtr", "normal",
            "prior_kappa", "prior_tail"}
    out = [P(k, values) for k in SMALL_LEAVES]
    out += [d for d in spec(values) if d.get("id") in keep]
    out.append({"id": "joint", "type": "JointDistributionModel",
                "distributions": ["normal", "prior_kappa", "prior_tail", "kappa"]})
    return out


def initial_values():
    return {k: list(v[1]) for k, v in LEAVES.items()}


FULL_TYPE = {"Parameter": "torchtree.core.parameter.Parameter",
             "TransformedParameter": "torchtree.core.parameter.TransformedParameter",
             "ViewParameter": "torchtree.core.parameter.ViewParameter",
             "Distribution": "torchtree.distributions.distributions.Distribution",
             "HKY": "torchtree.evolution.substitution_model.nucleotide.HKY",
             "JointDistributionModel": "torchtree.distributions.joint_distribution.JointDistributionModel"}


def other_route(spec_list):
    """the same description written differently: keys of every object in REVERSED order, full dotted type names
    where a short registered name was used (the objects built must be the same)"""
    out = []
    for d in spec_list:
        if "py" in d or "post" in d:
            out.append(d)
            continue
        e = {k: d[k] for k in reversed(list(d))}
        if e.get("type") in FULL_TYPE:
            e["type"] = FULL_TYPE[e["type"]]
        if isinstance(e.get("parameters"), dict):
            e["parameters"] = {k: e["parameters"][k] for k in reversed(list(e["parameters"]))}
        out.append(e)
    return out


def build(values, small=False, grads=None, route=0, **kw):
    """process the description with torchtree's own loader; returns the id dictionary.
    `grads`: leaf ids to build with requires_grad=True"""
    from torchtree.core.utils import process_object

    import_all()
    GRADS.clear()
    GRADS.update({k: True for k in (grads or [])})
    dic = {}
    del ASSIGNMENTS[:]
    items = spec_small(values) if small else spec(values, **kw)
    if route == 1:
        items = other_route(items)
    for d in items:
        if "py" in d:
            dic[d["id"]] = build_py(d, dic)
        elif "post" in d:
            owner, new = dic[d["obj"]], dic[d["value"]]
            old = getattr(owner, d["attr"], None)
            setattr(owner, d["attr"], new)
            ASSIGNMENTS.append((owner, d["attr"], new, old))
        else:
            process_object(d, dic)
    return dic


ASSIGNMENTS = []  # (owner, attribute, new value, old value) of the post-construction assignments of the last build


def build_py(d, dic):
    """objects torchtree's JSON loader cannot express, built through their constructors"""
    import torch

    from torchtree.core.parameter import ViewParameter

    if d["py"] == "view":
        ix = d["indices"]
        if "int" in ix:
            idx = ix["int"]
        elif "slice" in ix:
            idx = slice(*ix["slice"])
        elif "long" in ix:
            idx = torch.tensor(ix["long"], dtype=torch.long)
        else:
            idx = torch.tensor(ix["bool"], dtype=torch.bool)
        return ViewParameter(d.get("obj_id", d["id"]), dic[d["parameter"]], idx)
    if d["py"] == "reparam_plain":
        # ReparameterizedTimeTreeModel(id, tree, taxa, ratios_root_height=<ONE plain Parameter>) through the constructor
        from torchtree.evolution.tree_model import ReparameterizedTimeTreeModel, initialize_dates_from_taxa, parse_tree

        tree = parse_tree(dic["taxa"], {"newick": NEWICK})
        initialize_dates_from_taxa(tree, dic["taxa"])
        return ReparameterizedTimeTreeModel(d["id"], tree, dic["taxa"], ratios_root_height=dic[d["parameter"]])
    raise ValueError(d["py"])


_IMPORTED = []


def import_all():
    """import every torchtree module (classes register themselves for the JSON loader on import)"""
    if _IMPORTED:
        return _IMPORTED
    import importlib
    import pkgutil

    import torchtree

    for m in pkgutil.walk_packages(torchtree.__path__, "torchtree."):
        if any(part in m.name for part in (".cli", ".nf", ".nn", "plugin")):
            continue
        try:
            _IMPORTED.append(importlib.import_module(m.name))
        except Exception:  # optional dependencies
            pass
    return _IMPORTED
