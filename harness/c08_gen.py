"""Generators shared by C08 and C20: serially sampled genealogies with dyadic times and forced ties.

Every random choice is drawn from the `random.Random` passed in (ck.rng).  Times are multiples of
2^-q (Fractions), so float64 arithmetic on them (+, -, *, / by powers of two) is exact.
"""
from __future__ import annotations

from fractions import Fraction


def dy(rng, lo, hi, q):
    """a dyadic Fraction k/2^q in [lo, hi]"""
    den = 1 << q
    return Fraction(rng.randint(int(lo * den), int(hi * den)), den)


def genealogy(rng, n, q=3, tie_p=0.3, homochronous=False, span=4, coal_tie_samp_p=0.15):
    """-> dict(samp=[n Fractions] in taxon order, coal=[n-1 Fractions] in node order, newick=str,
    parents=..., ties=bool).  A valid serially sampled genealogy: before each coalescent time at least
    two lineages are present.  Coalescent times are pairwise distinct (the skyride's N is defined by
    them); sampling times may tie with each other and (probability coal_tie_samp_p per event) a sampling
    time may coincide with a coalescent time."""
    den = 1 << q
    if homochronous:
        samp = [Fraction(0)] * n
    else:
        samp = [Fraction(0)]
        for _ in range(n - 1):
            if rng.random() < tie_p:
                samp.append(rng.choice(samp))
            else:
                samp.append(dy(rng, 0, span, q))
    order = sorted(range(n), key=lambda i: (samp[i], rng.random()))
    active = []  # (label, height, newick)
    coal = []
    t = Fraction(0)
    i = 0
    used = set()
    ties = len(set(samp)) < n
    next_id = n
    while i < n or len(active) > 1:
        can_coal = len(active) >= 2
        take_sample = i < n and (not can_coal or rng.random() < 0.5)
        if take_sample:
            j = order[i]
            # a sample is taken at its own time; it joins only when the clock reaches it
            if samp[j] > t:
                t = samp[j]
            active.append((j, samp[j], "T%d" % j))
            i += 1
            continue
        # coalescence strictly after the present clock (so that >= 2 lineages exist just before it)
        if i < n and rng.random() < coal_tie_samp_p and samp[order[i]] > t and samp[order[i]] not in used:
            tn = samp[order[i]]  # coincide with the next sampling time
            ties = True
        else:
            tn = t + Fraction(rng.randint(1, 2 * den), den)
        while tn in used:
            tn += Fraction(1, den)
        # samples strictly older than the clock but younger than tn join before the coalescence
        while i < n and samp[order[i]] < tn:
            j = order[i]
            active.append((j, samp[j], "T%d" % j))
            i += 1
        used.add(tn)
        a = active.pop(rng.randrange(len(active)))
        b = active.pop(rng.randrange(len(active)))
        nw = "(%s:%s,%s:%s)" % (a[2], float(tn - a[1]), b[2], float(tn - b[1]))
        active.append((next_id, tn, nw))
        next_id += 1
        coal.append(tn)
        t = tn
    newick = active[0][2] + ";"
    return {"samp": samp, "coal": coal, "newick": newick, "ties": ties}


def grid_for(rng, g, root, coal, samp, q=3, beyond_p=0.3, before_p=0.3, tie_samp_p=0.2):
    """g strictly increasing positive dyadic grid points, never equal to a coalescent time (N is
    two-valued there); may lie beyond the root, before the first coalescence, or on a sampling time."""
    den = 1 << (q + 1)
    first = min(coal)
    hi = root * (2 if rng.random() < beyond_p else 1)
    pts = set()
    guard = 0
    while len(pts) < g and guard < 10000:
        guard += 1
        r = rng.random()
        if r < before_p and first > Fraction(1, den):
            x = Fraction(rng.randint(1, max(1, int(first * den) - 1)), den)
        elif r < before_p + tie_samp_p and any(s > 0 for s in samp):
            x = rng.choice([s for s in samp if s > 0])
        else:
            x = Fraction(rng.randint(1, max(2, int(hi * den))), den)
        if x > 0 and x not in coal:
            pts.add(x)
    while len(pts) < g:  # tiny trees: fall back to odd multiples of a finer unit
        x = Fraction(2 * rng.randint(0, 1 << 12) + 1, 1 << (q + 6))
        if x not in coal:
            pts.add(x)
    return sorted(pts)


def pow2(rng, lo=-2, hi=3):
    e = rng.randint(lo, hi)
    return Fraction(2) ** e if e >= 0 else Fraction(1, 2 ** (-e))


def shuffled_blocks(rng, samp, coal):
    """a permutation inside the sampling block and inside the coalescent block"""
    ps = list(range(len(samp)))
    pc = list(range(len(coal)))
    rng.shuffle(ps)
    rng.shuffle(pc)
    return [samp[i] for i in ps], [coal[i] for i in pc], ps, pc
