"""C12 driver correspondence for the C08 / C20 models that C12 did not cover (companion of c12_corr.py):
exponential-growth, piecewise-linear and relaxed (temperature) skygrid coalescents, time-aware GMRF and
GMRFGammaIntegrated.  The C08 / C20 DEFINITIONS run unchanged at Dual Float in drv_c12 (`coal2_def`, `gmrf_def`,
`gint_def`: sort, unique, bucketize, soft-sort, time-aware weights included) and the builders the companion theorems
(`lean/TTProofs/Props/C12_Coalescent.lean`) are stated about (`exp_expr`, `gint_expr`); value (rel 1e-10) and forward-mode
tangent (rel 1e-7) against the implementation's value and autograd gradient on the same inputs.
"""
from __future__ import annotations

import math

from c12_corr import _ask, _cmp, _guard, _hx


def _heights_and_grads(spec, scen, g, treekind):
    n = spec["tree"]["n"]
    if treekind == "fake":
        nh = list(scen.x["nh"])
        gh = g["nh"]
    else:
        nh = [float(d) for d in spec["tree"]["dates"]] + list(scen.x["heights"])
        gh = [None] * n + (g["heights"] or [0.0] * (n - 1))
    gh = [None] * n + [x if x is not None else 0.0 for x in (gh or [0.0] * (2 * n - 1))[n:]]
    return n, nh, gh


def _coal2(ck, drv, rng, kind, treekind):
    import c12
    import c12_scen

    skind = {"exp": "exponential", "linear": "pwlinear", "soft": "skygrid_soft"}[kind]
    spec = c12_scen.gen_coal(rng, skind, treekind, False)
    scen = c12_scen.scenario(spec)
    try:
        v, g, b = c12.eval_grad(scen, scen.x)
    except Exception as e:
        ck.notes.append(f"driver corr {spec['name']}: implementation raised {type(e).__name__}")
        return
    gap = c12.min_gap(b)
    if gap is not None and gap < 1e-6:
        return
    n, nh, gh = _heights_and_grads(spec, scen, g, treekind)
    theta = list(scen.x["theta"])
    gth = g["theta"] or [0.0] * len(theta)
    grid = list(spec.get("grid", []))
    if kind == "exp":
        gr = list(scen.x["growth"])
        ggr = g["growth"] or [0.0]
        rep = _ask(drv, f"coal2_def exp | {_hx(theta + gr)} | {_hx(nh)} | ")
        impl_g = gth + ggr + gh
    elif kind == "linear":
        rep = _ask(drv, f"coal2_def linear | {_hx(theta)} | {_hx(nh)} | {_hx(grid)}")
        impl_g = gth + gh
    else:
        rep = _ask(drv, f"coal2_def soft | {_hx([spec['temperature']])} | {_hx(theta)} | {_hx(nh)} | {_hx(grid)}")
        impl_g = gth + gh
    if rep is None:
        ck.mismatch(f"coal2_def {kind}: driver refused the input", {"spec": spec})
        return
    _cmp(ck, f"coal2_def/{kind}/{treekind}", ("coal2_def", kind, treekind, tuple(nh), tuple(theta)),
         v, impl_g, rep[0], rep[1:], {"spec": spec})
    if kind == "exp":
        # builder route: the harness sorts (stable), the builder gets the sorted structure
        ev = [(t, 1 if i < n else -1, i) for i, t in enumerate(nh)]
        order = sorted(range(len(ev)), key=lambda k: ev[k][0])
        ts = [ev[k][0] for k in order]
        marks = [ev[k][1] for k in order]
        rep = _ask(drv, f"exp_expr | {_hx(theta + gr)} | {_hx(ts)} | {' '.join(str(m) for m in marks)}")
        if rep is None:
            ck.mismatch("exp_expr: driver refused the input", {"spec": spec})
            return
        gs = [None if ev[k][2] < n else gh[ev[k][2]] for k in order]
        _cmp(ck, f"exp_expr/{treekind}", ("exp_expr", treekind, tuple(nh), tuple(theta)), v, gth + ggr + gs,
             rep[0], rep[1:], {"spec": spec})


def _gmrf2(ck, drv, rng, variant, integrated, rescale):
    import c12
    import c12_scen

    spec = c12_scen.gen_gmrf(rng, variant, integrated, rescale)
    scen = c12_scen.scenario(spec)
    v, g, _b = c12.eval_grad(scen, scen.x)
    x = list(scen.x["field"])
    c = 1.8378770664093453
    if variant == "tree":
        mode = "T1" if rescale else "T0"
        extra = list(scen.x["heights"])
        gextra = [y if y is not None else 0.0 for y in (g.get("heights") or [0.0] * len(extra))]
    elif variant == "weighted":
        mode, extra, gextra = "W", list(spec["weights"]), []
    else:
        mode, extra, gextra = "P", [], []
    gfield = g["field"] or [0.0] * len(x)
    if not integrated:
        tau = scen.x["precision"][0]
        rep = _ask(drv, f"gmrf_def {mode} | {_hx(x)} | {_hx([tau, c])} | {_hx(extra)}")
        if rep is None:
            ck.mismatch("gmrf_def: driver refused the input", {"spec": spec})
            return
        _cmp(ck, f"gmrf_def/{mode}", ("gmrf_def", mode, tuple(x), tau, tuple(extra)), v,
             gfield + (g["precision"] or [0.0]) + gextra, rep[0], rep[1:], {"spec": spec})
        return
    sh, rt = spec["shape"], spec["rate"]
    dim = len(x) - 1
    ps = [math.log(2.0 * math.pi), sh, rt, math.lgamma(sh), math.lgamma(sh + dim / 2.0)]
    rep = _ask(drv, f"gint_def {mode} | {_hx(x)} | {_hx(ps)} | {_hx(extra)}")
    if rep is None:
        ck.mismatch("gint_def: driver refused the input", {"spec": spec})
        return
    _cmp(ck, f"gint_def/{mode}", ("gint_def", mode, tuple(x), sh, rt, tuple(extra)), v, gfield, rep[0], rep[1:],
         {"spec": spec})
    if mode in ("P", "W"):
        rep = _ask(drv, f"gint_expr | {_hx(x)} | {_hx(ps)} | {_hx(extra)}")
        if rep is None:
            ck.mismatch("gint_expr: driver refused the input", {"spec": spec})
            return
        _cmp(ck, f"gint_expr/{mode}", ("gint_expr", mode, tuple(x), sh, rt, tuple(extra)), v, gfield, rep[0],
             rep[1: 1 + len(x)], {"spec": spec})


def run(ck, drv, rng):
    reps = 6 if ck.thorough() else 2
    for _ in range(reps):
        for kind in ("exp", "linear", "soft"):
            for tk in ("fake", "time"):
                _guard(ck, lambda: _coal2(ck, drv, rng, kind, tk), f"coal2/{kind}/{tk}")
        for rescale in (False, True):
            _guard(ck, lambda: _gmrf2(ck, drv, rng, "tree", False, rescale), "gmrf2/tree")
            _guard(ck, lambda: _gmrf2(ck, drv, rng, "tree", True, rescale), "gint/tree")
        for variant in ("plain", "weighted"):
            _guard(ck, lambda: _gmrf2(ck, drv, rng, variant, False, True), "gmrf2/" + variant)
            _guard(ck, lambda: _gmrf2(ck, drv, rng, variant, True, True), "gint/" + variant)
