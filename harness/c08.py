"""C08 — coalescent priors equal the Kingman density of their demographic function.

Lean side : TTModel/C08_Coalescent.lean (argsort / cumsum[:-1] / gather formulation, as written) and
            TTProofs/Props/C08.lean: sorted_sum_eq_integral, lineage_count_correct,
            {constant,skyride,skygrid,exponential}_eq_kingman (model = -int C(k,2)/N - sum log N(c_j), any
            order of the input blocks, any tie pattern), *_perm_invariant, *_all_equal_is_constant,
            scaling laws.
Tie       : correspondence model <-> torchtree on generated genealogies (n = 2..50, dyadic times, forced
            ties, shuffled input order, grids before the first coalescence / on sampling times / beyond the
            root, FakeTreeModel and real TimeTreeModel paths, batched theta / heights / both): discrete
            outputs exact, values at 1e-12 (1e-10 through exp).
Search    : the property's own oracle on the implementation, always run: the declarative Kingman density
            (harness/c08_oracle.py: counting + per-piece closed form in 40-digit arithmetic, no sorting,
            cross-checked by Gauss-Legendre) for all six model classes, plus permutation invariance,
            all-equal = constant, and the scaling law evaluated on the real code.
"""
from __future__ import annotations

import json
import math
from fractions import Fraction as F
from pathlib import Path

import c08_gen as G
import c08_oracle as O
from common import REPO, VERIF, Check, f2h, h2f, use_repo

TOL_EXACT = 1e-12
TOL_TRANS = 1e-10
TOL_ORACLE = 1e-10


# ----------------------------------------------------------------------------- encoding
def fr(x) -> str:
    x = F(x)
    return f"{x.numerator}/{x.denominator}"


def unfr(s):
    return F(s)


def Hx(xs):
    return " ".join(f2h(float(x)) for x in xs)


def Qx(xs):
    return " ".join(fr(x) for x in xs)


def enc_case(c):
    d = {}
    for k, v in c.items():
        if isinstance(v, list):
            d[k] = [fr(x) if isinstance(x, (F, int)) and not isinstance(x, bool) else x for x in v]
        elif isinstance(v, F):
            d[k] = fr(v)
        else:
            d[k] = v
    return d


def dec_case(d):
    c = {}
    for k, v in d.items():
        if k in ("samp", "coal", "thetas", "grid", "growths"):
            c[k] = [F(x) for x in v]
        elif k in ("growth", "scale"):
            c[k] = F(v)
        else:
            c[k] = v
    return c


# ----------------------------------------------------------------------------- implementation side
def T(xs):
    import torch

    return torch.tensor([float(x) for x in xs], dtype=torch.float64)


def T2(rows):
    import torch

    return torch.tensor([[float(x) for x in r] for r in rows], dtype=torch.float64)


def distribution(case, thetas=None, growth=None):
    """the torchtree distribution object of a case (thetas/growth may be tensors for batched runs)"""
    import torchtree.evolution.coalescent as C

    k = case["kind"]
    th = T(case["thetas"]) if thetas is None else thetas
    if k == "constant":
        return C.ConstantCoalescent(th)
    if k == "skyride":
        return C.PiecewiseConstantCoalescent(th)
    if k == "skygrid":
        return C.PiecewiseConstantCoalescentGrid(th, T(case["grid"]))
    if k == "softgrid":
        tau = float(F(case["temperature"])) if case.get("temperature") else None
        return C.SoftPiecewiseConstantCoalescentGrid(th, T(case["grid"]), tau)
    if k == "exponential":
        return C.ExponentialCoalescent(th, T([case["growth"]]) if growth is None else growth)
    if k == "linear":
        return C.PiecewiseLinearCoalescentGrid(th, T(case["grid"]))
    if k == "pwexp":
        return C.PiecewiseExponentialCoalescentGrid(th, T(case["growths"]) if growth is None else growth, T(case["grid"]))
    raise ValueError(k)


def impl_value(case, samp=None, coal=None):
    """float or ('EXC', type, message)"""
    samp = case["samp"] if samp is None else samp
    coal = case["coal"] if coal is None else coal
    try:
        v = distribution(case).log_prob(T(list(samp) + list(coal)))
        if v.numel() != 1:
            return ("EXC", "Shape", f"log_prob returned shape {tuple(v.shape)}")
        return float(v.reshape(-1)[0])
    except Exception as e:  # the implementation raised: an oracle failure, not a harness crash
        return ("EXC", type(e).__name__, str(e)[:160])


def demographic(case):
    k = case["kind"]
    if k == "constant":
        return O.ConstN(case["thetas"][0])
    if k == "skyride":
        return O.StepN(case["thetas"], case["coal"])
    if k in ("skygrid", "softgrid"):
        return O.StepN(case["thetas"], case["grid"])
    if k == "exponential":
        return O.ExpN(case["thetas"][0], case["growth"])
    if k == "linear":
        return O.LinearN(case["thetas"], case["grid"])
    if k == "pwexp":
        return O.PwExpN(case["thetas"], case["growths"], case["grid"], continuous=False)
    raise ValueError(k)


def oracle_value(case):
    """(value, scale): the declarative Kingman density and the magnitude of its terms"""
    N = demographic(case)
    v, integ, _ = O.kingman(case["samp"], case["coal"], N)
    scale = 1.0 + abs(float(O.M(integ))) + sum(abs(float(O.mp.log(O.M(N.at(c))))) for c in case["coal"])
    return float(v), scale


def model_request(case, samp, coal):
    k = case["kind"]
    h = list(samp) + list(coal)
    if k == "constant":
        return f"const F {Hx(case['thetas'])} | {Hx(h)}"
    if k == "skyride":
        return f"skyride F {Hx(case['thetas'])} | {Hx(h)}"
    if k == "skygrid":
        return f"skygrid F {Hx(case['thetas'])} | {Hx(h)} | {Hx(case['grid'])}"
    if k == "exponential":
        return f"exp F {Hx([case['thetas'][0], case['growth']])} | {Hx(h)}"
    if k == "linear":
        return f"linear F {Hx(case['thetas'])} | {Hx(h)} | {Hx(case['grid'])}"
    return None


def close(a, b, tol, scale=1.0):
    if isinstance(a, tuple) or isinstance(b, tuple):
        return False
    if math.isnan(a) or math.isnan(b):
        return False
    return abs(a - b) <= tol * max(1.0, scale, abs(b))


# ----------------------------------------------------------------------------- case generation
MODELLED = ("constant", "skyride", "skygrid", "exponential", "linear")
ALL_KINDS = MODELLED + ("softgrid", "pwexp")


def make_case(rng, kind, n, gen=None, flat=None):
    g = gen or G.genealogy(rng, n, homochronous=rng.random() < 0.15, q=3)
    samp, coal = g["samp"], g["coal"]
    c = {"kind": kind, "samp": samp, "coal": coal, "newick": g["newick"]}
    if kind in ("constant", "exponential"):
        c["thetas"] = [G.pow2(rng)]
    elif kind == "skyride":
        c["thetas"] = [G.pow2(rng) for _ in coal]
    else:
        gg = rng.randint(1, 8)
        c["grid"] = G.grid_for(rng, gg, max(coal), coal, samp, q=3)
        ths = []
        # linear: adjacent equal sizes (a flat stretch of N) are a class of their own
        want_flat = rng.random() < 0.35 if flat is None else flat
        for _ in range(gg + 1):
            t = G.pow2(rng)
            while kind == "linear" and not want_flat and ths and t == ths[-1]:
                t = G.pow2(rng)
            ths.append(t)
        c["thetas"] = ths
    if kind == "exponential":
        c["growth"] = F(rng.choice([-8, -5, -3, -2, -1, 1, 2, 3, 5, 8]), 8)
    if kind == "pwexp":
        c["growths"] = [F(rng.choice([-3, -2, -1, 1, 2, 3]), 8) for _ in c["thetas"]]
    return c


def canon_marks(times, marks):
    """ties may be ordered either way by argsort: sort the marks inside groups of equal time"""
    out, i = [], 0
    while i < len(times):
        j = i
        while j < len(times) and times[j] == times[i]:
            j += 1
        out += sorted(marks[i:j], reverse=True)
        i = j
    return out


# ----------------------------------------------------------------------------- the checks on one case
HARNESS_DIR = str(Path(__file__).resolve().parent)


def observe(ck, what, fn):
    """read something OFF a library object (an attribute, an accessor) — never the property's observable itself.
    Names of attributes are not part of what is verified: when the read fails (AttributeError / TypeError / KeyError /
    IndexError) the observation is simply unavailable — bucketed and noted, never a violation, never a mismatch.
    -> (available, value)"""
    try:
        return True, fn()
    except (AttributeError, TypeError, KeyError, IndexError) as e:
        ck.bucket(f"observation-unavailable/{what}")
        note = f"observation unavailable ({what}): {type(e).__name__}: {str(e)[:100]}"
        if note not in ck.notes:
            ck.notes.append(note)
        return False, None


def harness_introspection(e):
    """an AttributeError raised by a line of the HARNESS (innermost frame in harness/) on something that is not an
    unusable output (None): the harness looked for a name the object does not have — not a finding"""
    import traceback

    tb = traceback.extract_tb(e.__traceback__)
    return (isinstance(e, AttributeError) and tb and tb[-1].filename.startswith(HARNESS_DIR) and "'NoneType'" not in str(e))



class Runner:
    def __init__(self, ck: Check, drv):
        self.ck = ck
        self.drv = drv
        self.fail = {}  # sig -> (size, what, replay)

    def guard(self, name, fn, *a, **k):
        """an unusable output of the implementation (wrong shape / type) that trips the harness later is an
        oracle failure of the implementation, not a harness crash"""
        try:
            return fn(*a, **k)
        except Exception as e:
            import traceback

            from common import InfraError

            if isinstance(e, InfraError):
                raise
            tb = traceback.extract_tb(e.__traceback__)[-1]
            if harness_introspection(e):
                self.ck.mismatch(f"{name}: the harness could not observe an object ({type(e).__name__}: {str(e)[:120]} at {tb.name}:{tb.lineno})", {"check": name})
                return
            case = next((x for x in a if isinstance(x, dict) and "kind" in x), None)
            if case is None:
                case = {"kind": "constant", "samp": [F(0), F(0)], "coal": [F(1)], "thetas": [F(1)], "note": name}
            self.violation(f"{name}:unusable-output",
                           f"{name}: the implementation's output could not be used ({type(e).__name__}: {str(e)[:120]} at {tb.name}:{tb.lineno})",
                           case, size=10 ** 6)

    def violation(self, sig, what, case, extra=None, size=None):
        size = len(case["samp"]) if size is None else size
        if sig not in self.fail or size < self.fail[sig][0]:
            rep = {"case": enc_case(case), "replay_cmd": "./check C08 --replay <this file>"}
            rep.update(extra or {})
            self.fail[sig] = (size, what, rep)

    # -- oracle on the implementation (the property itself)
    def oracle(self, case, order=None):
        cls = type(distribution(case)).__name__
        samp, coal = case["samp"], case["coal"]
        if order:
            samp = [samp[i] for i in order[0]]
            coal = [coal[i] for i in order[1]]
        v = impl_value(case, samp, coal)
        if isinstance(v, tuple):
            self.violation(f"{cls}.log_prob:raises",
                           f"{cls}.log_prob raises {v[1]}: {v[2]} (n={len(samp)})", case,
                           {"order": order, "impl": list(v)})
            return None
        o, scale = oracle_value(case)
        tol = TOL_ORACLE
        if not close(v, o, tol, scale):
            self.violation(f"{cls}.log_prob:value",
                           f"{cls}.log_prob = {v!r} but the Kingman density of its documented N(t) is {o!r} (n={len(samp)})",
                           case, {"order": order, "impl": v, "oracle": o})
        return v

    # -- model <-> implementation
    def correspondence(self, case, order):
        samp = [case["samp"][i] for i in order[0]]
        coal = [case["coal"][i] for i in order[1]]
        req = model_request(case, samp, coal)
        if req is None or self.drv is None:
            return
        rep = self.drv.ask(req)
        v = impl_value(case, samp, coal)
        if rep == "bad-op" or isinstance(v, tuple):
            self.ck.mismatch("model/implementation value", {"case": enc_case(case), "order": order, "model": rep, "impl": v})
            return
        m = h2f(rep)
        _, scale = oracle_value(case)
        tol = TOL_TRANS if case["kind"] in ("exponential", "linear") else TOL_EXACT
        if not close(v, m, tol, scale):
            self.ck.mismatch("model/implementation value",
                             {"case": enc_case(case), "order": order, "model": m, "impl": v})

    def discrete(self, case, order):
        """sorted marks, lineage counts and theta indices: exact"""
        import torch

        if case["kind"] not in ("skyride", "skygrid") or self.drv is None:
            return
        samp = [case["samp"][i] for i in order[0]]
        coal = [case["coal"][i] for i in order[1]]
        grid = case.get("grid", [])
        rep = self.drv.ask(f"events Q | {Qx(samp + coal)} | {Qx(grid)}")
        terms = self.drv.ask(f"terms Q | {Qx(samp + coal)} | {Qx(grid)}")
        d = distribution(case)
        # an internal of the implementation (no public accessor for the sorted events): observed when it is there
        have, st = observe(self.ck, "sorted-terms", lambda: d._sorted_terms)
        if not have:
            return
        try:
            have, out = observe(self.ck, "sorted-terms", lambda: tuple(st(T(samp + coal))))
            if not have or len(out) != 3:
                self.ck.bucket("observation-unavailable/sorted-terms")
                return
            mask, lch, dur = out
            times = sorted(samp + coal + list(grid))
            impl_marks = canon_marks(times, [int(x) for x in mask.tolist()])
            impl_terms = [F(float(a)) * F(float(b)) for a, b in zip(lch.tolist(), dur.tolist())]
            idx_v = -1 if case["kind"] == "skyride" else 0
            cs = torch.where(mask == idx_v, 1, 0).cumsum(-1).tolist()
        except Exception as e:
            self.ck.mismatch("discrete outputs: implementation raised", {"case": enc_case(case), "exc": str(e)[:200]})
            return
        if rep == "bad-op" or terms == "bad-op":
            self.ck.mismatch("discrete outputs: model answered bad-op", {"case": enc_case(case)})
            return
        w = rep.split()
        f = {w[i]: ([int(x) for x in w[i + 1].split(",")] if i + 1 < len(w) and w[i + 1] not in ("lin", "ridx", "gidx") else [])
             for i in range(0, len(w)) if w[i] in ("marks", "lin", "ridx", "gidx")}
        model_marks = canon_marks(times, f["marks"])
        model_terms = [F(x) for x in terms.split()]
        bad = []
        if model_marks != impl_marks:
            bad.append("sorted marks")
        if model_terms != impl_terms:
            bad.append("lchoose2*durations")
        # lineage counts / theta indices are compared on the intervals of positive length (inside a tie
        # group the running counters depend on the unspecified tie order, and multiply a zero duration)
        pos = [i for i in range(len(times) - 1) if times[i] < times[i + 1]]
        lin_impl = [int(round((1 + math.sqrt(1 + 8 * float(x))) / 2)) if float(x) > 0 else None for x in lch.tolist()]
        for i in pos:
            if lin_impl[i] is not None and f["lin"][i] != lin_impl[i]:
                bad.append(f"lineage count at interval {i}")
                break
        midx = f["ridx"] if case["kind"] == "skyride" else f["gidx"]
        for i in pos:
            if midx[i] != cs[i]:
                bad.append(f"theta index at interval {i}")
                break
        if bad:
            self.ck.mismatch("discrete outputs differ: " + ", ".join(bad),
                             {"case": enc_case(case), "order": order, "model": rep, "impl_marks": impl_marks})

    # -- consequences stated by the property, on the implementation
    def perm_invariance(self, case, order):
        cls = type(distribution(case)).__name__
        a = impl_value(case)
        b = impl_value(case, [case["samp"][i] for i in order[0]], [case["coal"][i] for i in order[1]])
        if isinstance(a, tuple) or isinstance(b, tuple):
            return
        _, scale = oracle_value(case)
        if not close(a, b, TOL_ORACLE, scale):
            self.violation(f"{cls}.log_prob:order",
                           f"{cls}.log_prob depends on the order of node heights: {a!r} vs {b!r}", case,
                           {"order": order, "impl": [a, b]})

    def all_equal(self, rng, case):
        """all pieces equal is the constant model"""
        if case["kind"] not in ("skyride", "skygrid", "linear", "softgrid"):
            return
        th = G.pow2(rng)
        c2 = dict(case, thetas=[th] * len(case["thetas"]))
        cc = {"kind": "constant", "samp": case["samp"], "coal": case["coal"], "thetas": [th]}
        a, b = impl_value(c2), impl_value(cc)
        if isinstance(a, tuple) or isinstance(b, tuple):
            return
        cls = type(distribution(case)).__name__
        _, scale = oracle_value(cc)
        if not close(a, b, TOL_ORACLE, scale):
            self.violation(f"{cls}.log_prob:all-equal",
                           f"{cls} with all pieces equal to {float(th)} gives {a!r}, the constant model {b!r}", c2,
                           {"impl": [a, b]})

    def scaling(self, rng, case):
        """times and sizes scaled by c: value shifts by -(n-1) log c"""
        if case["kind"] == "pwexp":
            return
        s = F(rng.choice([2, 4, 8, 1]), rng.choice([1, 2, 16]))
        if s == 1:
            s = F(1, 4)
        c2 = dict(case)
        c2["samp"] = [x * s for x in case["samp"]]
        c2["coal"] = [x * s for x in case["coal"]]
        c2["thetas"] = [x * s for x in case["thetas"]]
        if "grid" in case:
            c2["grid"] = [x * s for x in case["grid"]]
        if "growth" in case:
            c2["growth"] = case["growth"] / s
        a, b = impl_value(case), impl_value(c2)
        if isinstance(a, tuple) or isinstance(b, tuple):
            return
        n = len(case["samp"])
        want = a - (n - 1) * math.log(float(s))
        cls = type(distribution(case)).__name__
        _, scale = oracle_value(case)
        if not close(b, want, TOL_ORACLE, scale + (n - 1) * abs(math.log(float(s)))):
            self.violation(f"{cls}.log_prob:scaling",
                           f"{cls}: scaling times and sizes by {float(s)} changes the value by {b - a!r}, not -(n-1) log c = {want - a!r}",
                           case, {"scale": fr(s), "impl": [a, b]})

    # -- batched: row s of the answer is the answer for slice s
    def batched(self, rng, kind, n):
        import torch

        B = rng.randint(2, 3)
        mode = rng.choice(["both", "theta", "heights"])
        if kind in ("skyride", "linear", "softgrid") and mode != "both":
            mode = "both" if kind == "skyride" or mode == "theta" else mode
        cases = []
        base = make_case(rng, kind, n, flat=False)
        for s in range(B):
            c = make_case(rng, kind, n, flat=False)
            if "grid" in base:  # one grid for the whole batch, clear of every row's coalescent times
                c["grid"] = base["grid"]
                c["thetas"] = [G.pow2(rng) for _ in base["thetas"]]
                if kind == "linear":
                    for i in range(1, len(c["thetas"])):
                        while c["thetas"][i] == c["thetas"][i - 1]:
                            c["thetas"][i] = G.pow2(rng)
            if "growth" in base:
                c["growth"] = base["growth"] if mode == "heights" else c["growth"]
            if mode == "theta":
                c["samp"], c["coal"] = base["samp"], base["coal"]
            if mode == "heights":
                c["thetas"] = base["thetas"]
            cases.append(c)
        if "grid" in base:
            allc = set(x for c in cases for x in c["coal"])
            if any(gp in allc for gp in base["grid"]):
                return
        try:
            th = T2([c["thetas"] for c in cases]) if mode != "heights" else T(base["thetas"])
            gr = None
            if kind == "exponential":
                gr = T2([[c["growth"]] for c in cases]) if mode != "heights" else T([base["growth"]])
            hs = T2([c["samp"] + c["coal"] for c in cases]) if mode != "theta" else T(base["samp"] + base["coal"])
            out = distribution(base, thetas=th, growth=gr).log_prob(hs)
            out = [float(x) for x in out.reshape(-1).tolist()]
        except Exception as e:
            out = ("EXC", type(e).__name__, str(e)[:160])
        cls = type(distribution(base)).__name__
        self.ck.case(key=("batch", kind, mode, n, B), bucket=f"batched/{kind}/{mode}")
        if isinstance(out, tuple) or len(out) != B:
            self.violation(f"{cls}.log_prob:batch-raises",
                           f"{cls}.log_prob with batched {mode} (B={B}, n={n}) fails: {out}", base,
                           {"batch": [enc_case(c) for c in cases], "mode": mode})
            return
        for s, c in enumerate(cases):
            o, scale = oracle_value(c)
            if not close(out[s], o, TOL_ORACLE, scale):
                self.violation(f"{cls}.log_prob:batch-value",
                               f"{cls}.log_prob batched ({mode}) row {s} = {out[s]!r}, Kingman density of that slice = {o!r}",
                               c, {"batch": [enc_case(c) for c in cases], "mode": mode, "row": s})
            req = model_request(c, c["samp"], c["coal"])
            if req and self.drv:
                m = self.drv.ask(req)
                tol = TOL_TRANS if kind in ("exponential", "linear") else TOL_EXACT
                if m == "bad-op" or not close(out[s], h2f(m), tol, scale):
                    self.ck.mismatch("batched row differs from model on the slice",
                                     {"case": enc_case(c), "row": s, "mode": mode, "impl": out[s], "model": m})

    # -- the model classes (`__call__` through FakeTreeModel and through a real TimeTreeModel)
    def model_paths(self, case):
        import torch
        import torchtree.evolution.coalescent as C
        from torchtree import Parameter
        from torchtree.evolution.tree_model import TimeTreeModel

        k = case["kind"]
        ctor = {"constant": C.ConstantCoalescentModel, "skyride": C.PiecewiseConstantCoalescentModel,
                "skygrid": C.PiecewiseConstantCoalescentGridModel, "exponential": C.ExponentialCoalescentModel,
                "linear": C.PiecewiseLinearCoalescentGridModel}.get(k)
        if ctor is None:
            return
        samp, coal = case["samp"], case["coal"]
        want = impl_value(case)
        if isinstance(want, tuple):
            return
        theta = Parameter("theta", T(case["thetas"]))

        def build(tree):
            if k in ("constant", "skyride"):
                return ctor("coalescent", theta, tree)
            if k == "exponential":
                return ctor("coalescent", theta, Parameter("growth", T([case["growth"]])), tree)
            return ctor("coalescent", theta, Parameter("grid", T(case["grid"])), tree)

        vals = {}
        try:
            vals["FakeTreeModel"] = float(build(C.FakeTreeModel(Parameter("h", T(samp + coal))))().reshape(-1)[0])
            taxa = {f"T{i}": float(s) for i, s in enumerate(samp)}
            js = TimeTreeModel.json_factory("tree", case["newick"], [0.0] * len(coal), taxa, keep_branch_lengths=True)
            js["internal_heights"]["dtype"] = "torch.float64"
            tm = TimeTreeModel.from_json(js, {})
            nh = [F(float(x)) for x in tm.node_heights.tolist()]
            if sorted(nh[: len(samp)]) != sorted(samp) or sorted(nh[len(samp):]) != sorted(coal):
                self.ck.notes.append("TimeTreeModel did not reproduce the generated heights exactly; real-tree path skipped for one case")
            else:
                vals["TimeTreeModel"] = float(build(tm)().reshape(-1)[0])
        except Exception as e:
            vals["EXC"] = f"{type(e).__name__}: {str(e)[:160]}"
        _, scale = oracle_value(case)
        for path, v in vals.items():
            self.ck.bucket(f"path/{path}")
            if path == "EXC" or not close(v, want, TOL_ORACLE, scale):
                self.violation(f"{ctor.__name__}.__call__:{'raises' if path == 'EXC' else 'value'}",
                               f"{ctor.__name__} through {path}: {v!r}, distribution().log_prob gives {want!r}", case,
                               {"path": path})


# ----------------------------------------------------------------------------- batches with ONE special row
SPECIALS = {
    "zero-growth": ("exponential",),
    "equal-adjacent-theta": ("skyride", "skygrid", "linear"),
    "coal-on-grid": ("skygrid", "linear"),
    "tied-heights": ("constant", "exponential", "skyride", "skygrid", "linear"),
}


def batched_special(R: Runner, rng, kind, special, n):
    """a batch in which exactly ONE row holds a special value (growth exactly 0, two adjacent population sizes equal, a
    coalescent time exactly on a grid point, tied heights): a data-dependent decision taken once for the whole tensor
    (`torch.any`, `unique`, `nonzero` feeding a Python branch) would change the OTHER rows. Every other row must be the
    Kingman density of its own slice (and the Lean model's value); the special row is checked when it is finite."""
    import torch

    B = rng.randint(2, 4)
    s0 = rng.randrange(B)
    base = make_case(rng, kind, n, flat=False)
    rows = []
    for s in range(B):
        gen = None
        if special == "tied-heights":
            for _try in range(50):
                gen = G.genealogy(rng, n, q=3, tie_p=0.9 if s == s0 else 0.0, coal_tie_samp_p=0.6 if s == s0 else 0.0)
                allt = gen["samp"] + gen["coal"]
                if s == s0 or len(set(allt)) == len(allt):
                    break
        c = make_case(rng, kind, n, gen=gen, flat=False)
        if "grid" in base:
            # every row shares the base grid: a row whose own coalescent time falls on it is the 'coal-on-grid' special
            # (two admissible one-sided values), not the special under test
            for _try in range(50):
                if gen is not None or not any(gp in c["coal"] for gp in base["grid"]):
                    break
                c = make_case(rng, kind, n, gen=None, flat=False)
            c["grid"] = base["grid"]
            c["thetas"] = [G.pow2(rng) for _ in base["thetas"]]
            for i in range(1, len(c["thetas"])):
                while c["thetas"][i] == c["thetas"][i - 1]:
                    c["thetas"][i] = G.pow2(rng)
        if kind == "skyride":
            for i in range(1, len(c["thetas"])):
                while c["thetas"][i] == c["thetas"][i - 1]:
                    c["thetas"][i] = G.pow2(rng)
        rows.append(c)
    sp = rows[s0]
    if special == "zero-growth":
        sp["growth"] = F(0)
    elif special == "equal-adjacent-theta":
        if len(sp["thetas"]) < 2:
            return
        i = rng.randrange(len(sp["thetas"]) - 1)
        sp["thetas"][i + 1] = sp["thetas"][i]
    elif special == "coal-on-grid":
        c0 = rng.choice(sp["coal"])
        grid = sorted(set(base["grid"]) | {c0})
        for c in rows:
            c["grid"] = grid
            c["thetas"] = [G.pow2(rng) for _ in range(len(grid) + 1)]
            for i in range(1, len(c["thetas"])):
                while c["thetas"][i] == c["thetas"][i - 1]:
                    c["thetas"][i] = G.pow2(rng)
        base = dict(base, grid=grid)
    # the non-special rows must be clear of the special situations (and the special row of every OTHER special)
    for s, c in enumerate(rows):
        if s == s0:
            if special != "coal-on-grid" and "grid" in c and any(gp in c["coal"] for gp in c["grid"]):
                return
            continue
        if "grid" in c and any(gp in c["coal"] for gp in c["grid"]):
            return
        if len(set(c["coal"])) < len(c["coal"]):
            return
    cls = type(distribution(base)).__name__
    R.ck.case(key=("batch-special", kind, special, n, B, s0, tuple(sp["coal"])), bucket=f"batched-special/{kind}/{special}")
    try:
        th = T2([c["thetas"] for c in rows])
        gr = T2([[c["growth"]] for c in rows]) if kind == "exponential" else None
        hs = T2([c["samp"] + c["coal"] for c in rows])
        out = [float(x) for x in distribution(base, thetas=th, growth=gr).log_prob(hs).reshape(-1).tolist()]
    except Exception as e:
        R.violation(f"{cls}.log_prob:batch-special:{special}:raises",
                    f"{cls}.log_prob raises on a batch whose row {s0} holds the special value '{special}': {type(e).__name__}: {str(e)[:120]}",
                    sp, {"batch": [enc_case(c) for c in rows], "special_row": s0}, size=n)
        return
    if len(out) != B:
        R.violation(f"{cls}.log_prob:batch-special:{special}:shape", f"{len(out)} values for {B} rows", sp, size=n)
        return
    for s, c in enumerate(rows):
        v = out[s]
        if s == s0:
            if not math.isfinite(v):
                R.ck.bucket(f"batched-special/{special}/special-row-not-finite")
                continue
            if special == "coal-on-grid":
                continue  # either one-sided value is admissible there (probe_ties)
        if special == "zero-growth" and s == s0:
            o, scale = oracle_value(dict(c, kind="constant"))
        else:
            o, scale = oracle_value(c)
        if not close(v, o, TOL_ORACLE, scale):
            R.violation(f"{cls}.log_prob:batch-special:{special}",
                        f"{cls}.log_prob on a batch of {B} rows in which row {s0} holds '{special}': row {s} = {v!r}, Kingman density of that slice = {o!r}",
                        c, {"batch": [enc_case(x) for x in rows], "special_row": s0, "row": s, "impl": v, "oracle": o}, size=n)
        elif s != s0:
            req = model_request(c, c["samp"], c["coal"])
            if req and R.drv:
                m = R.drv.ask(req)
                tol = TOL_TRANS if kind in ("exponential", "linear") else TOL_EXACT
                if m == "bad-op" or not close(v, h2f(m), tol, scale):
                    R.ck.mismatch("row of a special-value batch differs from the model on the slice",
                                  {"case": enc_case(c), "row": s, "special": special, "impl": v, "model": m})


# ----------------------------------------------------------------------------- relaxed skygrid (temperature)
def soft_check(R: Runner, rng, n):
    """SoftPiecewiseConstantCoalescentGrid with a temperature: Lean model (TTModel/C08_Soft.lean) vs torchtree, and the
    exact fact soft_all_equal evaluated on the implementation"""
    import torchtree.evolution.coalescent as C

    g = G.genealogy(rng, n, q=3)
    samp, coal, _, _ = G.shuffled_blocks(rng, g["samp"], g["coal"])
    gg = rng.randint(1, 6)
    grid = G.grid_for(rng, gg, max(coal), coal, samp, q=3)
    thetas = [F(rng.randint(2, 48), 8) for _ in range(gg + 1)]
    tau = rng.choice([F(1, 32), F(1, 8), F(1, 2), F(1), F(3)])
    case = {"kind": "softgrid", "samp": samp, "coal": coal, "grid": grid, "thetas": thetas, "temperature": fr(tau)}
    R.ck.case(key=("soft", n, tuple(samp), tuple(coal), tuple(grid), tuple(thetas), tau), bucket=f"soft-temperature/tau={float(tau)}")
    h = samp + coal
    try:
        v = float(C.SoftPiecewiseConstantCoalescentGrid(T(thetas), T(grid), float(tau)).log_prob(T(h)).reshape(-1)[0])
        th0 = F(rng.randint(2, 48), 8)
        veq = float(C.SoftPiecewiseConstantCoalescentGrid(T([th0] * (gg + 1)), T(grid), float(tau)).log_prob(T(h)).reshape(-1)[0])
    except Exception as e:
        R.violation("SoftPiecewiseConstantCoalescentGrid(temperature).log_prob:raises", f"raises {type(e).__name__}: {str(e)[:120]}", case, size=n)
        return
    if R.drv is None:
        return
    m = R.drv.ask(f"soft F {Hx([tau])} | {Hx(thetas)} | {Hx(h)} | {Hx(grid)}")
    st = R.drv.ask(f"softstat F {Hx([tau])} | {Hx(h)} | {Hx(grid)}")
    if m == "bad-op" or st == "bad-op":
        R.ck.mismatch("soft model answered bad-op", {"case": enc_case(case)})
        return
    if not close(v, h2f(m), 1e-9, abs(v)):
        R.ck.mismatch("relaxed skygrid differs from the Lean model", {"case": enc_case(case), "impl": v, "model": h2f(m)})
    want = -h2f(st) / float(th0) - (n - 1) * math.log(float(th0))
    if not close(veq, want, 1e-9, abs(want)):
        R.violation("SoftPiecewiseConstantCoalescentGrid(temperature).log_prob:all-equal",
                    f"relaxed skygrid with all pieces equal to {float(th0)} gives {veq!r}; -(relaxed statistic)/theta - (n-1) log theta = {want!r}",
                    dict(case, thetas=[th0] * (gg + 1)), {"impl": veq, "want": want}, size=n)


def soft_batched(R: Runner, rng, n):
    """relaxed skygrid (temperature) on a batch whose rows are DIFFERENT genealogies (different sampling times): row s
    must be the value of the unbatched evaluation of slice s"""
    import torchtree.evolution.coalescent as C

    B = rng.randint(2, 3)
    # rows without tied sampling times: the relaxed model merges tied samples into one event of mass m (torch.unique),
    # which a batch whose rows have DIFFERENT tie patterns cannot do row by row; only the Kingman branch
    # (temperature=None, checked by `batched`) is independent of that merge
    gens = []
    for _ in range(B):
        for _try in range(100):
            g = G.genealogy(rng, n, q=4, tie_p=0.0, coal_tie_samp_p=0.0)
            if len(set(g["samp"])) == n:
                break
        gens.append(g)
    if any(len(set(g["samp"])) < n for g in gens):
        return
    gg = rng.randint(1, 4)
    grid = G.grid_for(rng, gg, max(gens[0]["coal"]), [c for g in gens for c in g["coal"]], gens[0]["samp"], q=3)
    rows = [[F(rng.randint(2, 48), 8) for _ in range(gg + 1)] for _ in range(B)]
    tau = float(rng.choice([F(1, 8), F(1, 2), F(1)]))
    case = {"kind": "softgrid", "samp": gens[0]["samp"], "coal": gens[0]["coal"], "grid": grid, "thetas": rows[0], "temperature": fr(F(tau))}
    R.ck.case(key=("soft-batch", n, B, tuple(gens[0]["coal"]), tuple(grid)), bucket="soft-temperature/batched-different-genealogies")
    try:
        out = C.SoftPiecewiseConstantCoalescentGrid(T2(rows), T(grid), tau).log_prob(T2([g["samp"] + g["coal"] for g in gens]))
        vals = [float(x) for x in out.reshape(-1).tolist()]
        single = [float(C.SoftPiecewiseConstantCoalescentGrid(T(rows[s]), T(grid), tau).log_prob(T(gens[s]["samp"] + gens[s]["coal"])).reshape(-1)[0])
                  for s in range(B)]
    except Exception as e:
        R.violation("SoftPiecewiseConstantCoalescentGrid(temperature).log_prob:batch-raises", f"{type(e).__name__}: {str(e)[:120]}", case, size=n)
        return
    for s in range(B):
        if len(vals) != B or not close(vals[s], single[s], 1e-11, abs(single[s])):
            R.violation("SoftPiecewiseConstantCoalescentGrid(temperature).log_prob:batch-row",
                        f"relaxed skygrid on a batch of {B} different genealogies: row {s} = {vals[s] if len(vals) == B else vals!r}, the unbatched evaluation of that slice = {single[s]!r}",
                        dict(case, samp=gens[s]["samp"], coal=gens[s]["coal"], thetas=rows[s]),
                        {"batch": [enc_case({"kind": "softgrid", "samp": g["samp"], "coal": g["coal"], "grid": grid, "thetas": rows[i]}) for i, g in enumerate(gens)],
                         "row": s}, size=n)
            return


# ----------------------------------------------------------------------------- from_json construction paths
def json_paths(R: Runner, rng, kind, n):
    """the `*Model.from_json` constructors: data given as `times`/`events` or `intervals`/`events` (FakeTreeModel
    path), grid given as a list or as `cutoff` (equally spaced)"""
    import torchtree.evolution.coalescent as C

    ctor = {"constant": C.ConstantCoalescentModel, "skyride": C.PiecewiseConstantCoalescentModel,
            "skygrid": C.PiecewiseConstantCoalescentGridModel, "exponential": C.ExponentialCoalescentModel,
            "linear": C.PiecewiseLinearCoalescentGridModel}[kind]
    case = make_case(rng, kind, n, flat=False)
    samp, coal = case["samp"], case["coal"]
    # events in time order for the `intervals` form (first time must be 0: cumsum starts there)
    ev = sorted([(t, 1) for t in samp] + [(t, 0) for t in coal], key=lambda p: (p[0], -p[1]))
    variants = []
    base = {"id": "coalescent", "type": ctor.__name__,
            "theta": {"id": "theta", "type": "Parameter", "tensor": [float(x) for x in case["thetas"]], "dtype": "torch.float64"}}
    if kind == "exponential":
        base["growth"] = {"id": "growth", "type": "Parameter", "tensor": [float(case["growth"])], "dtype": "torch.float64"}
    data_times = {"times": [float(t) for t, _ in ev], "events": [e for _, e in ev]}
    data_intervals = {"intervals": [float(b[0] - a[0]) for a, b in zip(ev, ev[1:])], "events": [e for _, e in ev]}
    for dname, d in (("times", data_times), ("intervals", data_intervals)):
        if "grid" in case:
            variants.append((dname + "+grid-list", dict(base, **d, grid=[float(x) for x in case["grid"]]), case))
            K = len(case["thetas"])
            cutoff = float(max(coal)) * rng.choice([0.5, 1.0, 1.5])
            gridc = [F(cutoff) * i / (K - 1) for i in range(1, K)] if K > 1 else []
            if K > 1 and not any(gp in coal for gp in gridc):
                variants.append((dname + "+cutoff", dict(base, **d, cutoff=cutoff), dict(case, grid=gridc)))
        else:
            variants.append((dname, dict(base, **d), case))
    for vname, js, c in variants:
        R.ck.case(key=("json", kind, n, vname, tuple(samp), tuple(coal), tuple(c["thetas"])), bucket=f"from_json/{kind}/{vname}")
        try:
            import copy

            m = ctor.from_json(copy.deepcopy(js), {})
            v = float(m().reshape(-1)[0])
        except Exception as e:
            R.violation(f"{ctor.__name__}.from_json:{vname}:raises", f"{ctor.__name__}.from_json ({vname}) raises {type(e).__name__}: {str(e)[:120]}", c,
                        {"json": js}, size=n)
            continue
        if vname.endswith("cutoff"):
            # torch.linspace is float32 by default: take the grid the model actually holds
            have, held = observe(R.ck, "model.grid", lambda: FX(m.grid.tensor))
            if not have:
                import torch

                held = FX(torch.linspace(0, float(js["cutoff"]), len(c["thetas"]))[1:].to(torch.float64))  # the documented construction
            c = dict(c, grid=held)
            if any(gp in coal for gp in c["grid"]):
                continue
        o, scale = oracle_value(c)
        if not close(v, o, 1e-9, scale):
            R.violation(f"{ctor.__name__}.from_json:{vname}:value",
                        f"{ctor.__name__}.from_json ({vname}) evaluates to {v!r}; Kingman density of the described model {o!r}", c,
                        {"json": js, "impl": v, "oracle": o}, size=n)


# ----------------------------------------------------------------------------- live model objects
LIVE_KINDS = ("constant", "exponential", "skyride", "skygrid", "linear", "soft")
TREE_KINDS = ("fake", "time", "reparam", "flexible", "shifts")


def FX(t):
    """exact Fractions of the float entries of a 1-D tensor"""
    return [F(float(x)) for x in t.reshape(-1).tolist()]


class Live:
    """one live `*Model` object with handles on every parameter it depends on"""

    def __init__(self, rng, kind, n, tree_kind, init=None):
        """`init` (from a replay file) fixes every value that is otherwise drawn from `rng`"""
        import torch
        import torchtree.evolution.coalescent as C
        from torchtree import Parameter
        from torchtree.evolution.tree_model import ReparameterizedTimeTreeModel, TimeTreeModel

        self.kind, self.tree_kind, self.n = kind, tree_kind, n
        if init is None:
            g = G.genealogy(rng, n, q=3, coal_tie_samp_p=0.0, tie_p=0.2)
            init = {"samp": [fr(x) for x in g["samp"]], "coal": [fr(x) for x in g["coal"]], "newick": g["newick"],
                    "ratios": [rng.uniform(0.1, 0.9) for _ in range(n - 2)], "root_extra": rng.uniform(0.5, 3.0),
                    "G": rng.randint(1, 5), "theta_seed": [rng.uniform(0.3, 6.0) for _ in range(max(n, 8))],
                    "growth": rng.choice([-1, 1]) * rng.uniform(0.05, 1.0), "grid": None}
        self.init, self.trace = init, []
        g = {"samp": [F(x) for x in init["samp"]], "coal": [F(x) for x in init["coal"]], "newick": init["newick"]}
        samp, coal = g["samp"], g["coal"]
        self.handles = {}
        if tree_kind == "fake":
            self.tree = C.FakeTreeModel(Parameter("heights", T(samp + coal)))
        else:
            taxa = {f"T{i}": float(s) for i, s in enumerate(samp)}
            dic = {}
            if tree_kind in ("time", "flexible"):
                from torchtree.evolution.tree_model_flexible import FlexibleTimeTreeModel

                tcls = TimeTreeModel if tree_kind == "time" else FlexibleTimeTreeModel
                js = tcls.json_factory("tree", g["newick"], [0.0] * len(coal), taxa, keep_branch_lengths=True,
                                       internal_heights_id="internal_heights")
                js["internal_heights"]["dtype"] = "torch.float64"
                self.tree = tcls.from_json(js, dic)
                self.handles["internal_heights"] = dic["internal_heights"]
            elif tree_kind == "shifts":
                if "shifts" not in init:
                    init["shifts"] = [rng.uniform(0.1, 2.0) for _ in range(len(coal))]
                shifts = {"id": "shifts", "type": "Parameter", "dtype": "torch.float64", "tensor": list(init["shifts"])}
                js = ReparameterizedTimeTreeModel.json_factory("tree", g["newick"], taxa, shifts=shifts)
                self.tree = ReparameterizedTimeTreeModel.from_json(js, dic)
                self.handles["shifts"] = dic["shifts"]
            else:
                ratios = {"id": "ratios", "type": "Parameter", "dtype": "torch.float64", "tensor": list(init["ratios"])}
                root = {"id": "root_height", "type": "Parameter", "dtype": "torch.float64",
                        "tensor": [float(max(samp)) + init["root_extra"]]}
                js = ReparameterizedTimeTreeModel.json_factory("tree", g["newick"], taxa, ratios=ratios, root_height=root)
                self.tree = ReparameterizedTimeTreeModel.from_json(js, dic)
                if len(coal) > 1:
                    self.handles["ratios"] = dic["ratios"]
                self.handles["root_height"] = dic["root_height"]
        nth = {"constant": 1, "exponential": 1, "skyride": n - 1}.get(kind)
        self.G = init["G"]
        if nth is None:
            nth = self.G + 1
        while len(init["theta_seed"]) < nth:
            init["theta_seed"].append(rng.uniform(0.3, 6.0))
        self.theta = Parameter("theta", T(init["theta_seed"][:nth]))
        self.handles["theta"] = self.theta
        self.growth = self.grid = None
        if kind == "exponential":
            self.growth = Parameter("growth", T([init["growth"]]))
            self.handles["growth"] = self.growth
        if kind in ("skygrid", "linear", "soft"):
            if init["grid"] is None:
                init["grid"] = self.new_grid(rng)
            self.grid = Parameter("grid", T(init["grid"]))
            self.handles["grid"] = self.grid
        self.model = self.build(self.tree, self.theta, self.growth, self.grid)
        self.cls = type(self.model).__name__ + ("(temperature)" if kind == "soft" else "")

    def build(self, tree, theta, growth, grid):
        import torchtree.evolution.coalescent as C

        k = self.kind
        if k == "constant":
            return C.ConstantCoalescentModel("coalescent", theta, tree)
        if k == "skyride":
            return C.PiecewiseConstantCoalescentModel("coalescent", theta, tree)
        if k == "exponential":
            return C.ExponentialCoalescentModel("coalescent", theta, growth, tree)
        if k == "skygrid":
            return C.PiecewiseConstantCoalescentGridModel("coalescent", theta, grid, tree)
        if k == "soft":
            return C.PiecewiseConstantCoalescentGridModel("coalescent", theta, grid, tree, temperature=0.05)
        return C.PiecewiseLinearCoalescentGridModel("coalescent", theta, grid, tree)

    def heights(self):
        return self.tree.node_heights.detach()

    def new_grid(self, rng):
        """G increasing grid points with UNEQUAL pieces, reaching somewhere between half and twice the root"""
        root = float(self.tree.node_heights.max())
        incs = [rng.uniform(0.05, 1.0) for _ in range(self.G)]
        tot = sum(incs)
        span = root * rng.uniform(0.5, 2.0)
        acc, out = 0.0, []
        for v in incs:
            acc += v
            out.append(acc / tot * span)
        return out

    def fresh_value(self):
        """the same values in a newly built model (FakeTreeModel holding the CURRENT node heights)"""
        import torch
        import torchtree.evolution.coalescent as C
        from torchtree import Parameter

        tree = C.FakeTreeModel(Parameter("h", self.heights().clone()))
        theta = Parameter("theta", self.theta.tensor.detach().clone())
        growth = Parameter("growth", self.growth.tensor.detach().clone()) if self.growth is not None else None
        grid = Parameter("grid", self.grid.tensor.detach().clone()) if self.grid is not None else None
        return float(self.build(tree, theta, growth, grid)().reshape(-1)[0])

    def case(self):
        h = FX(self.heights())
        c = {"kind": {"soft": "softgrid"}.get(self.kind, self.kind), "samp": h[: self.n], "coal": h[self.n:],
             "thetas": FX(self.theta.tensor.detach())}
        if self.growth is not None:
            c["growth"] = FX(self.growth.tensor.detach())[0]
        if self.grid is not None:
            c["grid"] = FX(self.grid.tensor.detach())
        return c

    def ops(self):
        o = [k for k in self.handles] + ["cpu", "to"]
        return o

    def apply(self, rng, op, values=None):
        """one update through the public parameter interface; `values` (from a replay) overrides the draw"""
        import torch

        if op in ("cpu", "to"):
            self.model.cpu() if op == "cpu" else self.model.to(torch.float64)
            self.trace.append([op, None])
            return
        p = self.handles[op]
        if values is None:
            k = p.tensor.shape[-1]
            if op == "theta":
                values = [rng.uniform(0.3, 6.0) for _ in range(k)]
            elif op == "growth":
                values = [rng.choice([-1, 1]) * rng.uniform(0.05, 1.0)]
            elif op == "grid":
                values = self.new_grid(rng)
            elif op == "ratios":
                values = [rng.uniform(0.1, 0.9) for _ in range(k)]
            elif op == "shifts":
                values = [rng.uniform(0.1, 2.0) for _ in range(k)]
            else:
                # internal heights / root height: scaling by c >= 1 and shifting up keeps every parent above
                # its children and its tips
                values = (p.tensor.detach() * rng.uniform(1.0, 2.0) + rng.uniform(0.0, 1.0)).reshape(-1).tolist()
        p.tensor = T(values)
        self.trace.append([op, [float(v).hex() for v in values]])

    def record(self):
        return {"kind": self.kind, "tree": self.tree_kind, "n": self.n, "init": self.init, "trace": self.trace}


def live_history(R: Runner, rng, kind, n, tree_kind, steps, record=None):
    """evaluate, update ONE input through the public parameter interface, re-evaluate: after every step the
    live model must agree with a freshly built model holding the same values and with the Kingman density /
    the Lean model at the CURRENT values"""
    ck = R.ck
    try:
        L = Live(rng, kind, n, tree_kind, init=record["init"] if record else None)
    except Exception as e:
        R.violation(f"live:{kind}:{tree_kind}:construction", f"cannot build the {kind} model on a {tree_kind} tree: {type(e).__name__}: {str(e)[:120]}",
                    {"kind": "constant", "samp": [F(0), F(0)], "coal": [F(1)], "thetas": [F(1)]}, size=n)
        return
    history = []
    if record:
        ops = ["(initial)"] + [o for o, _ in record["trace"]]
        vals = [None] + [[float.fromhex(x) for x in v] if v else None for _, v in record["trace"]]
    else:
        ops = ["(initial)"] + [rng.choice(L.ops()) for _ in range(steps)]
        # every parameter the model depends on is updated at least once per history when there is room
        hs = [k for k in L.handles]
        rng.shuffle(hs)
        for i, h in enumerate(hs[: max(0, steps)]):
            ops[1 + i] = h
        vals = [None] * len(ops)
    for step, op in enumerate(ops):
        try:
            if step:
                L.apply(rng, op, vals[step])
            history.append(op)
            v = float(L.model().reshape(-1)[0])
            vf = L.fresh_value()
            case = L.case()
        except Exception as e:
            R.violation(f"{L.cls}.__call__:live-raises",
                        f"{L.cls} on a {tree_kind} tree raises after update history {history}: {type(e).__name__}: {str(e)[:120]}",
                        {"kind": "constant", "samp": [F(0), F(0)], "coal": [F(1)], "thetas": [F(1)]}, {"history": history, "tree": tree_kind, "live_record": L.record()}, size=n)
            return
        ck.case(key=("live", kind, tree_kind, n, step, tuple(history), tuple(case["coal"])), bucket=f"live/{kind}/{tree_kind}")
        ck.bucket(f"live-op/{op}")
        extra = {"history": list(history), "tree": tree_kind, "live": v, "fresh": vf, "live_record": L.record()}
        if not close(v, vf, 1e-11, abs(vf)):
            R.violation(f"{L.cls}.__call__:stale",
                        f"{L.cls} on a {tree_kind} tree returns {v!r} after update history {history}; a freshly built model with the same values gives {vf!r}",
                        case, extra, size=n)
            continue
        if kind == "soft":
            continue
        coal, grid = case["coal"], case.get("grid", [])
        if len(set(coal)) < len(coal) or any(gp in coal for gp in grid) or not all(a < b for a, b in zip(grid, grid[1:])):
            continue
        o, scale = oracle_value(case)
        if not close(v, o, 1e-9, scale):
            R.violation(f"{L.cls}.__call__:live-value",
                        f"{L.cls} on a {tree_kind} tree returns {v!r} after update history {history}; Kingman density at the current values {o!r}",
                        case, dict(extra, oracle=o), size=n)
        req = model_request(case, case["samp"], case["coal"])
        if req and R.drv:
            m = R.drv.ask(req)
            if m == "bad-op" or not close(v, h2f(m), 1e-10, scale):
                ck.mismatch("live model differs from the Lean model at the current values", {"case": enc_case(case), "history": history, "impl": v, "model": m})


# ----------------------------------------------------------------------------- run
def plan(ck: Check):
    """list of size lists, one per repetition"""
    if ck.thorough():
        return [list(range(2, 51)) for _ in range(15)]
    return [list(range(2, 13)) + sorted(ck.rng.sample(range(13, 50), 3)) + [50] for _ in range(3)]


def shrink_search(R: Runner, rng):
    """a failing input was found on a large genealogy: look for a small one of the same class"""
    by_kind = {}
    for sig, (size, _w, rep) in list(R.fail.items()):
        if size > 4 and "batch" not in sig and "__call__" not in sig:
            by_kind.setdefault(rep["case"]["kind"], size)
    for kind in by_kind:
        for _ in range(150):
            n = rng.randint(2, 4)
            case = make_case(rng, kind, n)
            R.ck.case(key=("shrink", kind, n, tuple(case["samp"]), tuple(case["coal"]), tuple(case["thetas"])), bucket="shrink-search")
            R.guard('oracle', R.oracle, case)
            R.guard('all_equal', R.all_equal, rng, case)
            R.guard('scaling', R.scaling, rng, case)


def run_case(R: Runner, rng, kind, n, deep):
    ck = R.ck
    case = make_case(rng, kind, n)
    _, _, ps, pc = G.shuffled_blocks(rng, case["samp"], case["coal"])
    order = [ps, pc]
    ties = len(set(case["samp"] + case["coal"] + case.get("grid", []))) < len(case["samp"] + case["coal"] + case.get("grid", []))
    ck.case(key=(kind, n, tuple(case["samp"]), tuple(case["coal"]), tuple(case["thetas"]), tuple(case.get("grid", []))),
            sample={"kind": kind, "n": n, "samp": [float(x) for x in case["samp"]][:6], "coal": [float(x) for x in case["coal"]][:6],
                    "grid": [float(x) for x in case.get("grid", [])][:4], "thetas": [float(x) for x in case["thetas"]][:4]} if n <= 4 else None,
            bucket=f"{kind}/n{'<=5' if n <= 5 else '<=12' if n <= 12 else '<=50'}/{'ties' if ties else 'distinct'}")
    if "grid" in case:
        root = max(case["coal"])
        if any(g > root for g in case["grid"]):
            ck.bucket("grid/beyond-root")
        if any(g < min(case["coal"]) for g in case["grid"]):
            ck.bucket("grid/before-first-coalescence")
        if any(g in case["samp"] for g in case["grid"]):
            ck.bucket("grid/on-sampling-time")
    R.guard('oracle', R.oracle, case)
    R.guard('oracle', R.oracle, case, order)
    R.guard('perm_invariance', R.perm_invariance, case, order)
    if kind in MODELLED:
        R.guard('correspondence', R.correspondence, case, order)
        R.guard('correspondence', R.correspondence, case, [list(range(n)), list(range(n - 1))])
        R.guard('discrete', R.discrete, case, order)
    R.guard('all_equal', R.all_equal, rng, case)
    R.guard('scaling', R.scaling, rng, case)
    if deep:
        R.guard('model_paths', R.model_paths, case)


def run(ck: Check):
    use_repo()
    import torch

    torch.set_num_threads(2)
    ck.rule = (
        "one case = one (model class, genealogy with dyadic sampling/coalescent times, input order, parameters, grid); "
        "evaluated by the real torchtree class, by the Lean model (drv_c08) and by the declarative Kingman oracle; "
        "distinct = distinct (class, times, parameters); non-trivial = n >= 2 with at least one interval carrying >= 2 lineages"
    )
    ck.assumptions += [
        "theorems are over the reals; float64 execution is tied by the correspondence only (exact dyadic inputs, 1e-12; 1e-10 through exp/log)",
        "a coalescent time never coincides with a grid point (N is two-valued there); probed separately on the real code",
        "skyride: coalescent times pairwise distinct (the documented N(t) has one piece per inter-coalescent interval)",
        "exponential: growth != 0 (the code's own TODO; growth = 0 divides by zero)",
        "piecewise-linear and piecewise-exponential grids have no Lean theorem: covered by the oracle search on the implementation only",
    ]
    ck.trusted += [
        "torch.argsort/gather/cumsum/where/bucketize/unique semantics (modelled as stable sort + list operations; ties shown irrelevant by theorem)",
        "mpmath 40-digit arithmetic in the Kingman oracle",
    ]
    ok, broken = ck.lean_side({}, ["TTProofs.Props.C08", "drv_c08"], "TTProofs/Props/C08.lean")
    drv = None
    try:
        drv = ck.driver("drv_c08")
    except Exception as e:
        ck.notes.append(f"driver unavailable: {e}")
    R = Runner(ck, drv)
    rng = ck.rng
    try:
        # corpus first
        for f in sorted((VERIF / "corpus" / "C08").glob("*.json")):
            case = dec_case(json.loads(f.read_text())["case"])
            ck.case(key=("corpus", f.name), bucket="corpus")
            R.guard('oracle', R.oracle, case)
            if case["kind"] in MODELLED:
                n = len(case["samp"])
                R.guard('correspondence', R.correspondence, case, [list(range(n)), list(range(n - 1))])
        for rep, sizes in enumerate(plan(ck)):
            for n in sizes:
                for kind in ALL_KINDS:
                    run_case(R, rng, kind, n, deep=(n <= 12 or rep == 0))
        # batched
        for n in ([2, 3, 5, 8, 13, 30] if not ck.thorough() else [2, 3, 4, 5, 8, 13, 21, 30, 50]):
            for kind in ("constant", "skyride", "skygrid", "exponential", "linear", "softgrid"):
                for _ in range(2 if not ck.thorough() else 5):
                    R.guard('batched', R.batched, rng, kind, n)
            R.guard('soft_batched', soft_batched, R, rng, n)
        probe_ties(R, rng)
        for n in ([2, 3, 5, 8] if not ck.thorough() else [2, 3, 4, 5, 8, 13, 21]):
            for kind in ("constant", "exponential", "skyride", "skygrid", "linear"):
                R.guard('json_paths', json_paths, R, rng, kind, n)
        for n in ([2, 3, 4, 6, 9, 14] if not ck.thorough() else list(range(2, 26))):
            for _ in range(2 if not ck.thorough() else 4):
                R.guard('soft_check', soft_check, R, rng, n)
        # batches straddling every data-dependent situation: ONE special row, all other rows checked
        for n in ([2, 3, 5, 8] if not ck.thorough() else [2, 3, 4, 5, 8, 13, 21]):
            for special, kinds in SPECIALS.items():
                for kind in kinds:
                    for _ in range(2 if not ck.thorough() else 4):
                        R.guard('batched_special', batched_special, R, rng, kind, special, n)
        # live model objects through update histories
        live_sizes = [2, 3, 4, 6, 9] if not ck.thorough() else [2, 3, 4, 5, 6, 8, 12, 20]
        for n in live_sizes:
            for kind in LIVE_KINDS:
                for tree_kind in TREE_KINDS:
                    for _ in range(1 if not ck.thorough() else 3):
                        R.guard('live_history', live_history, R, rng, kind, n, tree_kind, 5 if not ck.thorough() else 8)
        # a broken proof or correspondence with nothing found so far: widen the search before giving up
        if (not ok or ck.mismatches) and not R.fail:
            for _ in range(4):
                for n in range(2, 16):
                    for kind in ALL_KINDS:
                        run_case(R, rng, kind, n, deep=False)
        # how the object under test is reached: construction routes, dtype regimes, grad modes, immutability, second
        # instance / deepcopy, batch size equal to another dimension, special values, failure paths
        import c08_routes

        c08_routes.run(R, rng, ck)
        shrink_search(R, rng)
    finally:
        if drv:
            drv.close()
    for sig, (size, what, rep) in sorted(R.fail.items()):
        ck.violation(sig, what, rep)
    if (not ok or ck.mismatches) and not ck.violations:
        ck.violation("C08:unproved", "C08 theorems or the model/implementation correspondence no longer check; the Kingman oracle found no failing input",
                     {"broken_obligations": broken, "mismatches": ck.mismatches[:5]}, found_input=False)
    elif (not ok or ck.mismatches):
        ck.notes.append("Lean side or correspondence broken as well: " + "; ".join(broken[:3] + [m["what"] for m in ck.mismatches[:3]]))


def probe_ties(R: Runner, rng):
    """a coalescent time ON a grid point: N is two-valued there; the implementation must return one of the
    two admissible values (which one depends on argsort's tie order) — never anything else"""
    for _ in range(20):
        n = rng.randint(2, 8)
        case = make_case(rng, "skygrid", n)
        j = rng.randrange(len(case["coal"]))
        grid = sorted(set(case["grid"]) | {case["coal"][j]})
        case["grid"] = grid
        case["thetas"] = [G.pow2(rng) for _ in range(len(grid) + 1)]
        v = impl_value(case)
        R.ck.case(key=("tie-probe", n, tuple(case["coal"]), tuple(grid)), bucket="probe/coalescent-on-grid-point")
        if isinstance(v, tuple):
            R.violation("PiecewiseConstantCoalescentGrid.log_prob:raises", f"raises on a coalescent time equal to a grid point: {v}", case)
            continue
        c = case["coal"][j]
        N = O.StepN(case["thetas"], grid)
        lo, scale = oracle_value(case)  # left-continuous choice theta[#{g < c}]
        i = sum(1 for g in grid if g < c)
        hi = lo - math.log(float(case["thetas"][i + 1])) + math.log(float(case["thetas"][i]))
        if abs(lo - hi) > 1e-6:
            # which one-sided value of N the unspecified tie order of argsort produced (the Lean model, a stable
            # sort, always gives the left-continuous one: skygrid_eq_kingman_left_continuous)
            R.ck.bucket("probe/torch-tie-order/" + ("left-continuous" if close(v, lo, TOL_ORACLE, scale) else
                                                    "right-continuous" if close(v, hi, TOL_ORACLE, scale) else "neither"))
        if not (close(v, lo, TOL_ORACLE, scale) or close(v, hi, TOL_ORACLE, scale)):
            R.violation("PiecewiseConstantCoalescentGrid.log_prob:tie-value",
                        f"coalescent time on a grid point: value {v!r} is neither {lo!r} nor {hi!r}", case)


# ----------------------------------------------------------------------------- replay
def replay(path: str) -> int:
    use_repo()
    import torch

    torch.set_num_threads(2)
    obj = json.loads(Path(path).read_text())
    if "case" not in obj:
        print("replay names broken obligations only:", obj.get("broken_obligations"))
        return 1
    if "live_record" in obj:
        from types import SimpleNamespace
        import random

        rec = obj["live_record"]
        ck = SimpleNamespace(case=lambda *a, **k: None, bucket=lambda *a, **k: None, mismatch=lambda *a, **k: None, notes=[])
        R = Runner(ck, None)
        print("live model history:", rec["kind"], "on a", rec["tree"], "tree, n =", rec["n"], "ops:", [o for o, _ in rec["trace"]])
        live_history(R, random.Random(0), rec["kind"], rec["n"], rec["tree"], 0, record=rec)
        for sig, (_s, w, _r) in R.fail.items():
            print("VIOLATES", sig, "-", w)
        if not R.fail:
            print("ok")
        return 1 if R.fail else 0
    if "batch" in obj and "special_row" in obj:
        rows = [dec_case(c) for c in obj["batch"]]
        kind = rows[0]["kind"]
        th = T2([c["thetas"] for c in rows])
        gr = T2([[c["growth"]] for c in rows]) if kind == "exponential" else None
        hs = T2([c["samp"] + c["coal"] for c in rows])
        print("batch of", len(rows), "rows; special row:", obj["special_row"], "-", obj.get("what"))
        try:
            out = [float(x) for x in distribution(rows[0], thetas=th, growth=gr).log_prob(hs).reshape(-1).tolist()]
        except Exception as e:
            print("implementation raises:", type(e).__name__, e)
            return 1
        bad = False
        for s_, c in enumerate(rows):
            if s_ == obj["special_row"]:
                print(f"row {s_} (special): implementation {out[s_]!r}")
                continue
            o, scale = oracle_value(c)
            ok_ = close(out[s_], o, TOL_ORACLE, scale)
            bad = bad or not ok_
            print(f"row {s_}: implementation {out[s_]!r}  Kingman oracle {o!r}  {'ok' if ok_ else 'VIOLATES'}")
        return 1 if bad else 0
    case = dec_case(obj["case"])
    order = obj.get("order")
    samp, coal = case["samp"], case["coal"]
    if order:
        samp = [samp[i] for i in order[0]]
        coal = [coal[i] for i in order[1]]
    print("case:", json.dumps(obj["case"]))
    if "batch" in obj:
        print("batched case; rows:", len(obj["batch"]), "mode:", obj.get("mode"))
    if "json" in obj and "spelling" in obj:
        # a from_json route: the JSON document as written, against the Kingman density of the described model
        import copy

        import torchtree.evolution.coalescent as C
        from torchtree.core.utils import process_object

        js = copy.deepcopy(obj["json"])
        dic = {}
        try:
            if js.get("grid") == "grid":
                process_object({"id": "grid", "type": "Parameter", "tensor": [int(x) for x in case["grid"]]}, dic)
            v = float(getattr(C, js["type"]).from_json(js, dic)().reshape(-1)[0])
        except Exception as e:
            v = ("EXC", type(e).__name__, str(e)[:160])
        o, scale = oracle_value(case)
        print("from_json (grid spelled as", obj["spelling"], "):", v, " Kingman oracle:", o)
        bad = isinstance(v, tuple) or not close(v, o, 1e-9, scale)
        print("VIOLATES" if bad else "ok")
        return 1 if bad else 0
    if obj["case"].get("float32"):
        import torch
        import torchtree.evolution.coalescent as C

        f32 = lambda xs: T(xs).to(torch.float32)  # noqa: E731
        th = f32(case["thetas"])
        try:
            d = {"constant": lambda: C.ConstantCoalescent(th), "skyride": lambda: C.PiecewiseConstantCoalescent(th),
                 "skygrid": lambda: C.PiecewiseConstantCoalescentGrid(th, f32(case["grid"])),
                 "linear": lambda: C.PiecewiseLinearCoalescentGrid(th, f32(case["grid"])),
                 "exponential": lambda: C.ExponentialCoalescent(th, f32([case["growth"]]))}[case["kind"]]()
            v = float(d.log_prob(f32(samp + coal)).reshape(-1)[0])
        except Exception as e:
            v = ("EXC", type(e).__name__, str(e)[:160])
        o, scale = oracle_value(case)
        print("float32 evaluation:", v, " Kingman oracle on the held values:", o)
        bad = isinstance(v, tuple) or not close(v, o, 2e-5, scale)
        if obj.get("signature", "").endswith(":law"):
            print("(scaling-law check; see 'what':", obj.get("what"), ")")
            bad = True
        print("VIOLATES" if bad else "ok")
        return 1 if bad else 0
    v = impl_value(case, samp, coal)
    print("implementation:", v)
    try:
        o, scale = oracle_value(case)
        print("Kingman oracle:", o)
    except Exception as e:
        print("oracle failed:", e)
        return 1
    bad = isinstance(v, tuple) or not close(v, o, TOL_ORACLE, scale)
    sig = obj.get("signature", "")
    if sig.endswith(":scaling") or sig.endswith(":all-equal") or sig.endswith(":order") or "batch" in sig or "__call__" in sig:
        print("(consequence check; see 'what':", obj.get("what"), ")")
        bad = True
    print("VIOLATES" if bad else "ok")
    return 1 if bad else 0
