"""C06 — cross-cutting coverage (fourth wave): how the object under test is REACHED.

 1. construction routes: positional / keyword constructor, from_json with every subset of the optional keys
    (use_postorder_indices, keep_branch_lengths: absent / explicit default / set), shuffled key order, inline vs
    referenced sub-objects, short vs full type names, newick vs file, json_factory helpers, the JSON the CLI
    emits (cli.evolution.create_tree_model) — the route-built model must be the parameterisation the options name
    and evaluate like the constructor-built one, and satisfy the property's oracle (tips checked BY TAXON).
 2. dtype regimes: default dtype float32/float64 x parameter dtype float64/float32.
 5. second instances / interleaving, copy.deepcopy followed by updates on the copy, updates after device moves,
    reads of the observables in random order.
 6. batches whose size equals another dimension of the problem; one row holding an exact boundary value.
 7. special but valid inputs (unconstrained zeros, ratio 0.5, increments 1.0, n = 2).
 8. failure paths (sentinel table): what is raised when a model cannot be built / inverted, and that a failed call
    leaves the object as it was.
"""
from __future__ import annotations

import copy
import math
import os
import random
import tempfile
from types import SimpleNamespace

from common import use_repo

use_repo()
import torch  # noqa: E402

import c06_gen as G  # noqa: E402

DT = torch.float64
KIND_OF = {"GeneralNodeHeightTransform": "ratio", "DifferenceNodeHeightTransform": "difference"}
TYPE_NAMES = {
    "Parameter": ["Parameter", "torchtree.Parameter", "torchtree.core.parameter.Parameter"],
    "Taxa": ["Taxa", "torchtree.evolution.taxa.Taxa"],
    "Taxon": ["Taxon", "torchtree.evolution.taxa.Taxon"],
    "ReparameterizedTimeTreeModel": ["ReparameterizedTimeTreeModel", "torchtree.evolution.tree_model.ReparameterizedTimeTreeModel"],
    "TimeTreeModel": ["TimeTreeModel", "torchtree.evolution.tree_model.TimeTreeModel"],
}


def shuffled(d: dict, rng) -> dict:
    ks = list(d)
    rng.shuffle(ks)
    return {k: d[k] for k in ks}


def taxa_json(dates, rng=None, full=False):
    tn = TYPE_NAMES["Taxon"][1 if full else 0]
    js = {"id": "taxa", "type": TYPE_NAMES["Taxa"][1 if full else 0],
          "taxa": [{"id": f"T{i}", "type": tn, "attributes": {"date": d}} for i, d in enumerate(dates)]}
    return shuffled(js, rng) if rng else js


def pjson(id_, values, tname="Parameter", dtype="torch.float64"):
    js = {"id": id_, "type": tname, "tensor": values}
    if dtype:
        js["dtype"] = dtype
    return js


def tips_by_taxon(m, dates):
    """[(leaf index, expected height of the taxon sitting there)] read from the dendropy tree itself"""
    leaf = G.expected_leaf_heights(dates)
    return [(nd.index, leaf[int(nd.taxon.label[1:])]) for nd in m.tree.leaf_node_iter()]


def leaf_tol(h, dtype=torch.float64):
    """sampling_times carry the dtype of the heights: exact in double, half a float32 ulp in single"""
    if dtype == torch.float64 or float(torch.tensor(h, dtype=torch.float32).item()) == h:
        return 0.0
    return 2.0 ** -24 * abs(h) + 1e-45


def property_on(m, dates, tol_scale=1.0):
    """the property's oracle on a model reached by any route (unbatched): tips BY TAXON at their sampling
    times, parent >= child on every dendropy edge, branch = parent − child >= 0"""
    bad = []
    H = m.node_heights.detach().tolist()
    bl = m.branch_lengths().detach().tolist()
    S = max(1.0, max(abs(v) for v in H))
    eps = 2.2e-16 if m.node_heights.dtype == torch.float64 else 1.2e-7
    slack = 8 * eps * S
    for idx, want in tips_by_taxon(m, dates):
        if abs(H[idx] - want) > leaf_tol(want, m.node_heights.dtype):
            bad.append(("tips", f"the tip carrying taxon with sampling time {want!r} sits at height {H[idx]!r} (node {idx})"))
            break
    for p, c in G.dendropy_edges(m):
        if not (H[p] >= H[c] - slack):
            bad.append(("order", f"node {p} (height {H[p]}) is younger than its child {c} (height {H[c]})"))
            break
        if abs(bl[c] - (H[p] - H[c])) > slack or not (bl[c] >= -slack):
            bad.append(("branch", f"branch {c}: length {bl[c]} but parent − child = {H[p] - H[c]}"))
            break
    return bad


def observables(m):
    """node heights / branch lengths with the tips listed BY TAXON (taxon i first … ) so that models whose leaves
    are indexed differently (use_postorder_indices) are comparable; internal nodes keep their post-order index"""
    n = m.taxa_count
    pos = {int(nd.taxon.label[1:]): nd.index for nd in m.tree.leaf_node_iter()}
    perm = torch.tensor([pos[i] for i in range(n)] + list(range(n, 2 * n - 1)))
    H = m.node_heights.detach().clone()
    bl = m.branch_lengths().detach().clone()
    out = {"kind": KIND_OF.get(type(getattr(m, "transform", None)).__name__, "none"),
           "H": H[..., perm], "bl": bl[..., perm[:-1]],
           "s": m.sampling_times.detach().clone()}
    if hasattr(m, "transform") and callable(m):
        out["ld"] = m().detach().clone()
    return out


def same_as_reference(ref, got, tol):
    probs = []
    if ref["kind"] != got["kind"]:
        probs.append(f"parameterisation {got['kind']} instead of {ref['kind']}")
    for k in ("H", "bl", "ld"):
        if k in ref and k in got:
            a, b = ref[k].to(DT), got[k].to(DT)
            tk = tol * 200 if (k == "ld" and tol > 0) else tol  # float32 routes: logs of small float32 differences
            if a.shape != b.shape or not torch.allclose(a, b, rtol=tk, atol=tk):
                probs.append(f"{k} = {got[k].tolist()} instead of {ref[k].tolist()}")
    return probs


# ----------------------------------------------------------------------------- routes
def reparam_routes(t, dates, x, kind, rng, tmpdir):
    """-> [(route name, tolerance vs the reference, builder)] for ReparameterizedTimeTreeModel"""
    from torchtree import Parameter
    from torchtree.evolution.taxa import Taxa
    from torchtree.evolution.tree_model import ReparameterizedTimeTreeModel as R

    n = G.ntips(t)
    routes = []

    def ctor(keyword):
        def build():
            taxa = G.make_taxa(dates)
            tree = G.make_tree(t, taxa)
            p = Parameter("x", torch.tensor(x, dtype=DT))
            if keyword:
                return R(id_="tree", tree=tree, taxa=taxa, **({"ratios_root_height": p} if kind == "ratio" else {"shifts": p}))
            return R("tree", tree, taxa, p) if kind == "ratio" else R("tree", tree, taxa, None, p)
        return build

    routes += [("ctor-positional", 0.0, ctor(False)), ("ctor-keyword", 0.0, ctor(True))]

    def from_json_variant(opts):
        def build():
            r = random.Random(opts["seed"])
            pt = TYPE_NAMES["Parameter"][opts["ptype"]]
            dic = {}
            js = {"id": "tree", "type": TYPE_NAMES["ReparameterizedTimeTreeModel"][opts["full_names"]]}
            if opts["file"]:
                path = os.path.join(tmpdir, f"tree{opts['seed']}.nwk")
                with open(path, "w") as fp:
                    fp.write(G.newick(t) + "\n")
                js["file"] = path
            else:
                js["newick"] = G.newick(t)
            if opts["taxa_ref"]:
                dic["taxa"] = Taxa.from_json(taxa_json(dates, r, opts["full_names"]), {})
                js["taxa"] = "taxa"
            else:
                js["taxa"] = taxa_json(dates, r, opts["full_names"])
            parts = ({"ratios": x[: n - 2], "root_height": x[n - 2:]} if kind == "ratio" else {"shifts": x})
            for key, vals in parts.items():
                pj = shuffled(pjson(key, vals, pt), r)
                if opts["param_ref"]:
                    dic[key] = Parameter.from_json(pj, {})
                    js[key] = key
                else:
                    js[key] = pj
            if opts["upi"] is not None:
                js["use_postorder_indices"] = opts["upi"]
            if opts["kbl"] is not None:
                js["keep_branch_lengths"] = opts["kbl"]
            return R.from_json(shuffled(js, r), dic)
        return build

    combos = []
    for upi in (None, False, True):
        for kbl in (None, False):
            combos.append({"upi": upi, "kbl": kbl})
    rng.shuffle(combos)
    for c in combos[:4]:
        c.update({"seed": rng.randrange(10 ** 6), "ptype": rng.randrange(3), "full_names": rng.randrange(2),
                  "file": rng.random() < 0.3, "taxa_ref": rng.random() < 0.5, "param_ref": rng.random() < 0.5})
        name = "from_json[" + ",".join(f"{k}={c[k]}" for k in ("upi", "kbl", "file", "taxa_ref", "param_ref", "ptype", "full_names")) + "]"
        routes.append((name, 0.0, from_json_variant(c)))

    def factory():
        taxa = {f"T{i}": d for i, d in enumerate(dates)}
        if kind == "ratio":
            js = R.json_factory("tree", G.newick(t), taxa, ratios=list(x[: n - 2]), root_height=list(x[n - 2:]))
        else:
            js = R.json_factory("tree", G.newick(t), taxa, shifts=list(x))
        return R.from_json(js, {})

    routes.append(("json_factory", 1e-5, factory))  # json_factory parameters carry no dtype: default float32

    def flexible(x_ref):
        # FlexibleTimeTreeModel whose heights are a TransformedParameter over a node-height transform of that same tree:
        # must give the heights / branch lengths of the constructor route to the last bit
        def build():
            from torchtree.evolution.tree_model_flexible import FlexibleTimeTreeModel

            r = random.Random(rng.randrange(10 ** 6))
            dic = {}
            cls_, arg = (("GeneralNodeHeightTransform", "tree") if kind == "ratio" else ("DifferenceNodeHeightTransform", "tree_model"))
            xj = pjson("heights.x", list(x))
            if x_ref:
                dic["heights.x"] = Parameter.from_json(xj, {})
                xj = "heights.x"
            js = {"id": "tree", "type": "FlexibleTimeTreeModel", "newick": G.newick(t), "taxa": taxa_json(dates, r),
                  "internal_heights": shuffled({"id": "heights", "type": "TransformedParameter",
                                                "transform": "torchtree.evolution.tree_height_transform." + cls_,
                                                "parameters": {arg: "tree"}, "x": xj}, r)}
            m = FlexibleTimeTreeModel.from_json(shuffled(js, r), dic)
            m.transform = dic["heights"].transform  # handle for the harness only
            return m
        return build

    routes += [("flexible[x=inline]", 0.0, flexible(False)), ("flexible[x=ref]", 0.0, flexible(True))]
    return routes


def cli_route(t, dates, kind, tmpdir, rng):
    """the JSON torchtree-cli emits for the tree model -> (model, the parameter vector it names)"""
    from torchtree.cli.evolution import create_tree_model
    from torchtree.core.utils import process_object

    n = G.ntips(t)
    path = os.path.join(tmpdir, f"cli{rng.randrange(10 ** 6)}.nwk")
    with open(path, "w") as fp:
        fp.write(G.newick(t) + "\n")
    taxa = taxa_json(dates)
    arg = SimpleNamespace(tree=path, keep=False, heights_init=None, clock="strict",
                          heights="ratio" if kind == "ratio" else "shift", root_height_init=None, cutoff=None,
                          coalescent_init=None, coalescent=None)
    js = create_tree_model("tree", taxa, arg)
    dic = {}
    dic["taxa"] = process_object(taxa, dic)
    m = process_object(js, dic)
    offset = max(dates) - min(dates)
    x = [0.1] * (n - 2) + [offset + 1.0] if kind == "ratio" else [0.1] * (n - 1)
    return m, x, js


def timetree_routes(t, dates, heights, rng):
    from torchtree import Parameter
    from torchtree.evolution.taxa import Taxa
    from torchtree.evolution.tree_model import TimeTreeModel as M

    def ctor_kw():
        taxa = G.make_taxa(dates)
        return M(id_="tree", tree=G.make_tree(t, taxa), taxa=taxa, internal_heights=Parameter("h", torch.tensor(heights, dtype=DT)))

    def fj(ref, upi, full):
        def build():
            r = random.Random(rng.randrange(10 ** 6))
            dic = {}
            js = {"id": "tree", "type": TYPE_NAMES["TimeTreeModel"][full], "newick": G.newick(t),
                  "taxa": taxa_json(dates, r, full)}
            pj = pjson("h", heights, TYPE_NAMES["Parameter"][r.randrange(3)])
            if ref:
                dic["h"] = Parameter.from_json(pj, {})
                js["internal_heights"] = "h"
            else:
                js["internal_heights"] = pj
            if upi is not None:
                js["use_postorder_indices"] = upi
            return M.from_json(shuffled(js, r), dic)
        return build

    def factory():
        js = M.json_factory("tree", G.newick(t), list(heights), {f"T{i}": d for i, d in enumerate(dates)},
                            **{"internal_heights_id": "h"})
        return M.from_json(js, {})

    return [("ctor-keyword", 0.0, ctor_kw), ("from_json[inline]", 0.0, fj(False, None, 0)),
            ("from_json[ref,upi=False,full]", 0.0, fj(True, False, 1)), ("from_json[upi=True]", 0.0, fj(False, True, 0)),
            ("json_factory", 1e-5, factory)]


def valid_heights(t, dates, rng):
    leaf = G.expected_leaf_heights(dates)
    n = len(leaf)
    edges, root, below = G.independent_index(t, n)
    parent = {c: p for p, c in edges}
    H = {root: max(leaf) + rng.randrange(2, 20) / 4.0}
    for v in range(2 * n - 3, n - 1, -1):
        b = max(leaf[i] for i in below[v])
        H[v] = b + rng.choice([0.25, 0.5, 0.75]) * (H[parent[v]] - b)
    return [H[i] for i in range(n, 2 * n - 1)]


# ----------------------------------------------------------------------------- sections
def draw(kind, t, dates, rng):
    n = G.ntips(t)
    leaf = G.expected_leaf_heights(dates)
    if kind == "ratio":
        return [rng.randrange(1, 4) / 4 for _ in range(n - 2)] + [max(leaf) + rng.randrange(1, 33) / 4.0]
    return [rng.randrange(1, 33) / 8.0 for _ in range(n - 1)]


def section_routes(ck, rng, record):
    tmpdir = tempfile.mkdtemp(prefix="c06-routes-")
    n_trees = 40 if ck.thorough() else 12
    for i in range(n_trees):
        n = 2 + i % 6 if i < 6 else rng.randrange(3, 8)
        t = G.random_flip(G.random_topology(n, rng), rng) if n > 2 else (0, 1)
        schemes = G.date_schemes(n, rng)
        dates = schemes[rng.choice(list(schemes))]
        for kind in ("ratio", "difference"):
            x = draw(kind, t, dates, rng)
            ref = None
            for name, tol, build in reparam_routes(t, dates, x, kind, rng, tmpdir):
                rep = {"type": "route", "tree": G.paren(t), "dates": dates, "kind": kind, "x": x, "route": name}
                ck.case(key=("route", G.paren(t), tuple(dates), kind, name), bucket="route/" + name.split("[")[0])
                try:
                    m = build()
                    got = observables(m)
                    probs = [w for _c, w in property_on(m, dates, 1.0 if tol == 0 else 4.0)]
                    if ref is None:
                        ref = got
                    else:
                        probs += same_as_reference(ref, got, tol)
                    if got["kind"] != kind:
                        probs.append(f"built with the {kind} arguments but carries the {got['kind']} transform")
                except Exception as e:
                    probs = [f"raises {type(e).__name__}: {str(e)[:140]}"]
                for w in probs[:1]:
                    key = name.split("[")[0] + ("[upi=True]" if "upi=True" in name else "")
                    record(f"route:{key}:{kind}", f"model reached through {name}: {w}", rep, (n, 1, 0))
            # the JSON the CLI emits
            try:
                m, xcli, js = cli_route(t, dates, kind, tmpdir, rng)
                ck.case(key=("route-cli", G.paren(t), tuple(dates), kind), bucket="route/cli")
                if n >= 3 or kind == "difference":
                    # the CLI's parameters carry no dtype (float32): the reference gets the float32-rounded values
                    refm = G.make_reparam(t, dates, torch.tensor(xcli, dtype=torch.float32).to(DT), kind)
                    probs = same_as_reference(observables(refm), observables(m), 1e-5)
                    probs += [w for _c, w in property_on(m, dates, 4.0)]
                    for w in probs[:1]:
                        record(f"route:cli:{kind}", f"model built from the CLI's JSON: {w}",
                               {"type": "route", "tree": G.paren(t), "dates": dates, "kind": kind, "x": xcli, "route": "cli"}, (n, 1, 0))
            except SystemExit:
                pass
            except Exception as e:
                record(f"route:cli:{kind}:raises", f"CLI tree-model JSON cannot be built/evaluated: {type(e).__name__}: {str(e)[:140]}",
                       {"type": "route", "tree": G.paren(t), "dates": dates, "kind": kind, "x": [], "route": "cli"}, (n, 1, 0))
        # plain TimeTreeModel
        hts = valid_heights(t, dates, rng)
        ref = None
        for name, tol, build in timetree_routes(t, dates, hts, rng):
            ck.case(key=("route-tt", G.paren(t), tuple(dates), name), bucket="route/TimeTreeModel/" + name.split("[")[0])
            rep = {"type": "route-tt", "tree": G.paren(t), "dates": dates, "heights": hts, "route": name}
            try:
                m = build()
                got = observables(m)
                probs = [w for _c, w in property_on(m, dates, 1.0 if tol == 0 else 4.0)]
                if ref is None:
                    ref = got
                else:
                    probs += same_as_reference(ref, got, tol)
            except Exception as e:
                probs = [f"raises {type(e).__name__}: {str(e)[:140]}"]
            for w in probs[:1]:
                key = name.split("[")[0] + ("[upi=True]" if "upi=True" in name else "")
                record(f"route:TimeTreeModel:{key}", f"TimeTreeModel reached through {name}: {w}", rep, (n, 1, 0))


def section_dtypes(ck, rng, record):
    """default dtype x parameter dtype; the default is restored whatever happens"""
    old = torch.get_default_dtype()
    table = {}
    try:
        for dflt in (torch.float32, torch.float64):
            for xd in (torch.float64, torch.float32):
                torch.set_default_dtype(dflt)
                for i in range(8 if ck.thorough() else 3):
                    n = rng.randrange(3, 7)
                    t = G.random_flip(G.random_topology(n, rng), rng)
                    schemes = G.date_schemes(n, rng)
                    dates = schemes[rng.choice(list(schemes))]
                    for kind in ("ratio", "difference"):
                        x = draw(kind, t, dates, rng)
                        rep = {"type": "dtype", "tree": G.paren(t), "dates": dates, "kind": kind, "x": x,
                               "default": str(dflt), "param": str(xd)}
                        ck.case(key=("dtype", str(dflt), str(xd), G.paren(t), kind), bucket=f"dtype/default={dflt}/param={xd}")
                        try:
                            m = G.make_reparam(t, dates, torch.tensor(x, dtype=xd), kind)
                            H, bl, ld = m.node_heights, m.branch_lengths(), m()
                            inv = m.transform.inv(H[..., n:].to(xd))
                            table[f"default={dflt},param={xd},{kind}"] = {
                                "sampling_times": str(m.sampling_times.dtype), "node_heights": str(H.dtype),
                                "branch_lengths": str(bl.dtype), "inverse": str(inv.dtype), "log_det": str(ld.dtype)}
                            lossy = [k for k, v in (("sampling_times", m.sampling_times), ("node_heights", H), ("branch_lengths", bl),
                                                    ("inverse", inv), ("log_det", ld))
                                     if v.dtype != xd]  # every observable carries the dtype of the parameters
                            probs = [f"{k} comes back in {table[f'default={dflt},param={xd},{kind}'][k]} for {xd} parameters"
                                     for k in lossy]
                            tol = 1e-10 if xd == torch.float64 else 2e-5
                            refm_x = torch.tensor(x, dtype=DT)
                            if not torch.allclose(inv.to(DT), refm_x, rtol=tol, atol=tol):
                                probs.append(f"round trip returns {inv.tolist()} for {x}")
                            probs += [w for _c, w in property_on(m, dates, 1.0 if xd == torch.float64 else 8.0)]
                            # same values as under the other default dtype (up to the dtype of the sampling times)
                            torch.set_default_dtype(torch.float64)
                            ref = G.make_reparam(t, dates, torch.tensor(x, dtype=DT), kind)
                            torch.set_default_dtype(dflt)
                            if not torch.allclose(H.to(DT), ref.node_heights, rtol=1e-13 if (xd == torch.float64) else 2e-5,
                                                  atol=1e-13 if (xd == torch.float64) else 2e-5):
                                probs.append(f"node_heights {H.tolist()} but {ref.node_heights.tolist()} with float64 everywhere")
                        except Exception as e:
                            probs = [f"raises {type(e).__name__}: {str(e)[:140]}"]
                        for w in probs[:1]:
                            record(f"dtype:default={dflt}:param={xd}:{kind}", f"default dtype {dflt}, parameters {xd}: {w}", rep, (n, 1, 0))
    finally:
        torch.set_default_dtype(old)
    ck.extra["result_dtypes"] = table


def scan_constructors(repo):
    """tensor constructors without dtype/device in the anchored files (listed in the evidence)"""
    import ast

    hits = []
    ctors = {"tensor", "zeros", "ones", "empty", "full", "arange", "eye", "zeros_like", "ones_like"}
    for rel in ("torchtree/evolution/tree_height_transform.py", "torchtree/evolution/tree_model.py",
                "torchtree/distributions/transforms.py", "torchtree/evolution/rate_transform.py", "torchtree/core/parameter.py"):
        try:
            src = (repo / rel).read_text()
            for node in ast.walk(ast.parse(src)):
                if (isinstance(node, ast.Call) and isinstance(node.func, ast.Attribute) and node.func.attr in ctors
                        and isinstance(node.func.value, ast.Name) and node.func.value.id == "torch"
                        and not node.func.attr.endswith("_like")):
                    kws = {k.arg for k in node.keywords}
                    if "dtype" not in kws or "device" not in kws:
                        hits.append(f"{rel}:{node.lineno}: {ast.unparse(node)[:70]} (missing {sorted({'dtype', 'device'} - kws)})")
        except Exception as e:
            hits.append(f"{rel}: not scanned ({e})")
    return hits


def section_instances(ck, rng, record):
    """second instances and interleaving; deepcopy then updates on the copy; update after a device/dtype move;
    observables read in random order"""
    for i in range(40 if ck.thorough() else 14):
        n = rng.randrange(3, 7)
        tA = G.random_flip(G.random_topology(n, rng), rng)
        tB = G.random_flip(G.random_topology(n, rng), rng)  # same size, different topology
        sch = G.date_schemes(n, rng)
        dA, dB = sch[rng.choice(list(sch))], sch[rng.choice(list(sch))]
        kind = ("ratio", "difference")[i % 2]
        xA, xB, xA2 = draw(kind, tA, dA, rng), draw(kind, tB, dB, rng), draw(kind, tA, dA, rng)
        rep = {"type": "instances", "kind": kind, "A": [G.paren(tA), dA, xA, xA2], "B": [G.paren(tB), dB, xB]}
        ck.case(key=("instances", G.paren(tA), G.paren(tB), kind), bucket="instances/interleaved+deepcopy+move")
        try:
            A = G.make_reparam(tA, dA, torch.tensor(xA, dtype=DT), kind)
            reads = [lambda m: m.branch_lengths(), lambda m: m.node_heights, lambda m: m(), lambda m: m.transform.inv(m.node_heights[..., n:])]
            rng.shuffle(reads)
            for r in reads:
                r(A)
            oA = observables(A)
            B = G.make_reparam(tB, dB, torch.tensor(xB, dtype=DT), kind)
            oB = observables(B)
            freshB = observables(G.make_reparam(tB, dB, torch.tensor(xB, dtype=DT), kind))
            probs = same_as_reference(freshB, oB, 0.0)
            G.heights_param(A).fire_parameter_changed()
            probs += ["first instance changed after a second one was built and evaluated: " + w
                      for w in same_as_reference(oA, observables(A), 0.0)]
            # deepcopy, then update the copy only
            C = copy.deepcopy(A)
            G.heights_param(C).tensor = torch.tensor(xA2, dtype=DT)
            wantC = observables(G.make_reparam(tA, dA, torch.tensor(xA2, dtype=DT), kind))
            probs += ["deepcopy updated to new parameters: " + w for w in same_as_reference(wantC, observables(C), 0.0)]
            G.heights_param(A).fire_parameter_changed()
            probs += ["original changed by an update of its deepcopy: " + w for w in same_as_reference(oA, observables(A), 0.0)]
            # move, then update, then read
            mv = rng.choice(["cpu", "to"])
            (A.cpu() if mv == "cpu" else A.to(torch.float64))
            with torch.no_grad():
                G.heights_param(A).tensor.copy_(torch.tensor(xA2, dtype=DT))
            G.heights_param(A).fire_parameter_changed()
            probs += [f"after {mv}() and an in-place update: " + w for w in same_as_reference(wantC, observables(A), 0.0)]
            probs += [w for _c, w in property_on(A, dA)]
        except Exception as e:
            probs = [f"raises {type(e).__name__}: {str(e)[:140]}"]
        for w in probs[:1]:
            record(f"instances:{kind}", w, rep, (n, 1, 0))


def section_batches(ck, rng, record, oracle, run_impl):
    """batch size equal to another dimension of the problem; one row holding an exact boundary value"""
    for i in range(36 if ck.thorough() else 12):
        n = rng.randrange(3, 7)
        t = G.random_flip(G.random_topology(n, rng), rng)
        sch = G.date_schemes(n, rng)
        dates = sch[rng.choice(list(sch))]
        kind = ("ratio", "difference")[i % 2]
        B = rng.choice([n - 1, n, 2 * n - 1, 2 * n - 2, n - 2 if n > 3 else n])
        rows = [draw(kind, t, dates, rng) for _ in range(B)]
        special = rng.randrange(B)
        j = rng.randrange(max(1, n - 2)) if kind == "ratio" else rng.randrange(n - 1)
        what = "none"
        if i % 3 != 0:
            if kind == "ratio" and n > 2:
                rows[special][j] = rng.choice([1.0, 1.0, 0.0])  # closed-domain boundary: node on its parent / on its bound
                what = f"ratio[{j}]={rows[special][j]}"
            elif kind == "difference":
                rows[special][j] = 0.0  # zero increment: node on its older child
                what = f"increment[{j}]=0"
        case = {"tree": G.paren(t), "dates": dates, "kind": kind, "x": rows, "batched": True,
                "mode": rng.choice(["no_grad", "grad"]), "scheme": "batch-dim"}
        ck.case(key=("batchdim", G.paren(t), tuple(dates), kind, B, what), bucket=f"batch/B={'n-1' if B == n - 1 else 'other-dim'}/{what.split('=')[0].split('[')[0]}")
        obs = run_impl(case)
        bad = oracle(case, obs)
        for clause, w in bad:
            # the special row may legitimately lose its own round trip (0/0 below a node sitting on its bound);
            # every OTHER row is held to the full oracle
            if what != "none" and f"row {special}" in w and clause == "inverse":
                continue
            rep = {k: case[k] for k in ("tree", "dates", "kind", "x", "batched", "mode")}
            rep.update({"type": "transform", "k": None})
            record(f"batch-dim:{kind}:{clause}", f"batch of {B} rows (n = {n}; special row {special}: {what}): {w}", rep, (n, B, 0))
            break


def section_failures(ck, rng, record):
    """sentinel table: what is raised when the job cannot be done; a failed call must not change the object"""
    from torchtree import Parameter, TransformedParameter
    from torchtree.distributions.transforms import TrilExpDiagonalTransform
    from torchtree.evolution.rate_transform import LogDifferenceRateTransform
    from torchtree.evolution.tree_model import ReparameterizedTimeTreeModel as R

    t = ((0, 1), (2, 3))
    dates = [0.0, 1.0, 0.5, 2.0]
    base = {"id": "tree", "type": "ReparameterizedTimeTreeModel", "newick": G.newick(t), "taxa": taxa_json(dates),
            "ratios": pjson("r", [0.5, 0.5]), "root_height": pjson("h", [4.0])}

    def drop(k):
        return {a: b for a, b in base.items() if a != k}

    mt = G.make_timetree(t, dates, [1.5, 2.5, 4.0])
    table = [
        ("from_json without newick/file", lambda: R.from_json(drop("newick"), {}), (ValueError,)),
        ("from_json without root_height", lambda: R.from_json(drop("root_height"), {}), (KeyError,)),
        ("from_json without ratios", lambda: R.from_json(drop("ratios"), {}), (KeyError,)),
        ("from_json with a taxon missing from Taxa", lambda: R.from_json(dict(base, taxa=taxa_json(dates[:3])), {}), (ValueError, KeyError, IndexError, Exception)),
        ("from_json with an unknown taxon in the tree", lambda: R.from_json(dict(base, newick="((T0,T1),(T2,T9));"), {}), (ValueError,)),
        ("TransformedParameter.tensor = y over a transform without inverse",
         lambda: setattr(TransformedParameter("y", Parameter("x", torch.tensor([1., 2., .5, 3., 1., 2.], dtype=DT)), LogDifferenceRateTransform(mt)),
                         "tensor", torch.zeros(6, dtype=DT)), (NotImplementedError,)),
        ("TransformedParameter() over a transform without log-Jacobian",
         lambda: TransformedParameter("y", Parameter("x", torch.tensor([1., 2., .5], dtype=DT)), TrilExpDiagonalTransform())(), (NotImplementedError,)),
    ]
    observed = {}
    for name, call, expect in table:
        ck.case(key=("failure", name), bucket="failure-path")
        try:
            r = call()
            observed[name] = f"returns {type(r).__name__}"
            record("failure:" + name.replace(" ", "-")[:50], f"{name}: no error is raised (returns {type(r).__name__})",
                   {"type": "failure", "name": name}, (1, 1, 0))
        except expect as e:
            observed[name] = f"raises {type(e).__name__}"
        except Exception as e:
            observed[name] = f"raises {type(e).__name__}"
            record("failure:" + name.replace(" ", "-")[:50], f"{name}: raises {type(e).__name__}: {str(e)[:100]} instead of {[x.__name__ for x in expect]}",
                   {"type": "failure", "name": name}, (1, 1, 0))
    # a failed inverse (wrong length) leaves the model as it was
    m = G.make_reparam(t, dates, torch.tensor([0.5, 0.5, 4.0], dtype=DT), "ratio")
    before = observables(m)
    try:
        m.transform.inv(torch.tensor([1.0], dtype=DT))
        observed["inverse of a vector of the wrong length"] = "returns"
    except Exception as e:
        observed["inverse of a vector of the wrong length"] = f"raises {type(e).__name__}"
    G.heights_param(m).fire_parameter_changed()
    for w in same_as_reference(before, observables(m), 0.0)[:1]:
        record("failure:state-after-failed-inverse", "a failed inverse changed the model: " + w, {"type": "failure", "name": "inverse"}, (1, 1, 0))
    ck.extra["failure_paths"] = observed



def section_translation(ck, rng, record, kbl_builder):
    """time-origin conventions: for dates read as TIMES (min != 0 before and after) the whole model is invariant under a
    translation d -> d + c of the date vector, on every construction route; a translation that puts the smallest date
    on 0 switches to the documented 'ages' reading (checked against the model's leaf heights, not for invariance)"""
    from torchtree.evolution.tree_model import ReparameterizedTimeTreeModel as R, TimeTreeModel as M

    tmpdir = tempfile.mkdtemp(prefix="c06-transl-")
    for i in range(16 if ck.thorough() else 6):
        n = rng.randrange(3, 7)
        t = G.random_flip(G.random_topology(n, rng), rng)
        base = [2000.0 + rng.randrange(0, 41) / 4.0 for _ in range(n)]
        if len(set(base)) == 1:
            base[0] -= 1.5
        leaf = [max(base) - d for d in base]
        kind = ("ratio", "difference")[i % 2]
        x = draw(kind, t, base, rng)
        ref = observables(G.make_reparam(t, base, torch.tensor(x, dtype=DT), kind))
        hts = valid_heights(t, base, rng)
        ref_tt = observables(G.make_timetree(t, base, hts))
        shifts = [-max(base), -2021.0, 10.0, -2004.5, 1000.0, -min(base) - 0.25, -min(base)]
        for c in shifts:
            dates = [d + c for d in base]
            as_times = min(dates) != 0.0
            label = "max=0 (forward axis, origin at the last sample)" if max(dates) == 0.0 else (
                "min=0 (read as ages)" if not as_times else f"c={c:g}")
            rep = {"type": "translation", "tree": G.paren(t), "dates": dates, "base": base, "kind": kind, "x": x, "c": c}
            ck.case(key=("translation", G.paren(t), tuple(base), c, kind), bucket="dates/translation/" + label.split(" ")[0])
            builders = {name: b for name, _tol, b in reparam_routes(t, dates, x, kind, rng, tmpdir)
                        if name.startswith(("ctor-positional", "flexible[x=inline]", "json_factory"))}
            frj = [(name, b) for name, _tol, b in reparam_routes(t, dates, x, kind, rng, tmpdir) if name.startswith("from_json")][:1]
            builders.update(dict(frj))
            for name, build in builders.items():
                try:
                    m = build()
                    got = observables(m)
                    probs = [w for _c, w in property_on(m, dates)]
                    if as_times:
                        tol = 1e-5 if name == "json_factory" else 0.0
                        probs += [f"not invariant under the translation of the dates by {c!r}: " + w
                                  for w in same_as_reference(ref, got, tol)]
                except Exception as e:
                    probs = [f"raises {type(e).__name__}: {str(e)[:140]}"]
                for w in probs[:1]:
                    record(f"dates-translation:{name.split('[')[0]}:{kind}", f"dates {dates} ({label}) through {name}: {w}", rep, (n, 1, 0))
            # plain TimeTreeModel and the keep_branch_lengths route (initialize_dates_from_taxa + heights_from_branch_lengths)
            try:
                got = observables(G.make_timetree(t, dates, hts))
                if as_times:
                    for w in same_as_reference(ref_tt, got, 0.0)[:1]:
                        record("dates-translation:TimeTreeModel", f"dates {dates} ({label}): not invariant under translation: {w}", rep, (n, 1, 0))
                if as_times:
                    case = kbl_builder(t, dates, [leaf[j] for j in range(n)] + hts)
                    for clause, w in case:
                        record(f"dates-translation:keep_branch_lengths:{clause}", f"dates {dates} ({label}), dated Newick read with keep_branch_lengths: {w}",
                               rep, (n, 1, 0))
                        break
            except Exception as e:
                record("dates-translation:raises", f"dates {dates}: raises {type(e).__name__}: {str(e)[:140]}", rep, (n, 1, 0))


# ----------------------------------------------------------------------------- keep_branch_lengths on non-clock-like trees
def nonclock_case(rng):
    """a Newick whose branch lengths are NOT clock-consistent with the (heterochronous) dates: random lengths,
    clock-consistent lengths rounded to one decimal, zero-length branches, lengths in substitution units"""
    n = rng.randrange(3, 9)
    t = G.random_flip(G.random_topology(n, rng), rng)
    sch = G.date_schemes(n, rng)
    dates = sch[rng.choice(["ages", "calendar", "forward-max0", "ages-decimal", "isochronous", "mixed-signs"])]
    mode = rng.choice(["random", "rounded", "zeros", "substitutions"])
    edges, root, below = G.independent_index(t, n)
    leaf = G.expected_leaf_heights(dates)
    if mode == "rounded":
        hts = valid_heights(t, dates, rng)
        H = leaf + hts
        lengths = {c: round(H[p] - H[c], 1) for p, c in edges}
    elif mode == "substitutions":
        lengths = {c: rng.uniform(0.0005, 0.05) for _p, c in edges}
    else:
        lengths = {c: rng.uniform(0.0, 3.0) for _p, c in edges}
        if mode == "zeros":
            for c in rng.sample(sorted(lengths), max(1, len(lengths) // 3)):
                lengths[c] = 0.0
    # what heights_from_branch_lengths is documented to do: node = max over children of child + max(eps, length)
    H = {i: leaf[i] for i in range(n)}
    children = {}
    for p, c in edges:
        children.setdefault(p, []).append(c)
    for v in range(n, 2 * n - 1):
        H[v] = max(H[c] + max(1e-6, lengths[c]) for c in children[v])
    return {"type": "kbl-nonclock", "tree": G.paren(t), "dates": dates, "mode": mode, "n": n,
            "lengths": {str(k): v for k, v in lengths.items()}, "heights": [H[i] for i in range(2 * n - 1)]}


def run_nonclock(case, kbl_newick):
    """-> [(clause, what)]: every route that accepts keep_branch_lengths must return a VALID point of the domain"""
    from torchtree.evolution.tree_model import ReparameterizedTimeTreeModel as R, TimeTreeModel as M
    from torchtree.evolution.tree_model_flexible import FlexibleTimeTreeModel as F

    t = G.parse_paren(case["tree"])
    n, dates, Hexp = case["n"], case["dates"], case["heights"]
    newick = kbl_newick(t, n, {int(k): v for k, v in case["lengths"].items()})
    leaf = G.expected_leaf_heights(dates)
    base = {"id": "tree", "newick": newick, "taxa": taxa_json(dates), "keep_branch_lengths": True}
    builds = {
        "ReparameterizedTimeTreeModel[ratios]": lambda: R.from_json(dict(base, type="ReparameterizedTimeTreeModel",
            ratios=pjson("r", [0.5] * (n - 2)), root_height=pjson("h", [max(leaf) + 1.0])), {}),
        "ReparameterizedTimeTreeModel[shifts]": lambda: R.from_json(dict(base, type="ReparameterizedTimeTreeModel",
            shifts=pjson("s", [1.0] * (n - 1))), {}),
        "TimeTreeModel": lambda: M.from_json(dict(base, type="TimeTreeModel", internal_heights=pjson("hh", [max(leaf) + 1.0] * (n - 1))), {}),
        "FlexibleTimeTreeModel": lambda: F.from_json(dict(base, type="FlexibleTimeTreeModel",
            internal_heights=pjson("hh", [max(leaf) + 1.0] * (n - 1))), {}),
    }
    bad = []
    S = max(1.0, max(abs(v) for v in Hexp))
    for name, build in builds.items():
        try:
            m = build()
            H = m.node_heights.detach().tolist()
            probs = [w for _c, w in property_on(m, dates)]
            if not all(math.isfinite(v) for v in H):
                probs.append(f"node heights {H}")
            elif any(abs(H[i] - Hexp[i]) > 1e-9 * S for i in range(n, 2 * n - 1)):
                probs.append(f"internal heights {H[n:]} but max over children of (child + max(1e-6, branch)) gives {Hexp[n:]}")
            if hasattr(m, "transform"):
                x = G.heights_param(m).tensor.detach().tolist()
                if name.endswith("[ratios]"):
                    if any(not (-1e-12 <= r <= 1 + 1e-12) for r in x[:-1]) or not (x[-1] >= max(leaf) - 1e-12):
                        probs.append(f"parameters outside the domain: ratios {x[:-1]}, root height {x[-1]} (oldest tip {max(leaf)})")
                elif any(not (v >= -1e-12) for v in x):
                    probs.append(f"negative increments {x}")
        except Exception as e:
            probs = [f"raises {type(e).__name__}: {str(e)[:140]}"]
        for w in probs[:1]:
            bad.append((name, w))
    return bad, newick


def section_kbl_nonclock(ck, rng, record, kbl_newick):
    for _ in range(120 if ck.thorough() else 40):
        case = nonclock_case(rng)
        bad, newick = run_nonclock(case, kbl_newick)
        ck.case(key=("kbl-nonclock", newick, tuple(case["dates"])), bucket=f"keep_branch_lengths/non-clock/{case['mode']}",
                sample=dict(case, newick=newick) if case["n"] == 4 and len(ck.samples) < 6 else None)
        for name, w in bad:
            record(f"keep_branch_lengths:non-clock:{name}", f"{newick} with dates {case['dates']} ({case['mode']} branch lengths) read with "
                   f"keep_branch_lengths by {name}: {w}", case, (case["n"], 1, 0))


# ----------------------------------------------------------------------------- smooth maximum at large height differences
def section_smooth_extreme(ck, rng, record):
    """DifferenceNodeHeightTransform with k > 0 where k·(height difference) is far beyond the exp range, in both child
    orders, float64 and float32: heights finite and valid, equal to the exact smooth maximum (mpmath), inverse returns
    the increments"""
    import mpmath as mp

    from torchtree.evolution.tree_height_transform import DifferenceNodeHeightTransform

    mp.mp.dps = 50
    shapes = [((0, 1), 2), (2, (0, 1)), ((0, 2), 1), (((0, 1), 2), 3), (3, ((0, 1), 2)), ((0, 1), (2, 3))]
    for dt, big, tol in ((torch.float64, [100.0, 800.0, 5000.0], 1e-12), (torch.float32, [20.0, 80.0, 400.0], 2e-6)):
        for t in shapes:
            n = G.ntips(t)
            for k in (1.0, 10.0, 100.0):
                for old in range(n):
                    ages = [0.0] * n
                    ages[old] = rng.choice(big)
                    if n > 3:
                        ages[(old + 1) % n] = rng.choice([0.0, 1.5])
                    x = [rng.choice([1e-6, 0.25, 1.0, 3.0]) for _ in range(n - 1)]
                    rep = {"type": "smooth-extreme", "tree": G.paren(t), "dates": ages, "x": x, "k": k, "dtype": str(dt)}
                    ck.case(key=("smooth-extreme", G.paren(t), tuple(ages), k, str(dt)), bucket=f"difference/smooth/k·Δ>exp-range/{dt}")
                    try:
                        m = G.make_reparam(t, ages, torch.tensor(x, dtype=dt), "difference")
                        m.transform = DifferenceNodeHeightTransform(m, k=k)
                        H = m.node_heights.detach().to(torch.float64).tolist()
                        inv = m.transform.inv(m.node_heights[..., n:]).detach().to(torch.float64).tolist()
                        # exact heights
                        edges, root, below = G.independent_index(t, n)
                        ch = {}
                        for p, c in edges:
                            ch.setdefault(p, []).append(c)
                        E = {i: mp.mpf(ages[i]) for i in range(n)}
                        xs = torch.tensor(x, dtype=dt).to(torch.float64).tolist()
                        for v in range(n, 2 * n - 1):
                            a, b = E[ch[v][0]], E[ch[v][1]]
                            mx = max(a, b)
                            E[v] = mx + mp.log(mp.e ** ((a - mx) * k) + mp.e ** ((b - mx) * k)) / k + mp.mpf(xs[v - n])
                        probs = []
                        if not all(math.isfinite(v) for v in H):
                            probs.append(f"node heights {H}")
                        else:
                            S = max(abs(v) for v in H)
                            for v in range(n, 2 * n - 1):
                                if abs(H[v] - float(E[v])) > tol * max(1.0, S):
                                    probs.append(f"node {v} at {H[v]!r}; exact smooth maximum + increment = {float(E[v])!r}")
                                    break
                            if not probs and any(abs(a_ - b_) > tol * max(1.0, S) + 1e-9 * abs(b_) for a_, b_ in zip(inv, xs)):
                                probs.append(f"inverse returns {inv} for increments {xs}")
                            probs += [w for _c, w in property_on(m, ages)][:1]
                    except Exception as e:
                        probs = [f"raises {type(e).__name__}: {str(e)[:140]}"]
                    for w in probs[:1]:
                        record(f"difference:smooth-extreme:{dt}", f"k = {k}, tips {ages} on {G.paren(t)}, increments {x} ({dt}): {w}", rep, (n, 1, 0))


# ----------------------------------------------------------------------------- live DATA updates (dates of taxa)
def _date_model(style, kind, k, t, dates, rows, batched, dtype):
    """a live model together with the handles a user has: the Taxa (to correct a date), the parameter, the transform.
    style 'ctor': ReparameterizedTimeTreeModel built by the constructor; 'flexible': FlexibleTimeTreeModel whose heights
    are a TransformedParameter over a node-height transform of that tree (from_json)."""
    from torchtree import Parameter
    from torchtree.evolution.tree_height_transform import DifferenceNodeHeightTransform
    from torchtree.evolution.tree_model import ReparameterizedTimeTreeModel as R

    x = torch.tensor(rows if batched else rows[0], dtype=dtype)
    if style == "ctor":
        taxa = G.make_taxa(dates)
        tree = G.make_tree(t, taxa)
        p = Parameter("x", x)
        m = R("tree", tree, taxa, p) if kind == "ratio" else R("tree", tree, taxa, shifts=p)
        if k:
            m.transform = DifferenceNodeHeightTransform(m, k=k)
        return m, taxa, p, m.transform
    from torchtree.evolution.tree_model_flexible import FlexibleTimeTreeModel

    dic = {}
    cls_, arg = (("GeneralNodeHeightTransform", "tree") if kind == "ratio" else ("DifferenceNodeHeightTransform", "tree_model"))
    params = {arg: "tree"}
    if k:
        params["k"] = k
    js = {"id": "tree", "type": "FlexibleTimeTreeModel", "newick": G.newick(t), "taxa": taxa_json(dates),
          "internal_heights": {"id": "heights", "type": "TransformedParameter",
                               "transform": "torchtree.evolution.tree_height_transform." + cls_, "parameters": params,
                               "x": {"id": "hx", "type": "Parameter", "tensor": x.tolist(),
                                     "dtype": "torch.float64" if dtype == torch.float64 else "torch.float32"}}}
    m = FlexibleTimeTreeModel.from_json(js, dic)
    return m, dic["taxa"], dic["hx"], dic["heights"].transform


def section_date_updates(ck, rng, record):
    """live DATA updates: the date of one or several taxa is corrected on a live model, the public refresh is called
    (update_leaf_heights(); for the ratio transform also update_bounds(), which is its documented hook), the parameters
    are re-assigned with the same batch shape and dtype, and everything observable must equal a model freshly built at
    the new dates; several corrections in a row, every parameterisation, both routes, batched or not, float64/float32"""
    combos = [("ratio", None), ("difference", None), ("difference", 2.0)]
    for i in range(90 if ck.thorough() else 30):
        kind, k = combos[i % 3]
        style = ("ctor", "flexible")[(i // 3) % 2]
        dtype = torch.float32 if i % 5 == 4 else DT
        batched = i % 2 == 1
        n = rng.randrange(3, 7)
        t = G.random_flip(G.random_topology(n, rng), rng)
        sch = G.date_schemes(n, rng)
        dates = list(sch[rng.choice(["ages", "calendar", "forward-max0", "ages-ties", "calendar-decimal"])])
        B = rng.randrange(2, 4) if batched else 1
        rows = [draw(kind, t, dates, rng) for _ in range(B)]
        steps = []
        rep = {"type": "date-update", "tree": G.paren(t), "dates": list(dates), "kind": kind, "k": k, "style": style,
               "batched": batched, "dtype": str(dtype), "x": rows, "steps": steps}
        ck.case(key=("date-update", G.paren(t), tuple(dates), kind, k, style, batched, str(dtype)),
                bucket=f"live/date-update/{kind}{'/smooth' if k else ''}/{style}/{'batched' if batched else 'single'}/{dtype}")
        try:
            m, taxa, p, tr = _date_model(style, kind, k, t, dates, rows, batched, dtype)
            _ = m.node_heights, m.branch_lengths(), tr.inv(m.node_heights[..., n:])  # fill every cache
            probs = []
            for u in range(rng.randrange(2, 4)):
                # correct the dates of one or two taxa (keeping the reading of the vector: ages stay ages)
                new_dates = list(dates)
                for j in rng.sample(range(n), rng.choice([1, 1, 2])):
                    if min(dates) == 0.0 and dates[j] == 0.0 and dates.count(0.0) == 1:
                        continue
                    new_dates[j] = dates[j] + rng.choice([-1.5, 0.75, 2.25, 4.0]) if dates[j] != 0.0 or min(dates) != 0.0 \
                        else rng.choice([0.5, 3.0])
                if min(dates) == 0.0 and min(new_dates) != 0.0:
                    new_dates[new_dates.index(min(new_dates))] = 0.0
                new_rows = [draw(kind, t, new_dates, rng) for _ in range(B)]
                steps.append({"dates": list(new_dates), "x": new_rows})
                for j in range(n):
                    if new_dates[j] != dates[j]:
                        taxa[j]["date"] = new_dates[j]
                m.update_leaf_heights()
                if hasattr(tr, "update_bounds"):
                    tr.update_bounds()
                xt = torch.tensor(new_rows if batched else new_rows[0], dtype=dtype)
                p.tensor = xt.clone()
                H = m.node_heights.detach().clone()
                bl = m.branch_lengths().detach().clone()
                inv = tr.inv(H[..., n:]).detach().clone()
                fm, _ta, _p, ftr = _date_model(style, kind, k, t, new_dates, new_rows, batched, dtype)
                Hf, blf = fm.node_heights.detach(), fm.branch_lengths().detach()
                invf = ftr.inv(Hf[..., n:]).detach()
                if not (same(H, Hf) and same(bl, blf)):
                    probs.append(f"after correcting the dates to {new_dates} (update {u}) and re-assigning the parameters {new_rows}: "
                                 f"node_heights {H.tolist()} / branch_lengths {bl.tolist()} but a model built at these dates has "
                                 f"{Hf.tolist()} / {blf.tolist()}")
                elif not same(inv, invf):
                    probs.append(f"after correcting the dates to {new_dates} (update {u}): inverse {inv.tolist()} but a fresh model "
                                 f"gives {invf.tolist()}")
                else:
                    rows_H = H.tolist() if batched else [H.tolist()]
                    leaf = G.expected_leaf_heights(new_dates)
                    eps = 2.3e-16 if dtype == DT else 1.2e-7
                    for hrow in rows_H:
                        S = max(1.0, max(abs(v) for v in hrow))
                        if any(abs(hrow[j] - leaf[j]) > leaf_tol(leaf[j], dtype) for j in range(n)):
                            probs.append(f"after the date correction to {new_dates} the tips sit at {hrow[:n]}")
                            break
                        if any(hrow[pp] < hrow[c] - 8 * eps * S for pp, c in G.dendropy_edges(m)):
                            probs.append(f"after the date correction to {new_dates} a parent is younger than its child: {hrow}")
                            break
                dates = new_dates
                if probs:
                    break
        except Exception as e:
            probs = [f"raises {type(e).__name__}: {str(e)[:160]}"]
        for w in probs[:1]:
            record(f"date-update:{kind}{':smooth' if k else ''}:{style}", w, rep, (n, len(steps), 0))


def same(a, b):
    return a.shape == b.shape and a.dtype == b.dtype and torch.equal(a, b)


def replay_route(obj):
    """re-build a recorded route (the randomised from_json variants are re-drawn: every variant of the same
    option value is expected to fail alike)"""
    rng = random.Random(0)
    tmpdir = tempfile.mkdtemp(prefix="c06-replay-")
    t = G.parse_paren(obj["tree"])
    bad = 0
    if obj["type"] == "route-tt":
        routes = timetree_routes(t, obj["dates"], obj["heights"], rng)
    elif obj["route"] == "cli":
        m, x, js = cli_route(t, obj["dates"], obj["kind"], tmpdir, rng)
        print("CLI JSON:", js)
        for c, w in property_on(m, obj["dates"], 4.0):
            print(f"VIOLATES [{c}]: {w}")
            bad = 1
        return bad
    else:
        routes = reparam_routes(t, obj["dates"], obj["x"], obj["kind"], rng, tmpdir)
        want_upi = "upi=True" in obj["route"]
        # make sure the option value of the recorded route is among the re-drawn variants
        routes = [r for r in routes if ("upi=True" in r[0]) == want_upi or not r[0].startswith("from_json")] or routes
    ref = None
    for name, tol, build in routes:
        try:
            m = build()
            got = observables(m)
            probs = [w for _c, w in property_on(m, obj["dates"], 1.0 if tol == 0 else 4.0)]
            if ref is None:
                ref = got
            else:
                probs += same_as_reference(ref, got, tol)
        except Exception as e:
            probs = [f"raises {type(e).__name__}: {e}"]
        print(f"{name}: " + ("ok" if not probs else "VIOLATES: " + probs[0]))
        bad |= bool(probs)
    return int(bad)


def replay_date_update(obj):
    """re-execute a recorded history of date corrections on a live model"""
    t = G.parse_paren(obj["tree"])
    n = G.ntips(t)
    dtype = torch.float32 if "float32" in obj["dtype"] else DT
    kind, k, style, batched = obj["kind"], obj["k"], obj["style"], obj["batched"]
    dates = list(obj["dates"])
    m, taxa, p, tr = _date_model(style, kind, k, t, dates, obj["x"], batched, dtype)
    _ = m.node_heights, m.branch_lengths(), tr.inv(m.node_heights[..., n:])
    bad = 0
    for u, st in enumerate(obj["steps"]):
        for j in range(n):
            if st["dates"][j] != dates[j]:
                taxa[j]["date"] = st["dates"][j]
        dates = list(st["dates"])
        m.update_leaf_heights()
        if hasattr(tr, "update_bounds"):
            tr.update_bounds()
        p.tensor = torch.tensor(st["x"] if batched else st["x"][0], dtype=dtype)
        H = m.node_heights.detach()
        fm, _a, _b, _c = _date_model(style, kind, k, t, dates, st["x"], batched, dtype)
        ok = same(H, fm.node_heights.detach()) and same(m.branch_lengths().detach(), fm.branch_lengths().detach())
        print(f"correction {u}: dates {dates}\n  live  node_heights {H.tolist()}\n  fresh node_heights {fm.node_heights.tolist()}"
              + ("" if ok else "\n  VIOLATES: the live model does not reflect the corrected dates"))
        bad |= not ok
    return int(bad)
