"""C20 — smoothing / integrated priors and sufficient statistics match their densities.

Lean side : TTModel/C20_GMRF.lean (+ C08 model) and TTProofs/Props/C20.lean: gmrf_weighted_form /
            gmrf_quadratic_form (any commutative ring, any length: sum of weighted squared first differences
            = x^T Q x for the tridiagonal matrix precision_matrix publishes), gmrf_density_is_gaussian_form,
            gamma_integrated / invgamma_integrated (the closed forms are the integrals of Gamma(tau;a,b) * GMRF(x|tau)
            over tau and of InvGamma(theta) * ConstantCoalescent(T|theta) over theta),
            suffstats_reproduce_skygrid / _skyride (sum_g ss_g/theta_g + c_g log theta_g = -log_prob).
Tie       : correspondence with torchtree: quadratic forms and published matrices bit-exact on dyadic
            fields (plain, weighted), 1e-12 time-aware; log densities 1e-12; integrated forms 1e-10;
            sufficient statistics and counts exact; lengths 2..50; batched.
Search    : the identities themselves on the implementation, always run: density vs quadratic form of the
            PUBLISHED matrix; integrated priors vs mpmath quadrature of the product of the implementation's
            own densities; sufficient statistics vs log_prob; the block-update sampler's gradient
            (-Q gamma - c + exp(-gamma) ss) vs autograd of the two log densities.
"""
from __future__ import annotations

import json
import math
from fractions import Fraction as F
from pathlib import Path
from types import SimpleNamespace

import c08_gen as G
from common import REPO, VERIF, Check, f2h, h2f, use_repo

LOG2PI_LITERAL = 1.8378770664093453  # the constant written in gmrf.py
TOL = 1e-12
TOL_INT = 1e-10


def fr(x):
    x = F(x)
    return f"{x.numerator}/{x.denominator}"


def Hx(xs):
    return " ".join(f2h(float(x)) for x in xs)


def Qx(xs):
    return " ".join(fr(x) for x in xs)


def T(xs):
    import torch

    return torch.tensor([float(x) for x in xs], dtype=torch.float64)


def T2(rows):
    import torch

    return torch.tensor([[float(x) for x in r] for r in rows], dtype=torch.float64)


def close(a, b, tol, scale=1.0):
    if a is None or b is None or math.isnan(a) or math.isnan(b):
        return False
    return abs(a - b) <= tol * max(1.0, scale, abs(b))


def enc(c):
    out = {}
    for k, v in c.items():
        if isinstance(v, list) and v and isinstance(v[0], list):
            out[k] = [[fr(x) for x in r] for r in v]
        elif isinstance(v, list):
            out[k] = [fr(x) if isinstance(x, (F, int)) and not isinstance(x, bool) else x for x in v]
        elif isinstance(v, F):
            out[k] = fr(v)
        else:
            out[k] = v
    return out


def dec(d):
    out = {}
    for k, v in d.items():
        if k in ("field", "weights", "internal", "samp", "coal", "grid", "thetas", "beta"):
            out[k] = [F(x) for x in v]
        elif k in ("theta_rows", "Z"):
            out[k] = [[F(x) for x in r] for r in v]
        elif k in ("tau", "shape", "rate", "alpha", "beta"):
            out[k] = F(v)
        else:
            out[k] = v
    return out


# ----------------------------------------------------------------------------- GMRF
def make_gmrf_case(rng, n, mode):
    """n = field length (2..50)"""
    c = {"what": "gmrf", "mode": mode, "field": [G.dy(rng, -4, 4, 3) for _ in range(n)], "tau": G.pow2(rng, -3, 3)}
    if mode == "W":
        c["weights"] = [G.pow2(rng, -2, 2) for _ in range(n - 1)]
    if mode in ("T0", "T1"):
        g = G.genealogy(rng, n + 1, q=2, coal_tie_samp_p=0.0)
        c["samp"], c["coal"], c["newick"] = g["samp"], g["coal"], g["newick"]
    return c


SCALE_REGIMES = ("W-tiny-weight", "T0-short-intervals", "T0-near-ties", "T1-near-ties", "extreme-field", "extreme-precision")


def make_scale_case(rng, n, regime):
    """scale regimes: weights far below any plausible floor (2^-30, 2^-40), node-height intervals below 1e-6 without
    rescaling, two nearly simultaneous coalescent events (with and without rescaling), fields and precisions at
    2^+-20 / 2^+-30 — all dyadic, so the Lean model evaluates them exactly"""
    mode = {"W": "W", "T0": "T0", "T1": "T1"}.get(regime.split("-")[0], rng.choice(["P", "W", "T0", "T1"]))
    c = make_gmrf_case(rng, n, mode)
    c["regime"] = regime
    if regime == "W-tiny-weight":
        for i in rng.sample(range(n - 1), min(n - 1, rng.randint(1, 2))):
            c["weights"][i] = F(1, 2 ** rng.choice([24, 30, 40]))
    elif regime == "T0-short-intervals":
        k = F(1, 2 ** rng.choice([24, 30]))
        c["samp"] = [x * k for x in c["samp"]]
        c["coal"] = [x * k for x in c["coal"]]
        # heights handed over directly (FakeTreeModel-style object): TimeTreeModel.json_factory(keep_branch_lengths=True)
        # lifts every internal node at least 1e-6 above its children, so a newick in such units does not survive that route
        c.pop("newick", None)
    elif regime in ("T0-near-ties", "T1-near-ties"):
        cs = sorted(c["coal"])
        j = rng.randrange(len(cs) - 1) if len(cs) > 1 else None
        if j is not None:
            eps = F(1, 2 ** rng.choice([26, 32]))
            if j + 2 >= len(cs) or cs[j] + eps < cs[j + 2]:
                cs[j + 1] = cs[j] + eps
        # distinct heights only: a zero interval is a zero weight (division by zero, excluded by the hypotheses)
        if len(set(cs)) == len(cs):
            c["coal"] = cs
        c.pop("newick", None)
    elif regime == "extreme-field":
        k = F(2) ** rng.choice([-20, 20])
        c["field"] = [x * k for x in c["field"]]
    elif regime == "extreme-precision":
        c["tau"] = F(2) ** rng.choice([-30, 30])
    return c


def exact_sumsq(case):
    """the weighted sum of squared first differences of the case in exact rational arithmetic (the statement of the
    property on the mathematical input, independent of the implementation)"""
    x = case["field"]
    mode = case["mode"]
    d = [(a - b) ** 2 for a, b in zip(x, x[1:])]
    if mode == "P":
        return sum(d)
    if mode == "W":
        w = case["weights"]
    else:
        hs = sorted([F(0)] + list(case["coal"]))
        dur = [b - a for a, b in zip(hs, hs[1:])]
        w = [(a + b) / 2 for a, b in zip(dur, dur[1:])]
        if mode == "T1":
            w = [v / hs[-1] for v in w]
    return sum(q / ww for q, ww in zip(d, w))


def rng_shape(case, key):
    """shape / rate of the integrated model for a case: the case's own or a fixed dyadic one (replayable)"""
    return case.get(key, F(11, 8) if key == "shape" else F(5, 4))


def tree_for(case, real):
    """object with node_heights / taxa_count; `real`: a TimeTreeModel built from the newick"""
    import torch

    samp, coal = case["samp"], case["coal"]
    if real:
        from torchtree.evolution.tree_model import TimeTreeModel

        taxa = {f"T{i}": float(s) for i, s in enumerate(samp)}
        js = TimeTreeModel.json_factory("tree", case["newick"], [0.0] * len(coal), taxa, keep_branch_lengths=True)
        js["internal_heights"]["dtype"] = "torch.float64"
        return TimeTreeModel.from_json(js, {})
    return SimpleNamespace(node_heights=T(list(samp) + list(coal)), taxa_count=len(samp))


def build_gmrf(case, real_tree=False, cls="GMRF"):
    import torch
    from torchtree import Parameter
    from torchtree.distributions.gmrf import GMRF
    from torchtree.distributions.gmrf_integrated import GMRFGammaIntegrated

    field = Parameter("field", T(case["field"]))
    mode = case["mode"]
    tree = tree_for(case, real_tree) if mode in ("T0", "T1") else None
    weights = T(case["weights"]) if mode == "W" else None
    rescale = mode == "T1"
    if cls == "GMRF":
        return GMRF("gmrf", field, Parameter("precision", T([case["tau"]])), tree, weights, rescale), tree
    return GMRFGammaIntegrated("gint", field, float(case["shape"]), float(case["rate"]), tree, weights, rescale), tree


def extra_group(case, tree, enc_):
    mode = case["mode"]
    if mode == "W":
        return " | " + enc_(case["weights"])
    if mode in ("T0", "T1"):
        internal = [F(float(x)) for x in tree.node_heights[..., tree.taxa_count:].reshape(-1).tolist()]
        return " | " + enc_(internal)
    return ""


def exact_quad(Q, x):
    """x^T Q x in exact rational arithmetic on the float entries"""
    n = len(x)
    return sum(F(x[i]) * F(Q[i][j]) * F(x[j]) for i in range(n) for j in range(n) if Q[i][j] != 0.0)


_GL = {}


def log_integral(f_log, lo, hi, piece=0.25, order=24):
    """log of the integral over v in [lo, hi] of exp(f_log(v)): composite Gauss-Legendre in 30-digit
    arithmetic on pieces of width `piece` (the integrands used here are smooth in v = log of the
    integration variable and negligible outside [lo, hi])"""
    import mpmath as mp
    import numpy as np

    if order not in _GL:
        xs, ws = np.polynomial.legendre.leggauss(order)
        _GL[order] = ([mp.mpf(float(x)) for x in xs], [mp.mpf(float(w)) for w in ws])
    xs, ws = _GL[order]
    k = max(1, int(math.ceil((hi - lo) / piece)))
    h = (mp.mpf(hi) - mp.mpf(lo)) / k
    vals = []
    for i in range(k):
        a = mp.mpf(lo) + i * h
        for x, w in zip(xs, ws):
            v = a + h / 2 * (x + 1)
            vals.append((f_log(v), w * h / 2))
    m = max(fv for fv, _ in vals)
    return m + mp.log(mp.fsum(w * mp.exp(fv - m) for fv, w in vals))


def tie_grid(rng, samp, coal, gg):
    """a grid with coalescent times placed EXACTLY on grid points: the root as the last grid point (the usual
    `cutoff = root height` set-up), interior coalescent times as interior grid points, several at once"""
    coal_s = sorted(coal)
    root = coal_s[-1]
    mode = rng.choice(["root-cutoff", "interior", "several"])
    tied = set()
    if mode in ("root-cutoff", "several"):
        tied.add(root)
    if mode in ("interior", "several") or len(coal_s) == 1:
        k = rng.randint(1, min(3, len(coal_s)))
        tied.update(rng.sample(coal_s, k))
    others = [g for g in G.grid_for(rng, gg, root, coal, samp, q=3) if g not in coal]
    if root in tied and mode == "root-cutoff":
        others = [g for g in others if g < root]
    return sorted(set(others) | tied), mode


def counts_admissible(coal, grid, counts):
    """coalescent counts per grid window: a coalescent time c with grid[k] == c may be charged to the window ending at
    grid[k] (left-continuous, what the stable-sort model does) or to the one starting there (right-continuous): torch's
    argsort is not stable. -> (ok, sides) with sides[k] in {'left','right'} for the tied grid points"""
    W = len(grid) + 1
    base = [0] * W
    tied = {}
    for c in coal:
        if c in grid:
            tied[grid.index(c)] = c
        else:
            base[sum(1 for g in grid if g < c)] += 1
    sides, carry = {}, 0
    for w in range(W):
        extra = counts[w] - base[w] - carry
        carry = 0
        if w in tied:
            if extra == 1:
                sides[w] = "left"
            elif extra == 0:
                sides[w] = "right"
                carry = 1
            else:
                return False, sides
        elif extra != 0:
            return False, sides
    return carry == 0, sides


HARNESS_DIR = str(Path(__file__).resolve().parent)


def observe(ck, what, fn):
    """read something OFF a library object (an attribute, an accessor) — never the property's observable itself.
    Names of attributes are not part of what is verified: when the read fails (AttributeError / TypeError / KeyError /
    IndexError) the observation is simply unavailable — bucketed and noted, never a violation, never a mismatch.
    -> (available, value)"""
    try:
        return True, fn()
    except (AttributeError, TypeError, KeyError, IndexError) as e:
        ck.bucket(f"observation-unavailable/{what}")
        note = f"observation unavailable ({what}): {type(e).__name__}: {str(e)[:100]}"
        if note not in ck.notes:
            ck.notes.append(note)
        return False, None


def harness_introspection(e):
    """an AttributeError raised by a line of the HARNESS (innermost frame in harness/) on something that is not an
    unusable output (None): the harness looked for a name the object does not have — not a finding"""
    import traceback

    tb = traceback.extract_tb(e.__traceback__)
    return (isinstance(e, AttributeError) and tb and tb[-1].filename.startswith(HARNESS_DIR) and "'NoneType'" not in str(e))



class Runner:
    def __init__(self, ck, drv):
        self.ck, self.drv, self.fail = ck, drv, {}

    def guard(self, name, fn, *a, **k):
        """the implementation may return something unusable (wrong shape, wrong type) that only trips the
        harness later: that is an oracle failure of the implementation, not a harness crash"""
        try:
            return fn(*a, **k)
        except Exception as e:
            import traceback

            from common import InfraError

            if isinstance(e, InfraError):
                raise
            tb = traceback.extract_tb(e.__traceback__)[-1]
            if harness_introspection(e):
                self.ck.mismatch(f"{name}: the harness could not observe an object ({type(e).__name__}: {str(e)[:120]} at {tb.name}:{tb.lineno})", {"check": name})
                return
            case = next((x for x in a if isinstance(x, dict)), {"what": name})
            self.violation(f"{name}:unusable-output",
                           f"{name}: the implementation's output could not be used ({type(e).__name__}: {str(e)[:120]} at {tb.name}:{tb.lineno})",
                           case, 10 ** 6)

    def violation(self, sig, what, case, size, extra=None):
        if "'types.SimpleNamespace' object has no attribute" in what:
            # the harness's duck-typed stand-in for a tree (node_heights, taxa_count) lacks something the code now reads:
            # not a finding by itself — the real tree model objects of every kind (c20_routes.real_trees) decide
            note = "stub tree lacks an attribute the implementation reads: " + what.split("AttributeError:")[-1].strip()
            if note not in self.ck.notes:
                self.ck.notes.append(note)
            return
        if sig not in self.fail or size < self.fail[sig][0]:
            rep = {"case": enc(case), "replay_cmd": "./check C20 --replay <this file>"}
            rep.update(extra or {})
            self.fail[sig] = (size, what, rep)

    # ---- GMRF: density vs published precision matrix (+ model)
    def gmrf(self, case, real_tree=False):
        ck = self.ck
        mode, n = case["mode"], len(case["field"])
        variant = {"P": "plain", "W": "weighted", "T0": "time-aware", "T1": "time-aware-rescaled"}[mode]
        try:
            g, tree = build_gmrf(case, real_tree)
            val = float(g().reshape(-1)[0])
            Q = g.precision_matrix().tolist()
        except Exception as e:
            self.violation(f"GMRF.{variant}:raises", f"GMRF ({variant}, length {n}) raises {type(e).__name__}: {str(e)[:120]}", case, n)
            return
        x = [float(v) for v in case["field"]]
        tau = float(case["tau"])
        dim = n - 1
        quad = exact_quad(Q, x)
        want = dim / 2 * math.log(tau) - 0.5 * float(quad) - dim / 2 * math.log(2 * math.pi)
        scale = abs(dim / 2 * math.log(tau)) + abs(0.5 * float(quad)) + dim
        if not close(val, want, TOL_INT, scale):
            self.violation(f"GMRF.precision_matrix:{variant}",
                           f"GMRF ({variant}, length {n}): log density {val!r} but the Gaussian form of the published precision matrix gives {want!r}",
                           case, n, {"impl": val, "from_published_matrix": want})
        if self.drv is None:
            return
        # model: exact quadratic forms and matrix (dyadic), log density
        ex = extra_group(case, tree, Qx)
        rep = self.drv.ask(f"quad Q {mode} {fr(case['tau'])} | {Qx(case['field'])}{ex}")
        pm = self.drv.ask(f"pmat Q {mode} {fr(case['tau'])} | {Qx(case['field'])}{ex}")
        lv = self.drv.ask(f"gmrf F {mode} {Hx([LOG2PI_LITERAL, case['tau']])} | {Hx(case['field'])}{extra_group(case, tree, Hx)}")
        if "bad-op" in (rep, pm, lv):
            ck.mismatch("model answered bad-op", {"case": enc(case)})
            return
        s_model, q_model = [F(v) for v in rep.split()]
        Qm = [[F(v) for v in row.split()] for row in pm.split(";")]
        exact = mode in ("P", "W")
        if s_model != q_model:
            ck.mismatch("model: quadratic form of its matrix differs from its own sum of squares (theorem broken?)", {"case": enc(case)})
        if exact:
            okq = quad == q_model
            okm = all(F(Q[i][j]) == Qm[i][j] for i in range(n) for j in range(n))
        else:
            okq = close(float(quad), float(q_model), TOL, abs(float(q_model)))
            okm = all(close(Q[i][j], float(Qm[i][j]), TOL, abs(float(Qm[i][j]))) for i in range(n) for j in range(n))
        if not okq:
            ck.mismatch("quadratic form of the published matrix differs from the model", {"case": enc(case), "impl": str(quad), "model": str(q_model)})
        if not okm:
            ck.mismatch("published precision matrix differs from the model", {"case": enc(case)})
        if not close(val, h2f(lv), TOL, scale):
            ck.mismatch("GMRF log density differs from the model", {"case": enc(case), "impl": val, "model": h2f(lv)})

    def scale_exact(self, case):
        """GMRF and GMRFGammaIntegrated against the closed forms evaluated on the EXACT weighted sum of squares
        (tolerance relative to the exact value), and against each other through that sum"""
        n = len(case["field"])
        d = n - 1
        S = exact_sumsq(case)
        tau = float(case["tau"])
        a, b = F(rng_shape(case, "shape")), F(rng_shape(case, "rate"))
        gc = dict(case, shape=a, rate=b)
        try:
            g, _ = build_gmrf(case)
            val = float(g().reshape(-1)[0])
            gi, _ = build_gmrf(gc, cls="GMRFGammaIntegrated")
            vi = float(gi().reshape(-1)[0])
        except Exception as e:
            self.violation(f"GMRF.scale:{case['regime']}:raises", f"GMRF/GMRFGammaIntegrated raise in the regime {case['regime']}: {type(e).__name__}: {str(e)[:120]}", case, n)
            return
        want = d / 2 * math.log(tau) - tau * float(S) / 2 - d / 2 * math.log(2 * math.pi)
        scale = abs(d / 2 * math.log(tau)) + tau * float(S) / 2 + d
        if not close(val, want, TOL_INT, scale):
            self.violation(f"GMRF.scale:{case['mode']}", f"GMRF ({case['regime']}, length {n}): log density {val!r}; the Gaussian form on the exact weighted sum of squares gives {want!r}",
                           case, n, {"impl": val, "exact": want})
        fa, fb = float(a), float(b)
        wi = (-d / 2 * math.log(2 * math.pi) + fa * math.log(fb) - math.lgamma(fa) + math.lgamma(fa + d / 2) - (fa + d / 2) * math.log(float(S / 2 + b)))
        si = abs(fa * math.log(fb)) + abs(math.lgamma(fa)) + abs(math.lgamma(fa + d / 2)) + abs((fa + d / 2) * math.log(float(S / 2 + b))) + d
        if not close(vi, wi, TOL_INT, si):
            self.violation(f"GMRFGammaIntegrated.scale:{case['mode']}", f"GMRFGammaIntegrated ({case['regime']}, length {n}) = {vi!r}; the closed form on the exact weighted sum of "
                           f"squares gives {wi!r}", gc, n, {"impl": vi, "exact": wi})

    def gmrf_batched(self, rng, n, mode):
        import torch
        from torchtree import Parameter
        from torchtree.distributions.gmrf import GMRF

        B = rng.randint(2, 3)
        cases = [make_gmrf_case(rng, n, mode) for _ in range(B)]
        self.ck.case(key=("gmrf-batch", mode, n, B), bucket=f"gmrf/batched/{mode}")
        try:
            field = Parameter("field", T2([c["field"] for c in cases]))
            prec = Parameter("precision", T2([[c["tau"]] for c in cases]))
            tree, w = None, None
            if mode == "W":
                w = T2([c["weights"] for c in cases])
            if mode in ("T0", "T1"):
                tree = SimpleNamespace(node_heights=T2([c["samp"] + c["coal"] for c in cases]), taxa_count=n + 1)
            g = GMRF("gmrf", field, prec, tree, w, mode == "T1")
            vals = [float(v) for v in g().reshape(-1).tolist()]
            Qs = g.precision_matrix().tolist()
        except Exception as e:
            self.violation(f"GMRF.batched:{mode}:raises", f"batched GMRF ({mode}) raises {type(e).__name__}: {str(e)[:120]}", cases[0], n)
            return
        for s, c in enumerate(cases):
            try:
                g1, _ = build_gmrf(c)
                v1 = float(g1().reshape(-1)[0])
                Q1 = g1.precision_matrix().tolist()
            except Exception:
                continue
            if not close(vals[s], v1, TOL, abs(v1)) or any(not close(Qs[s][i][j], Q1[i][j], TOL, abs(Q1[i][j])) for i in range(n) for j in range(n)):
                self.violation(f"GMRF.batched:{mode}:row", f"batched GMRF ({mode}) row {s} differs from the unbatched evaluation of that slice", c, n,
                               {"row": s, "batched": vals[s], "single": v1})

    # ---- GMRFGammaIntegrated vs quadrature of Gamma(tau) * GMRF(x | tau)
    def gamma_integrated(self, rng, case, impl_in_loop):
        import mpmath as mp

        mp.mp.dps = 30

        case = dict(case, what="gint")
        if "shape" not in case:
            case["shape"] = F(rng.randint(1, 24), 8)
            case["rate"] = F(rng.randint(1, 24), 8)
        n = len(case["field"])
        variant = case["mode"]
        try:
            gi, tree = build_gmrf(case, cls="GMRFGammaIntegrated")
            val = float(gi().reshape(-1)[0])
        except Exception as e:
            self.violation(f"GMRFGammaIntegrated:{variant}:raises", f"GMRFGammaIntegrated raises {type(e).__name__}: {str(e)[:120]}", case, n)
            return
        a, b = mp.mpf(float(case["shape"])), mp.mpf(float(case["rate"]))
        from torchtree import Parameter
        from torchtree.distributions.gmrf import GMRF

        # the harness keeps its OWN handle on the precision parameter it passes in (no attribute of the object is read)
        prec_handle = Parameter("precision", T([F(1)]))
        g = GMRF("gmrf", Parameter("field", T(case["field"])), prec_handle, tree_for(case, False) if variant in ("T0", "T1") else None,
                 T(case["weights"]) if variant == "W" else None, variant == "T1")
        d = n - 1
        # S/2 read off the implementation's own value at tau = 1: log p = d/2 log tau - tau S/2 - d/2 log 2 pi
        lp1 = mp.mpf(float(g().reshape(-1)[0]))
        S2 = -(lp1 + mp.mpf(d) / 2 * mp.log(2 * mp.pi))
        if impl_in_loop:
            def logdens(t):
                prec_handle.tensor = T([float(t)])
                return mp.mpf(float(g().reshape(-1)[0]))
        else:
            def logdens(t):
                return mp.mpf(d) / 2 * mp.log(t) - t * S2 - mp.mpf(d) / 2 * mp.log(2 * mp.pi)

        def f_log(v):  # log of Gamma(tau; a, b) * GMRF(x | tau) * dtau/dv, tau = exp(v)
            t = mp.exp(v)
            return a * mp.log(b) - mp.loggamma(a) + (a - 1) * v - b * t + logdens(t) + v

        sh, r = float(a) + d / 2, float(b + S2)
        v0 = math.log(sh / r)
        want = float(log_integral(f_log, v0 - 45.0 / sh - 4.0, v0 + 6.0, piece=0.5 if impl_in_loop else 0.25))
        self.ck.bucket("gamma-integrated/" + ("implementation-in-the-loop" if impl_in_loop else "closed-GMRF"))
        if not close(val, want, 1e-8 if impl_in_loop else TOL_INT, abs(want)):
            self.violation(f"GMRFGammaIntegrated:{variant}:value",
                           f"GMRFGammaIntegrated ({variant}, length {n}) = {val!r}, quadrature of Gamma(tau;a,b)*GMRF(x|tau) = {want!r}",
                           case, n, {"impl": val, "quadrature": want})
        if self.drv:
            lgA = math.lgamma(float(case["shape"]))
            lgAd = math.lgamma(float(case["shape"]) + (n - 1) / 2.0)
            rep = self.drv.ask(f"gint F {variant} {Hx([math.log(2 * math.pi), case['shape'], case['rate'], lgA, lgAd])} | {Hx(case['field'])}{extra_group(case, tree, Hx)}")
            if rep == "bad-op" or not close(val, h2f(rep), TOL_INT, abs(val)):
                self.ck.mismatch("GMRFGammaIntegrated differs from the model", {"case": enc(case), "impl": val, "model": rep})

    # ---- ConstantCoalescentIntegrated vs quadrature of InvGamma(theta) * ConstantCoalescent(T | theta)
    def constant_integrated(self, rng, n, impl_in_loop, given=None):
        import mpmath as mp
        from torchtree.evolution.coalescent import ConstantCoalescent, ConstantCoalescentIntegrated

        mp.mp.dps = 30

        if given is None:
            g = G.genealogy(rng, n, q=2)
            samp, coal, _, _ = G.shuffled_blocks(rng, g["samp"], g["coal"])
            case = {"what": "cint", "samp": samp, "coal": coal, "alpha": F(rng.randint(1, 24), 8), "beta": F(rng.randint(1, 24), 8)}
        else:
            case = given
        samp, coal = case["samp"], case["coal"]
        n = len(samp)
        h = T(samp + coal)
        self.ck.case(key=("cint", n, tuple(samp), tuple(coal), case["alpha"], case["beta"]), bucket="constant-integrated")
        try:
            val = float(ConstantCoalescentIntegrated(float(case["alpha"]), float(case["beta"])).log_prob(h).reshape(-1)[0])
        except Exception as e:
            self.violation("ConstantCoalescentIntegrated:raises", f"raises {type(e).__name__}: {str(e)[:120]}", case, n)
            return
        a, b = mp.mpf(float(case["alpha"])), mp.mpf(float(case["beta"]))
        m = n - 1
        lp1 = mp.mpf(float(ConstantCoalescent(T([1.0])).log_prob(h).reshape(-1)[0]))  # = -stat at theta = 1
        if impl_in_loop:
            def logdens(t):
                return mp.mpf(float(ConstantCoalescent(T([float(t)])).log_prob(h).reshape(-1)[0]))
        else:
            def logdens(t):
                return lp1 / t - m * mp.log(t)

        def f_log(v):  # log of InvGamma(theta; a, b) * ConstantCoalescent(T | theta) * dtheta/dv, theta = exp(v)
            t = mp.exp(v)
            return a * mp.log(b) - mp.loggamma(a) - (a + 1) * v - b / t + logdens(t) + v

        stat = -float(lp1)
        sh = float(a) + m
        v0 = math.log((float(b) + stat) / sh)
        want = float(log_integral(f_log, v0 - 6.0, v0 + 45.0 / sh + 4.0, piece=0.5 if impl_in_loop else 0.25))
        if not close(val, want, 1e-8 if impl_in_loop else TOL_INT, abs(want)):
            self.violation("ConstantCoalescentIntegrated:value",
                           f"ConstantCoalescentIntegrated (n={n}) = {val!r}, quadrature of InvGamma(theta)*ConstantCoalescent(T|theta) = {want!r}",
                           case, n, {"impl": val, "quadrature": want})
        if self.drv:
            al = float(case["alpha"])
            rep = self.drv.ask(f"cint F P {Hx([case['alpha'], case['beta'], math.lgamma(al), math.lgamma(al + m)])} | {Hx(samp + coal)}")
            st = self.drv.ask(f"cstat Q P | {Qx(samp + coal)}")
            if rep == "bad-op" or not close(val, h2f(rep), TOL_INT, abs(val)):
                self.ck.mismatch("ConstantCoalescentIntegrated differs from the model", {"case": enc(case), "impl": val, "model": rep})
            if st == "bad-op" or F(st) != F(stat):
                self.ck.mismatch("sum(lchoose2*durations) differs from the model (exact)", {"case": enc(case), "impl": stat, "model": st})

    # ---- sufficient statistics
    def suffstats(self, rng, kind, n, given=None, ties=False):
        import torch
        import torchtree.evolution.coalescent as C

        if given is None:
            g = G.genealogy(rng, n, q=3)
            samp, coal, _, _ = G.shuffled_blocks(rng, g["samp"], g["coal"])
            case = {"what": "suffstats", "kind": kind, "samp": samp, "coal": coal}
            if kind == "skygrid":
                gg = rng.randint(1, 8)
                if ties:
                    case["grid"], case["tie_mode"] = tie_grid(rng, samp, coal, gg)
                else:
                    case["grid"] = G.grid_for(rng, gg, max(coal), coal, samp, q=3)
                case["thetas"] = [G.pow2(rng) for _ in range(len(case["grid"]) + 1)]
                while ties and len(set(case["thetas"])) < 2:  # the side taken must be visible in the value
                    case["thetas"] = [G.pow2(rng) for _ in range(len(case["grid"]) + 1)]
            else:
                case["thetas"] = [G.pow2(rng) for _ in coal]
        else:
            case = given
        kind, samp, coal = case["kind"], case["samp"], case["coal"]
        has_ties = kind == "skygrid" and any(c in case["grid"] for c in coal)
        n = len(samp)
        if kind == "skygrid":
            dist = C.PiecewiseConstantCoalescentGrid(T(case["thetas"]), T(case["grid"]))
        else:
            dist = C.PiecewiseConstantCoalescent(T(case["thetas"]))
        cls = type(dist).__name__
        h = T(samp + coal)
        self.ck.case(key=("ss", kind, n, tuple(samp), tuple(coal), tuple(case.get("grid", [])), tuple(case["thetas"])),
                     sample={"kind": kind, "samp": [float(x) for x in samp], "coal": [float(x) for x in coal], "grid": [float(x) for x in case.get("grid", [])]} if n <= 3 else None,
                     bucket=f"suffstats/{kind}/n{'<=5' if n <= 5 else '<=12' if n <= 12 else '<=50'}" + (f"/coalescent-on-grid/{case.get('tie_mode', '')}" if has_ties else ""))
        try:
            ss, cnt = dist.sufficient_statistics(h)
            lp = float(dist.log_prob(h).reshape(-1)[0])
            ss_l, cnt_l = [float(v) for v in ss.reshape(-1).tolist()], [float(v) for v in cnt.reshape(-1).tolist()]
        except Exception as e:
            self.violation(f"{cls}.sufficient_statistics:raises", f"raises {type(e).__name__}: {str(e)[:120]}", case, n)
            return
        th = [float(t) for t in case["thetas"]]
        if len(ss_l) != len(th) or len(cnt_l) != len(th):
            self.violation(f"{cls}.sufficient_statistics:shape", f"{len(ss_l)} statistics / {len(cnt_l)} counts for {len(th)} population sizes", case, n)
            return
        # declarative: ss_g = integral over window g of C(k(t),2) dt, k(t) = #{s<t} - #{c<t}; c_g = #{coalescent times in window g}
        breaks = sorted(case["grid"]) if kind == "skygrid" else sorted(coal)[:-1]
        pts = sorted(set(list(samp) + list(coal) + list(breaks)))
        want_ss = [F(0)] * len(th)
        for a, b in zip(pts, pts[1:]):
            mid = (a + b) / 2
            k = sum(1 for x in samp if x < mid) - sum(1 for x in coal if x < mid)
            gidx = sum(1 for x in breaks if x < mid)
            if gidx < len(want_ss):
                want_ss[gidx] += F(k * (k - 1), 2) * (b - a)
        want_cnt = [0] * len(th)
        for c_ in coal:
            gi = sum(1 for x in breaks if x < c_)
            if gi < len(want_cnt):
                want_cnt[gi] += 1
        cnt_ok = [int(v) for v in cnt_l] == want_cnt
        if has_ties:
            # a coalescent time ON a grid point: either side is admissible (Props/C20_Ties.lean, C08_Ties.lean); the
            # reproduce identity below, against the SAME evaluation's log_prob, decides whether the side is consistent
            cnt_ok, sides = counts_admissible(coal, sorted(case["grid"]), [int(v) for v in cnt_l])
            for sd in sides.values():
                self.ck.bucket("suffstats/torch-tie-side/" + sd)
        if len(set(coal)) == len(coal) and ([F(v) for v in ss_l] != want_ss or not cnt_ok):
            self.violation(f"{cls}.sufficient_statistics:value",
                           f"{cls}.sufficient_statistics: statistics {ss_l} / counts {cnt_l}, but the integrals of C(k,2) over the {len(th)} windows are {[float(v) for v in want_ss]} with {want_cnt} coalescent events (n={n})",
                           case, n, {"ss": ss_l, "counts": cnt_l})
        rep_val = sum(s / t + c * math.log(t) for s, c, t in zip(ss_l, cnt_l, th))
        scale = sum(abs(s / t) + abs(c * math.log(t)) for s, c, t in zip(ss_l, cnt_l, th))
        if not close(rep_val, -lp, TOL, scale):
            self.violation(f"{cls}.sufficient_statistics:reproduce",
                           f"{cls}: sum(ss/theta + c log theta) = {rep_val!r} but -log_prob = {-lp!r} (n={n})", case, n,
                           {"ss": ss_l, "counts": cnt_l, "neg_log_prob": -lp})
        if self.drv:
            if kind == "skygrid":
                rep = self.drv.ask(f"ssgrid Q P | {Qx(samp + coal)} | {Qx(case['grid'])}")
                rr = self.drv.ask(f"repgrid F P {Hx(case['thetas'])} | {Hx(samp + coal)} | {Hx(case['grid'])}")
            else:
                rep = self.drv.ask(f"ssride Q P | {Qx(samp + coal)}")
                rr = self.drv.ask(f"repride F P {Hx(case['thetas'])} | {Hx(samp + coal)}")
            if rep == "bad-op" or rr == "bad-op":
                self.ck.mismatch("model answered bad-op", {"case": enc(case)})
                return
            w = rep.split()
            i = w.index("cnt")
            m_ss, m_cnt = [F(v) for v in w[1:i]], [int(v) for v in w[i + 1:]]
            # counts: the model (stable sort) always charges a tied coalescent to the window ENDING at the grid point;
            # torch may take either side, so under ties the counts are compared through counts_admissible above
            if m_ss != [F(v) for v in ss_l] or (not has_ties and m_cnt != [int(v) for v in cnt_l]) or \
                    (has_ties and m_cnt != want_cnt):
                self.ck.mismatch("sufficient statistics / counts differ from the model (exact)",
                                 {"case": enc(case), "impl": [ss_l, cnt_l], "model": rep})
            a, b = [h2f(v) for v in rr.split()]
            if not close(a, b, TOL, scale):
                self.ck.mismatch("model: reproduce differs from -log_prob (theorem broken?)", {"case": enc(case), "model": [a, b]})
        return case, dist

    def suffstats_batched(self, rng, kind, n, given=None, ties=False):
        """batched theta (the block-update operator indexes rows): row s must reproduce row s"""
        import torch
        import torchtree.evolution.coalescent as C

        if given is None:
            g = G.genealogy(rng, n, q=3)
            samp, coal = g["samp"], g["coal"]
            B = rng.randint(2, 3)
            case = {"what": "suffstats-batched", "kind": kind, "samp": samp, "coal": coal}
            if kind == "skygrid":
                gg = rng.randint(1, 6)
                if ties:
                    case["grid"], case["tie_mode"] = tie_grid(rng, samp, coal, gg)
                else:
                    case["grid"] = G.grid_for(rng, gg, max(coal), coal, samp, q=3)
                case["theta_rows"] = [[G.pow2(rng) for _ in range(len(case["grid"]) + 1)] for _ in range(B)]
            else:
                case["theta_rows"] = [[G.pow2(rng) for _ in coal] for _ in range(B)]
        else:
            case = given
        kind, samp, coal, rows = case["kind"], case["samp"], case["coal"], case["theta_rows"]
        n, B = len(samp), len(rows)
        if kind == "skygrid":
            dist = C.PiecewiseConstantCoalescentGrid(T2(rows), T(case["grid"]))
        else:
            dist = C.PiecewiseConstantCoalescent(T2(rows))
        cls = type(dist).__name__
        self.ck.case(key=("ss-batch", kind, n, B, tuple(samp), tuple(coal), tuple(case.get("grid", []))),
                     bucket=f"suffstats/batched/{kind}" + ("/coalescent-on-grid" if ties else ""))
        h = T(samp + coal)
        try:
            lp = [float(v) for v in dist.log_prob(h).reshape(-1).tolist()]
            ss, cnt = dist.sufficient_statistics(h)
            ok_shape = tuple(ss.shape) == (B, len(rows[0])) and tuple(cnt.shape) == (B, len(rows[0]))
        except Exception as e:
            self.violation(f"{cls}.sufficient_statistics:batched", f"batched theta: raises {type(e).__name__}: {str(e)[:120]}", case, n)
            return
        if not ok_shape:
            self.violation(f"{cls}.sufficient_statistics:batched",
                           f"{cls}.sufficient_statistics with theta of shape [{B}, {len(rows[0])}] returns statistics of shape {tuple(ss.shape)}, counts {tuple(cnt.shape)}: rows cannot be matched with the batch",
                           case, n)
            return
        for s in range(B):
            th = [float(t) for t in rows[s]]
            rv = sum(float(a) / t + float(c) * math.log(t) for a, c, t in zip(ss[s].tolist(), cnt[s].tolist(), th))
            scale = sum(abs(float(a) / t) + abs(float(c) * math.log(t)) for a, c, t in zip(ss[s].tolist(), cnt[s].tolist(), th))
            if not close(rv, -lp[s], TOL, scale):
                self.violation(f"{cls}.sufficient_statistics:batched",
                               f"{cls} batched row {s}: sum(ss/theta + c log theta) = {rv!r}, -log_prob = {-lp[s]!r}", case, n, {"row": s})

    # ---- what the block-update sampler does with them
    def sampler_gradient(self, rng, n, given=None):
        """gradient used by GMRFPiecewiseCoalescentBlockUpdatingOperator (-Q gamma - c + exp(-gamma) ss) is the
        gradient in gamma = log theta of  log GMRF(gamma) + log coalescent(exp gamma)"""
        import torch
        import torchtree.evolution.coalescent as C
        from torchtree import Parameter
        from torchtree.distributions.gmrf import GMRF
        from torchtree.inference.mcmc.gmrf_block_updating import GMRFPiecewiseCoalescentBlockUpdatingOperator as Op

        if given is None:
            g = G.genealogy(rng, n, q=3)
            samp, coal = g["samp"], g["coal"]
            gg = rng.randint(1, 6)
            grid = G.grid_for(rng, gg, max(coal), coal, samp, q=3)
            case = {"what": "sampler-gradient", "samp": samp, "coal": coal, "grid": grid,
                    "field": [G.dy(rng, -2, 2, 3) for _ in range(gg + 1)], "tau": G.pow2(rng, -2, 2)}
        else:
            case = given
        samp, coal, grid, gamma, tau = case["samp"], case["coal"], case["grid"], case["field"], case["tau"]
        n = len(samp)
        self.ck.case(key=("grad", n, tuple(samp), tuple(coal), tuple(grid), tuple(gamma)), bucket="sampler-gradient")
        try:
            h = T(samp + coal)
            gam = T(gamma).requires_grad_(True)
            gm = GMRF("g", Parameter("f", gam), Parameter("p", T([tau])))
            lp = gm() + C.PiecewiseConstantCoalescentGrid(gam.exp(), T(grid)).log_prob(h)
            (auto,) = torch.autograd.grad(lp.sum(), gam)
            ss, cnt = C.PiecewiseConstantCoalescentGrid(gam.detach().exp(), T(grid)).sufficient_statistics(h)
            Q = gm.precision_matrix().detach()
            got = Op.gradient(None, cnt.to(torch.float64), ss, gam.detach(), Q)
        except Exception as e:
            self.violation("BlockUpdating.gradient:raises", f"raises {type(e).__name__}: {str(e)[:120]}", case, n)
            return
        err = float((auto - got).abs().max())
        sc = float(auto.abs().max()) + 1.0
        if err > 1e-9 * sc:
            self.violation("BlockUpdating.gradient:value",
                           f"block-update gradient (-Q gamma - c + exp(-gamma) ss) differs from autograd of the two densities by {err!r}", case, n,
                           {"autograd": auto.tolist(), "operator": got.tolist()})


# ----------------------------------------------------------------------------- live GMRF objects
def gmrf_live(R, rng, n, variant, integrated=False):
    """precision_matrix() requested, then ONE input updated through its parameter (tree node heights with no field
    or precision reassignment, precision, field, weights), re-evaluated: the density must stay the Gaussian form of
    the matrix published NOW and agree with a freshly built object holding the same values"""
    import torch
    from torchtree import Parameter
    from torchtree.distributions.gmrf import GMRF
    from torchtree.distributions.gmrf_integrated import GMRFGammaIntegrated
    from torchtree.evolution.tree_model import TimeTreeModel

    case = make_gmrf_case(rng, n, variant)
    field = Parameter("field", T(case["field"]))
    prec = Parameter("precision", T([case["tau"]]))
    handles = {"field": field, "precision": prec}
    tree = weights = None
    if variant in ("T0", "T1"):
        taxa = {f"T{i}": float(s) for i, s in enumerate(case["samp"])}
        js = TimeTreeModel.json_factory("tree", case["newick"], [0.0] * len(case["coal"]), taxa, keep_branch_lengths=True,
                                        internal_heights_id="internal_heights")
        js["internal_heights"]["dtype"] = "torch.float64"
        dic = {}
        tree = TimeTreeModel.from_json(js, dic)
        handles["internal_heights"] = dic["internal_heights"]
    if variant == "W":
        weights = Parameter("weights", T(case["weights"]))
        handles["weights"] = weights
    shape, rate = rng.randint(1, 24) / 8, rng.randint(1, 24) / 8

    def build(field_, prec_, tree_, weights_):
        if integrated:
            return GMRFGammaIntegrated("g", field_, shape, rate, tree_, weights_, variant == "T1")
        return GMRF("g", field_, prec_, tree_, weights_, variant == "T1")

    g = build(field, prec, tree, weights)
    cls = type(g).__name__
    history = []
    ops = ["(initial)"] + [k for k in handles if not (integrated and k == "precision")] + ["cpu"]
    rng.shuffle(ops[1:]) if False else None
    for step, op in enumerate(ops):
        try:
            if op == "field":
                field.tensor = T([G.dy(rng, -4, 4, 3) for _ in range(n)])
            elif op == "precision":
                prec.tensor = T([G.pow2(rng, -3, 3)])
            elif op == "weights":
                weights.tensor = T([G.pow2(rng, -2, 2) for _ in range(n - 1)])
            elif op == "internal_heights":
                p = handles["internal_heights"]
                p.tensor = p.tensor * 2.0 + rng.randint(0, 8) / 8  # keeps parents above children and tips
            elif op == "cpu":
                g.cpu()
            history.append(op)
            val = float(g().reshape(-1)[0])
            Q = None if integrated else g.precision_matrix().tolist()
            nh = tree.node_heights.detach().clone() if tree is not None else None
            tfresh = SimpleNamespace(node_heights=nh, taxa_count=n + 1) if tree is not None else None
            wfresh = Parameter("w", weights.tensor.detach().clone()) if weights is not None else None
            gf = build(Parameter("f", field.tensor.detach().clone()), Parameter("p", prec.tensor.detach().clone()), tfresh, wfresh)
            vf = float(gf().reshape(-1)[0])
        except Exception as e:
            R.violation(f"{cls}.live:{variant}:raises", f"{cls} ({variant}) raises after update history {history}: {type(e).__name__}: {str(e)[:120]}", case, n,
                        {"history": history})
            return
        R.ck.case(key=("gmrf-live", cls, variant, n, step, tuple(history), tuple(case["field"])), bucket=f"live/{cls}/{variant}")
        R.ck.bucket(f"live-op/{op}")
        if not close(val, vf, 1e-11, abs(vf)):
            R.violation(f"{cls}.__call__:stale:{variant}",
                        f"{cls} ({variant}, length {n}) returns {val!r} after update history {history}; a freshly built object with the same values gives {vf!r}",
                        case, n, {"history": history, "live": val, "fresh": vf})
            continue
        if integrated:
            continue
        x = [float(v) for v in field.tensor.tolist()]
        tau = float(prec.tensor.reshape(-1)[0])
        quad = exact_quad(Q, x)
        dim = n - 1
        want = dim / 2 * math.log(tau) - 0.5 * float(quad) - dim / 2 * math.log(2 * math.pi)
        scale = abs(dim / 2 * math.log(tau)) + abs(0.5 * float(quad)) + dim
        if not close(val, want, TOL_INT, scale):
            R.violation(f"GMRF.precision_matrix:stale:{variant}",
                        f"GMRF ({variant}, length {n}) after update history {history}: log density {val!r} but the Gaussian form of the matrix published now gives {want!r}",
                        case, n, {"history": history, "impl": val, "from_published_matrix": want})


# ----------------------------------------------------------------------------- run
def run(ck: Check):
    use_repo()
    import torch

    torch.set_num_threads(2)
    ck.rule = (
        "one case = one (prior, field or genealogy with dyadic entries, variant plain/weighted/time-aware, parameters); "
        "evaluated by the real torchtree object, the Lean model (drv_c20) and the identity the property states; "
        "distinct = distinct inputs; non-trivial = field length >= 2 / genealogy with >= 2 taxa"
    )
    ck.assumptions += [
        "theorems over commutative rings / the reals; float64 tied by the correspondence (exact on dyadic inputs; 1e-12 / 1e-10 through log, division by non-dyadic weights, lgamma)",
        "math.lgamma values are inputs of the integrated models (gamma_integrated assumes they are log Gamma)",
        "the literal 1.8378770664093453 in GMRF._call is taken to be log(2 pi)",
    ]
    ck.trusted += ["math.lgamma", "mpmath.quad (tanh-sinh) for the numerical integration oracle", "torch.tensor_split / torch.where semantics (modelled as splitAtMarks)"]
    ok, broken = ck.lean_side({}, ["TTProofs.Props.C20", "drv_c20"], "TTProofs/Props/C20.lean")
    drv = None
    try:
        drv = ck.driver("drv_c20")
    except Exception as e:
        ck.notes.append(f"driver unavailable: {e}")
    R = Runner(ck, drv)
    rng = ck.rng
    thorough = ck.thorough()
    try:
        for f in sorted((VERIF / "corpus" / "C20").glob("*.json")):
            case = dec(json.loads(f.read_text())["case"])
            ck.case(key=("corpus", f.name), bucket="corpus")
            if case.get("what") == "gmrf":
                R.guard('gmrf', R.gmrf, case)
            elif case.get("what") == "suffstats-batched":
                R.guard('suffstats_batched', R.suffstats_batched, rng, None, 0, given=case)
        sizes = (list(range(2, 13)) + [20, 35, 50]) if not thorough else list(range(2, 51))
        reps = 2 if not thorough else 8
        for _ in range(reps):
            for n in sizes:
                for mode in ("P", "W", "T0", "T1"):
                    if mode in ("T0", "T1") and n < 2:
                        continue
                    case = make_gmrf_case(rng, n, mode)
                    ck.case(key=("gmrf", mode, tuple(case["field"]), case["tau"], tuple(case.get("weights", [])), tuple(case.get("coal", []))),
                            sample={"variant": mode, "field": [float(x) for x in case["field"]], "tau": float(case["tau"]),
                                    "weights": [float(x) for x in case.get("weights", [])]} if n <= 3 else None,
                            bucket=f"gmrf/{mode}/len{'<=5' if n <= 5 else '<=12' if n <= 12 else '<=50'}")
                    R.guard('gmrf', R.gmrf, case, real_tree=(mode in ("T0", "T1") and n <= 12))
                    if n <= 12 or rng.random() < 0.3:
                        R.guard('gamma_integrated', R.gamma_integrated, rng, case, impl_in_loop=(n <= 4 and mode in ("P", "T1")))
        # scale regimes: tiny weights, short / nearly tied intervals, extreme fields and precisions
        for rep in range(2 if not thorough else 6):
            for n in ([2, 3, 4, 6, 10, 20] if not thorough else [2, 3, 4, 5, 6, 8, 10, 14, 20, 35, 50]):
                for regime in SCALE_REGIMES:
                    case = make_scale_case(rng, n, regime)
                    ck.case(key=("gmrf-scale", regime, tuple(case["field"]), case["tau"], tuple(case.get("weights", [])), tuple(case.get("coal", []))),
                            bucket=f"gmrf-scale/{regime}/{case['mode']}")
                    R.guard('gmrf', R.gmrf, case)
                    R.guard('scale_exact', R.scale_exact, case)
                    if thorough or (rep == 0 and n <= 6):  # the quadrature is the expensive reference; scale_exact has the closed form
                        R.guard('gamma_integrated', R.gamma_integrated, rng, case, impl_in_loop=False)
        for n in ([2, 3, 6, 20] if not thorough else [2, 3, 4, 6, 10, 20, 50]):
            for mode in ("P", "W", "T0", "T1"):
                R.guard('gmrf_batched', R.gmrf_batched, rng, n, mode)
        for n in (list(range(2, 10)) + [20, 50] if not thorough else list(range(2, 51))):
            R.guard('constant_integrated', R.constant_integrated, rng, n, impl_in_loop=(n <= 3))
        ss_sizes = (list(range(2, 13)) + [20, 35, 50]) if not thorough else list(range(2, 51))
        for _ in range(3 if not thorough else 10):
            for n in ss_sizes:
                R.guard('suffstats', R.suffstats, rng, "skygrid", n)
                R.guard('suffstats', R.suffstats, rng, "skyride", n)
        for n in ([2, 3, 5, 9] if not thorough else [2, 3, 4, 5, 9, 17, 33]):
            R.guard('suffstats_batched', R.suffstats_batched, rng, "skyride", n)
            R.guard('suffstats_batched', R.suffstats_batched, rng, "skygrid", n)
        # coalescent times exactly ON grid points (root = cutoff, interior, several), single and batched
        for _ in range(3 if not thorough else 10):
            for n in ((list(range(2, 11)) + [20, 50]) if not thorough else list(range(2, 40))):
                R.guard('suffstats', R.suffstats, rng, "skygrid", n, ties=True)
        for n in ([2, 3, 4, 5, 7, 9] if not thorough else list(range(2, 20))):
            for _ in range(2):
                R.guard('suffstats_batched', R.suffstats_batched, rng, "skygrid", n, ties=True)
        for n in ([2, 3, 5, 8, 13] if not thorough else list(range(2, 30))):
            R.guard('sampler_gradient', R.sampler_gradient, rng, n)
        for n in ([2, 3, 5, 9] if not thorough else [2, 3, 4, 5, 7, 9, 14, 25]):
            for variant in ("P", "W", "T0", "T1"):
                for integrated in (False, True):
                    R.guard('gmrf_live', gmrf_live, R, rng, n, variant, integrated)
        # how the objects under test are reached: construction routes, dtype regimes, grad modes, immutability, second
        # instance / deepcopy, batches (B = a dimension, one special row), special values, failure paths
        import c20_routes

        c20_routes.run(R, rng, ck)
    finally:
        if drv:
            drv.close()
    for sig, (size, what, rep) in sorted(R.fail.items()):
        ck.violation(sig, what, rep)
    if (not ok or ck.mismatches) and not ck.violations:
        ck.violation("C20:unproved", "C20 theorems or the model/implementation correspondence no longer check; the identities hold on every searched input",
                     {"broken_obligations": broken, "mismatches": ck.mismatches[:5]}, found_input=False)
    elif not ok or ck.mismatches:
        ck.notes.append("Lean side or correspondence broken as well: " + "; ".join(broken[:3] + [m["what"] for m in ck.mismatches[:3]]))


def replay(path: str) -> int:
    use_repo()
    import torch

    torch.set_num_threads(2)
    obj = json.loads(Path(path).read_text())
    if "case" not in obj:
        print("replay names broken obligations only:", obj.get("broken_obligations"))
        return 1
    case = dec(obj["case"])
    print("case:", json.dumps(obj["case"]))
    what = case.get("what")
    ck = SimpleNamespace(case=lambda *a, **k: None, bucket=lambda *a, **k: None, mismatch=lambda *a, **k: None, notes=[])
    R = Runner(ck, None)
    import random

    rng = random.Random(0)
    if what == "gmrf":
        R.guard('gmrf', R.gmrf, case)
        if "regime" in case:
            R.guard('scale_exact', R.scale_exact, case)
    elif what == "smooth-field":
        import c20_routes

        R.guard('smooth_fields', c20_routes.smooth_fields, R, rng, len(case["field_values"]), case["mode"], given=case)
    elif what == "gmrf-covariate":
        import c20_routes

        R.guard('covariate_routes', c20_routes.covariate_routes, R, rng, len(case["Z"]), len(case["Z"][0]), given=case)
    elif what == "real-tree":
        import c20_routes

        R.guard('real_trees', c20_routes.real_trees, R, rng, len(case["field"]), case["tree"], given=case)
    elif what == "gint":
        R.guard('gamma_integrated', R.gamma_integrated, rng, case, impl_in_loop=False)
    elif what == "cint":
        R.guard('constant_integrated', R.constant_integrated, rng, 0, False, given=case)
    elif what == "suffstats":
        R.guard('suffstats', R.suffstats, rng, None, 0, given=case)
    elif what == "suffstats-batched":
        R.guard('suffstats_batched', R.suffstats_batched, rng, None, 0, given=case)
    elif what == "sampler-gradient":
        R.guard('sampler_gradient', R.sampler_gradient, rng, 0, given=case)
    else:
        print("signature:", obj.get("signature"), "-", obj.get("what"))
        print("(re-run ./check C20 to re-search this class of input)")
        return 1
    for sig, (_s, w, _r) in R.fail.items():
        print("VIOLATES", sig, "-", w)
    if not R.fail:
        print("ok")
    return 1 if R.fail else 0
