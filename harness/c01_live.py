"""LIVE-object histories for C01: a TreeLikelihoodModel built ONCE from JSON is evaluated, then its parameters are
updated one at a time through the public parameter interface (`parameter.tensor = …`), other observables may be read
in between (node heights, branch lengths, a coalescent prior on the same tree — as a joint model would), and it is
re-evaluated.  After every evaluation the value must equal

  * the brute-force marginal over all labelings at the CURRENT parameter values (independent oracle, 1e-9), and
  * the value of a model freshly built from JSON at the current values (1e-11);

the fresh model additionally goes through C01's Lean correspondence.
"""
from __future__ import annotations

import copy
import json
import math

import c01_gen as G

TOL_ORACLE = 1e-9
TOL_FRESH = 1e-11


def close(a, b, tol):
    if a is None or b is None:
        return False
    if math.isinf(a) or math.isinf(b) or math.isnan(a) or math.isnan(b):
        return a == b
    return abs(a - b) <= tol * max(1.0, abs(a), abs(b))


# ------------------------------------------------------------------------------------------ generation
def gen_live(rng, n, kind=None, aa=False, subst=None, general=False):
    """(initial case, use_prior, ops).  ops: {"op":"set","param":id,"value":[…]} | {"op":"read","what":…} | {"op":"eval"}"""
    kind = kind or rng.choice(["time", "time", "reparam", "unrooted"])
    if subst is None:
        subst = rng.choice(["LG", "WAG"]) if aa else rng.choice(["JC69", "HKY", "GTR", "GeneralSymmetric", "GeneralNonSymmetric"])
    site = rng.choice(["constant", "invariant", "weibull", "weibull+inv"])
    case = G.gen_case(rng, n, subst=subst, site=site, rooting="unrooted" if kind == "unrooted" else "time",
                      explicit_heights=True, nsites=rng.randint(2, 3) if subst == "MG94" else rng.randint(3, 6), general=general)
    tree = G.parse_newick(case["newick"])
    G.set_indices(tree, case["taxa"])
    names = [x.name for x in tree.leaves()]
    if kind == "unrooted":
        a, b = tree.kids
        bl = [None] * (2 * n - 2)
        for x in tree.postorder():
            if x is not tree:
                bl[x.index] = x.length
        other = b if a.index == 2 * n - 3 else a
        bl[other.index] = a.length + b.length
        case["branch_lengths"] = bl[: 2 * n - 3]
    lh = G.leaf_heights_of(case) if kind != "unrooted" else None
    if kind == "reparam":
        case["internal_heights"] = None
        case["ratios"] = [rng.uniform(0.1, 0.9) for _ in range(n - 2)]
        case["root_height"] = max(lh.values()) + rng.uniform(0.5, 3.0)

    def new_value(param):
        if param == "heights":
            G.assign_heights(rng, tree, lh)
            return [x.height for x in tree.postorder() if not x.is_leaf()]
        if param == "ratios":
            return [rng.uniform(0.05, 0.95) for _ in range(n - 2)]
        if param == "root_height":
            return [max(lh.values()) + rng.uniform(0.3, 4.0)]
        if param == "rate":
            ck = case["clock"]
            return [rng.uniform(0.02, 0.4)] if ck["kind"] == "strict" else [rng.uniform(0.02, 0.4) for _ in range(2 * n - 2)]
        if param == "bl":
            return [rng.uniform(0.01, 0.7) for _ in range(2 * n - 3)]
        if param == "kappa":
            return [rng.uniform(0.5, 6.0)]
        if param == "freqs":
            return G.rand_freqs(rng, len(case["subst"]["freqs"]))
        if param in ("alpha", "beta"):
            return [rng.uniform(0.2, 2.5)]
        if param == "rates":
            return [rng.uniform(0.3, 3.0) for _ in range(len(case["subst"]["rates"]))]
        if param == "shape":
            return [rng.uniform(0.3, 2.5)]
        if param == "pinv":
            return [rng.uniform(0.05, 0.6)]
        raise ValueError(param)

    params = []
    if kind == "time":
        params += ["heights", "heights", "rate"]
    elif kind == "reparam":
        params += ["ratios", "root_height", "ratios", "rate"] if n > 2 else ["root_height", "rate"]
    else:
        params += ["bl", "bl"]
    sk = case["subst"]["kind"]
    if sk == "HKY":
        params += ["kappa", "freqs"]
    elif sk in ("GTR", "GeneralSymmetric", "GeneralNonSymmetric"):
        params += ["rates", "freqs"]
    elif sk == "MG94":
        params += ["kappa", "alpha", "beta", "freqs", "alpha", "beta"]
    if case["site"]["kind"] == "weibull":
        params.append("shape")
    if case["site"].get("pinv") is not None:
        params.append("pinv")
    reads = ["branch_lengths", "like"] + (["node_heights", "prior"] if kind != "unrooted" else [])
    use_prior = kind != "unrooted" and rng.random() < 0.6
    ops = []
    if use_prior and rng.random() < 0.7:
        ops.append({"op": "read", "what": "prior"})
    ops.append({"op": "eval"})
    for _ in range(rng.randint(2, 5)):
        for _k in range(rng.choice([1, 1, 1, 2])):  # usually one update, sometimes two in a row
            p = rng.choice(params)
            ops.append({"op": "set", "param": p, "value": new_value(p)})
            for _r in range(rng.choice([0, 0, 1, 2])):
                w = rng.choice(reads)
                if w != "prior" or use_prior:
                    ops.append({"op": "read", "what": w})
        ops.append({"op": "eval"})
    return case, use_prior, ops


def apply_to_case(cur, param, value):
    if param == "heights":
        cur["internal_heights"] = list(value)
    elif param == "ratios":
        cur["ratios"] = list(value)
    elif param == "root_height":
        cur["root_height"] = value[0]
    elif param == "rate":
        if cur["clock"]["kind"] == "strict":
            cur["clock"]["rate"] = value[0]
        else:
            cur["clock"]["rates"] = list(value)
    elif param == "bl":
        cur["branch_lengths"] = list(value)
    elif param == "kappa":
        cur["subst"]["kappa"] = value[0]
    elif param in ("alpha", "beta"):
        cur["subst"][param] = value[0]
    elif param == "freqs":
        cur["subst"]["freqs"] = list(value)
    elif param == "rates":
        cur["subst"]["rates"] = list(value)
    elif param == "shape":
        cur["site"]["shape"] = value[0]
    elif param == "pinv":
        cur["site"]["pinv"] = value[0]
    else:
        raise ValueError(param)


# ------------------------------------------------------------------------------------------ execution
class LiveRun:
    """one live TreeLikelihoodModel (+ optional coalescent prior on its tree) executing a history one operation at a time"""

    def __init__(self, case, use_prior, requires_grad=False):
        import torch
        from torchtree.evolution.tree_likelihood import TreeLikelihoodModel

        torch.set_default_dtype(torch.float64)
        self.case, self.cur, self.dic, self.prior = case, copy.deepcopy(case), {}, None
        self.requires_grad = requires_grad
        self.model = TreeLikelihoodModel.from_json(G.build_spec(case), self.dic)
        if requires_grad:
            for p in self.dic.values():
                self._grad(p)
        if use_prior:
            from torchtree.evolution.coalescent import ConstantCoalescentModel

            self.prior = ConstantCoalescentModel.from_json(
                {"id": "coalescent", "type": "ConstantCoalescentModel", "theta": G.P("theta", [3.0]), "tree_model": "tree"}, self.dic)

    @staticmethod
    def _grad(p):
        import torch

        if hasattr(p, "tensor") and hasattr(p, "requires_grad") and torch.is_tensor(getattr(p, "tensor", None)) and p.tensor.is_floating_point():
            try:
                p.requires_grad = True
            except Exception:  # noqa: BLE001
                pass

    def step(self, step, op, on_fresh=None):
        """execute one operation; an `eval` returns a record, anything else None (or a failing record if it raised)"""
        import torch

        model, cur, err = self.model, self.cur, None
        try:
            if op["op"] == "set":
                self.dic[op["param"]].tensor = torch.tensor(op["value"], dtype=torch.float64)
                if self.requires_grad:
                    self._grad(self.dic[op["param"]])
                apply_to_case(cur, op["param"], op["value"])
                return None
            if op["op"] == "read":
                w = op["what"]
                if w == "node_heights":
                    model.tree_model.node_heights
                elif w == "branch_lengths":
                    model.tree_model.branch_lengths()
                elif w == "prior" and self.prior is not None:
                    self.prior()
                elif w == "like":
                    model()
                return None
            if op["op"] == "touch":  # re-assign an equal tensor: forces a recomputation through the public interface
                for p in self.dic.values():
                    if hasattr(p, "tensor") and torch.is_tensor(getattr(p, "tensor", None)) and p.tensor.is_floating_point():
                        p.tensor = p.tensor.clone()
                        break
                return None
            impl = float(model().detach().reshape(-1)[0])
        except Exception as e:  # noqa: BLE001
            impl, err = None, repr(e)[:300]
            if op["op"] != "eval":
                return {"step": step, "impl": None, "oracle": None, "fresh": None, "case": copy.deepcopy(cur), "error": err, "fatal": True}
        snap = copy.deepcopy(cur)
        try:
            fresh_model = G.build_model(snap)
            fresh = float(fresh_model().reshape(-1)[0])
            want, _ = G.oracle_loglik(snap, fresh_model)
        except Exception as e:  # noqa: BLE001
            fresh, want = None, None
            err = (err or "") + " fresh/oracle: " + repr(e)[:200]
        rec = {"step": step, "impl": impl, "oracle": want, "fresh": fresh, "case": snap}
        if err:
            rec["error"] = err
        if on_fresh is not None:
            on_fresh(snap)
        return rec


def run_live(case, use_prior, ops, on_fresh=None, requires_grad=False):
    """execute a history on the REAL objects. Returns a list of records, one per `eval`:
    {"step", "impl", "oracle", "fresh", "case"}; an exception of the implementation gives impl=None."""
    try:
        lr = LiveRun(case, use_prior, requires_grad)
    except Exception as e:  # noqa: BLE001
        return [{"step": -1, "impl": None, "oracle": None, "fresh": None, "case": case, "error": repr(e)[:300]}]
    out = []
    for step, op in enumerate(ops):
        rec = lr.step(step, op, on_fresh)
        if rec is not None:
            out.append(rec)
            if rec.get("fatal"):
                return out
    return out


def gen_interleaved(rng, k=None):
    """SEVERAL LIVE INSTANCES: k differently configured histories (different taxa counts, topologies, rootings, data types,
    substitution / site / clock models) and ONE schedule interleaving their operations. All models are built before the first
    operation runs; every `eval` is followed, for the other instances, by a `touch` so that they recompute too."""
    k = k or rng.choice([2, 2, 3])
    hs = []
    sizes = rng.sample([3, 4, 5], k)
    for i in range(k):
        aa = i == 1 and rng.random() < 0.5
        case, use_prior, ops = gen_live(rng, min(sizes[i], 4) if aa else sizes[i], aa=aa)
        hs.append({"case": case, "use_prior": use_prior, "ops": ops})
    # schedule: (instance, op index) round-robin with random run lengths
    ptr = [0] * k
    sched = []
    while any(ptr[i] < len(hs[i]["ops"]) for i in range(k)):
        i = rng.choice([j for j in range(k) if ptr[j] < len(hs[j]["ops"])])
        for _ in range(rng.choice([1, 1, 2, 3])):
            if ptr[i] < len(hs[i]["ops"]):
                sched.append([i, ptr[i]])
                ptr[i] += 1
    return {"histories": hs, "schedule": sched}


def run_interleaved(plan):
    """-> list of records (with "instance"); every instance is built BEFORE any operation runs"""
    runs, out = [], []
    for i, h in enumerate(plan["histories"]):
        try:
            runs.append(LiveRun(h["case"], h["use_prior"]))
        except Exception as e:  # noqa: BLE001
            return [{"instance": i, "step": -1, "impl": None, "oracle": None, "fresh": None, "case": h["case"], "error": repr(e)[:300]}]
    dead = set()
    for i, j in plan["schedule"]:
        if i in dead:
            continue
        op = plan["histories"][i]["ops"][j]
        rec = runs[i].step(j, op)
        if rec is not None:
            rec["instance"] = i
            out.append(rec)
            if rec.get("fatal"):
                dead.add(i)
        if op["op"] == "eval":
            # another live instance must still give ITS value when it recomputes now
            others = [o for o in range(len(runs)) if o != i and o not in dead]
            for o in others[(j % max(1, len(others))):][:1]:
                if True:
                    runs[o].step(-1, {"op": "touch"})
                    rec2 = runs[o].step(-2, {"op": "eval"})
                    rec2["instance"] = o
                    rec2["after_eval_of"] = i
                    out.append(rec2)
    return out


def failing(rec):
    if rec["impl"] is None:
        return True
    if rec["oracle"] is not None and not close(rec["impl"], rec["oracle"], TOL_ORACLE):
        return True
    if rec["fresh"] is not None and not close(rec["impl"], rec["fresh"], TOL_FRESH):
        return True
    return False


def shrink(case, use_prior, ops, deadline=None, requires_grad=False):
    """drop operations while the history still fails (reads first, then sets)"""
    def fails(o, pr):
        return any(failing(r) for r in run_live(case, pr, o, requires_grad=requires_grad))

    import time

    changed = True
    while changed:
        changed = False
        for i in range(len(ops) - 1, -1, -1):
            if deadline is not None and time.time() > deadline:  # bounded work after a finding
                return use_prior, ops
            if ops[i]["op"] == "eval" and i == len(ops) - 1:
                continue
            cand = ops[:i] + ops[i + 1:]
            if cand and cand[-1]["op"] == "eval" and fails(cand, use_prior):
                ops, changed = cand, True
    if use_prior and not any(o["op"] == "read" and o["what"] == "prior" for o in ops) and fails(ops, False):
        use_prior = False
    return use_prior, ops


# ------------------------------------------------------------------------------------------------------------------
# SHARED SUB-OBJECTS: several live likelihoods that refer to ONE Taxa / Alignment / SitePattern / substitution / site model
def gen_shared(rng, k=None):
    """one data set and 2-3 consumers: each its own tree over the same taxa (another topology), its own options (tip states vs
    partials, ambiguities, use_postorder_indices) — every sub-object but the tree is shared by reference"""
    k = k or rng.choice([2, 2, 3])
    n = rng.choice([3, 4, 5])
    base = G.gen_case(rng, n, subst=rng.choice(["JC69", "HKY", "GTR", "LG"]), site=rng.choice(["constant", "invariant", "weibull"]),
                      rooting="unrooted", special=rng.random() < 0.5, nsites=rng.randint(3, 5))
    names = list(base["seqs"].keys())
    consumers = []
    for j in range(k):
        topo = G.shuffle_children(rng, G.random_topology(rng, list(names)))
        G.assign_lengths(rng, topo)
        c = dict(base)
        c["newick"] = G.newick(topo)
        c["use_tip_states"] = rng.choice([True, False, None])
        c["use_ambiguities"] = rng.choice([True, False, None])
        leaves = [x.name for x in topo.leaves()]
        po = rng.random() < 0.6 and base["taxa"] != leaves
        c["tree_options"] = {"use_postorder_indices": True} if po else None
        consumers.append(c)
    # make sure at least one consumer renumbers its leaves when the taxa order allows it
    if not any(c["tree_options"] for c in consumers):
        for c in consumers:
            if [x.name for x in G.parse_newick(c["newick"]).leaves()] != base["taxa"]:
                c["tree_options"] = {"use_postorder_indices": True}
                break
    update = None
    if base["subst"]["kind"] == "HKY":
        update = {"param": "kappa", "value": [rng.uniform(0.5, 6.0)]}
    elif base["subst"]["kind"] == "GTR":
        update = {"param": "rates", "value": [rng.uniform(0.3, 3.0) for _ in range(6)]}
    elif base["site"]["kind"] in ("invariant",):
        update = {"param": "pinv", "value": [rng.uniform(0.05, 0.6)]}
    return {"consumers": consumers, "via": rng.choice(["json-references", "python-objects"]), "order": rng.sample(range(k), k), "update": update}


def run_shared(plan):
    """build the shared sub-objects once, every consumer on top of them, evaluate interleaved; -> records"""
    import torch
    from torchtree.core.utils import process_object, process_objects
    from torchtree.evolution.tree_likelihood import TreeLikelihoodModel

    torch.set_default_dtype(torch.float64)
    cons = plan["consumers"]
    specs = [G.build_spec(c) for c in cons]
    out = []
    # oracles first (their throw-away models must not sit between construction and evaluation of the live ones only)
    wants = []
    for c in cons:
        m = G.build_model(c)
        wants.append(G.oracle_loglik(c, m)[0])
    dic = {}
    s0 = specs[0]
    taxa_def = s0["tree_model"]["taxa"]
    aln_def = dict(s0["site_pattern"]["alignment"], taxa="taxa")
    sp_def = dict(s0["site_pattern"], alignment="aln")
    shared = [taxa_def, aln_def, sp_def, s0["substitution_model"], s0["site_model"]]
    likes = []
    try:
        if plan["via"] == "json-references":
            objs = list(shared)
            for j, sj in enumerate(specs):
                t = copy.deepcopy(sj["tree_model"])
                t["id"], t["taxa"] = f"tree{j}", "taxa"
                t["branch_lengths"]["id"] = f"bl{j}"
                like = {"id": f"like{j}", "type": "TreeLikelihoodModel", "tree_model": f"tree{j}", "site_model": "sm",
                        "substitution_model": "m", "site_pattern": "sp"}
                for key in ("use_ambiguities", "use_tip_states"):
                    if key in sj:
                        like[key] = sj[key]
                objs += [t, like]
            built = process_objects(copy.deepcopy(objs), dic)
            likes = [dic[f"like{j}"] for j in range(len(cons))]
        else:
            for d in shared:
                process_object(copy.deepcopy(d), dic)
            for j, sj in enumerate(specs):
                t = copy.deepcopy(sj["tree_model"])
                t["id"], t["taxa"] = f"tree{j}", "taxa"
                t["branch_lengths"]["id"] = f"bl{j}"
                tm = process_object(t, dic)
                likes.append(TreeLikelihoodModel(f"like{j}", dic["sp"], tm, dic["m"], dic["sm"], None,
                                                 sj.get("use_ambiguities", False), sj.get("use_tip_states", False)))
    except Exception as e:  # noqa: BLE001
        return [{"instance": -1, "impl": None, "oracle": None, "error": "construction raised " + repr(e)[:300]}]
    # what the shared SitePattern hands out must not have been altered by its consumers
    sp = dic["sp"]
    n = len(cons[0]["taxa"])
    try:
        part, w = sp.compute_tips_partials(False)
        st, _w = sp.compute_tips_states()
        ref = G.build_model(dict(cons[0], use_tip_states=False, use_ambiguities=False, tree_options=None))
        ok_hand = len(part) == n and len(st) == n and all(torch.equal(part[i], ref.partials[i]) for i in range(n))
    except Exception as e:  # noqa: BLE001
        ok_hand = False
    out.append({"instance": -1, "kind": "shared-sitepattern-output-intact", "impl": 0.0 if ok_hand else None, "oracle": 0.0, "fresh": None})

    def ev(j, label):
        try:
            v = float(likes[j]().detach().reshape(-1)[0])
            err = None
        except Exception as e:  # noqa: BLE001
            v, err = None, repr(e)[:200]
        r = {"instance": j, "kind": label, "impl": v, "oracle": wants[j], "fresh": None}
        if err:
            r["error"] = err
        out.append(r)
    for j in plan["order"]:
        ev(j, "first")
    up = plan.get("update")
    if up is not None:
        dic[up["param"]].tensor = torch.tensor(up["value"], dtype=torch.float64)   # a SHARED parameter: every consumer must follow
        for j, c in enumerate(cons):
            cur = copy.deepcopy(c)
            apply_to_case(cur, up["param"], up["value"])
            m = G.build_model(cur)
            wants[j] = G.oracle_loglik(cur, m)[0]
        for j in reversed(plan["order"]):
            ev(j, "after-shared-update")
    return out
