"""C12 correspondence through drv_c12: the model's value and forward-mode tangent (Dual Float) against the
implementation's value and autograd gradient ON THE SAME INPUTS (value rel 1e-10, tangent rel 1e-7).

Two model routes are compared with the implementation wherever both exist:
  *_def   the other properties' polymorphic definitions (C08 coalescents, C05 Weibull, C06 ratio transform,
          C04 JC69) run unchanged at Dual Float — sort / fold / index conventions included;
  *_expr  the C12 expression builders the `hasDerivAt_*` theorems are stated about.
"""
from __future__ import annotations

from common import f2h, h2f

VAL_REL, TAN_REL = 1e-10, 1e-7


def _close(a, b, rel, floor):
    return abs(a - b) <= rel * max(abs(a), abs(b)) + floor


def _ask(drv, line):
    rep = drv.ask(line)
    if rep == "bad-op":
        return None
    return [h2f(w) for w in rep.split()]


def _hx(vals):
    return " ".join(f2h(v) for v in vals)


def _cmp(ck, what, key, impl_v, impl_g, mod_v, mod_g, detail):
    """compare value and gradient lists; record a mismatch on disagreement"""
    ok = True
    if not _close(impl_v, mod_v, VAL_REL, 1e-12):
        ok = False
    bad_idx = None
    if len(impl_g) != len(mod_g):
        ok = False
    else:
        for i, (a, b) in enumerate(zip(impl_g, mod_g)):
            if a is None:
                continue
            if not _close(a, b, TAN_REL, 1e-10):
                ok = False
                bad_idx = i
                break
    ck.case(key=key, bucket="driver/" + what,
            sample={"model": what, "impl_value": impl_v, "model_value": mod_v, "impl_grad": impl_g[:4],
                    "model_tangent": mod_g[:4]})
    if not ok:
        d = dict(detail)
        d.update({"impl_value": impl_v, "model_value": mod_v, "impl_grad": impl_g, "model_tangent": mod_g,
                  "first_bad_coordinate": bad_idx})
        ck.mismatch(f"{what}: model value/tangent differs from implementation value/autograd", d)
    return ok


# ----------------------------------------------------------------------------- coalescents
def _coal(ck, drv, rng, kind, treekind):
    import torch

    import c12
    import c12_scen

    skind = {"const": "constant", "skyride": "skyride", "skygrid": "skygrid"}[kind]
    spec = c12_scen.gen_coal(rng, skind, treekind, False)
    scen = c12_scen.scenario(spec)
    try:
        v, g, b = c12.eval_grad(scen, scen.x)
    except Exception as e:
        ck.notes.append(f"driver corr {spec['name']}: implementation raised {type(e).__name__}")
        return
    gap = c12.min_gap(b)
    if gap is not None and gap < 1e-6:
        return
    n = spec["tree"]["n"]
    if treekind == "fake":
        nh = list(scen.x["nh"])
        gh = g["nh"]
    else:
        nh = [float(d) for d in spec["tree"]["dates"]] + list(scen.x["heights"])
        gh = [None] * n + (g["heights"] or [0.0] * (n - 1))
    gh = [None] * n + [x if x is not None else 0.0 for x in (gh or [0.0] * (2 * n - 1))[n:]]
    theta = list(scen.x["theta"])
    gth = g["theta"] or [0.0] * len(theta)
    grid = list(spec.get("grid", []))
    rep = _ask(drv, f"coal_def {kind} | {_hx(theta)} | {_hx(nh)} | {_hx(grid)}")
    if rep is None:
        ck.mismatch("coal_def: driver refused the input", {"spec": spec})
        return
    _cmp(ck, f"coal_def/{kind}/{treekind}", ("coal_def", kind, treekind, tuple(nh), tuple(theta)),
         v, gth + gh, rep[0], rep[1:], {"spec": spec})
    # builder route: the harness sorts (stable), the builder gets the sorted structure
    ev = [(t, 1 if i < n else -1, i) for i, t in enumerate(nh)] + [(t, 0, None) for t in grid]
    order = sorted(range(len(ev)), key=lambda k: ev[k][0])
    ts = [ev[k][0] for k in order]
    marks = [ev[k][1] for k in order]
    rep = _ask(drv, f"coal_expr {kind} {n - 1} | {_hx(theta)} | {_hx(ts)} | {' '.join(str(m) for m in marks)}")
    if rep is None:
        ck.mismatch("coal_expr: driver refused the input", {"spec": spec})
        return
    gs = []
    for k in order:
        i = ev[k][2]
        gs.append(None if i is None or i < n else gh[i])
    _cmp(ck, f"coal_expr/{kind}/{treekind}", ("coal_expr", kind, treekind, tuple(nh), tuple(theta)),
         v, gth + gs, rep[0], rep[1:], {"spec": spec})


# ----------------------------------------------------------------------------- GMRF
def _gmrf(ck, drv, rng, variant):
    import c12
    import c12_scen

    spec = c12_scen.gen_gmrf(rng, variant, False)
    scen = c12_scen.scenario(spec)
    v, g, _b = c12.eval_grad(scen, scen.x)
    x, tau = scen.x["field"], scen.x["precision"][0]
    w = spec.get("weights", [])
    c = 1.8378770664093453
    rep = _ask(drv, f"gmrf | {_hx(x)} | {_hx([tau, c])} | {_hx(w)}")
    if rep is None:
        ck.mismatch("gmrf: driver refused the input", {"spec": spec})
        return
    _cmp(ck, f"gmrf/{variant}", ("gmrf", tuple(x), tau, tuple(w)), v, (g["field"] or []) + (g["precision"] or []),
         rep[0], rep[1:], {"spec": spec})


# ----------------------------------------------------------------------------- Weibull site rates
def _weibull(ck, drv, rng, inv, mu):
    import torch
    from torchtree.core.utils import process_object

    import c12_scen

    c12_scen._imports()
    K = rng.choice([2, 3, 4, 6])
    shape = c12_scen.rpos(rng, 0.3, 2.5)
    pinv = [rng.uniform(0.1, 0.6)] if inv else []
    muv = [c12_scen.rpos(rng, 0.5, 2.0)] if mu else []
    dic = {}
    js = {"id": "site", "type": "WeibullSiteModel", "categories": K, "shape": c12_scen.P("shape", [shape], True)}
    if inv:
        js["invariant"] = c12_scen.P("pinv", pinv, True)
    if mu:
        js["mu"] = c12_scen.P("mu", muv, True)
    sm = process_object(js, dic)
    rates = sm.rates()
    names = ["shape"] + (["pinv"] if inv else []) + (["mu"] if mu else [])
    n = rates.shape[-1]
    vals = [float(r) for r in rates.detach()]
    tang = []
    for nm in names:
        for r in range(n):
            if not rates[r].requires_grad:
                tang.append(0.0)
                continue
            (gr,) = torch.autograd.grad(rates[r], dic[nm].tensor, retain_graph=True, allow_unused=True)
            tang.append(0.0 if gr is None else float(gr.reshape(-1)[0]))
    for op in ("weibull", "weibull_def"):
        rep = _ask(drv, f"{op} {K} | {_hx([shape])} | {_hx(pinv)} | {_hx(muv)}")
        if rep is None:
            ck.mismatch(f"{op}: driver refused the input", {"K": K, "shape": shape, "pinv": pinv, "mu": muv})
            continue
        ok = len(rep) == n * (1 + len(names))
        if ok:
            ok = all(_close(a, b, VAL_REL, 1e-12) for a, b in zip(vals, rep[:n])) and all(
                _close(a, b, TAN_REL, 1e-10) for a, b in zip(tang, rep[n:]))
        ck.case(key=(op, K, shape, tuple(pinv), tuple(muv)), bucket="driver/" + op,
                sample={"model": op, "K": K, "shape": shape, "impl_rates": vals, "impl_drates_dshape": tang[:n],
                        "model_output": rep[: 2 * n]})
        if not ok:
            ck.mismatch(f"{op}: model rates/tangents differ from implementation",
                        {"K": K, "shape": shape, "pinv": pinv, "mu": muv, "impl": vals + tang, "model": rep})


# ----------------------------------------------------------------------------- ratio transform
def _ratio(ck, drv, rng):
    import torch
    from torchtree.core.utils import process_object

    import c12_scen

    n = rng.randint(3, 7)
    t, x, _b = c12_scen.gen_tree(rng, n, "ratio")
    dic = {}
    vals = {"ratios": x["ratios"], "root": x["root"]}
    tm = process_object(c12_scen._tree_json(t, vals, True), dic)
    tr = tm.transform
    xs = torch.tensor(list(x["ratios"]) + list(x["root"]), dtype=torch.float64, requires_grad=True)
    heights = tr(xs)
    jac = torch.autograd.functional.jacobian(lambda z: tr(z), xs.detach())  # [k, i] = d h_k / d x_i
    logj = tr.log_abs_det_jacobian(xs, heights)
    (glog,) = torch.autograd.grad(logj, xs)
    m = n - 1
    fwd = " ".join(f"{int(p)} {int(c)}" for p, c in tr._forward_indices.tolist())
    det = " ".join(str(int(d)) for d in tr._det_indices.tolist())
    bounds = [float(v) for v in tr._bounds[n:]]
    impl = [float(logj.detach())] + [float(v) for v in glog] + [float(h) for h in heights.detach()] + [
        float(jac[k, i]) for i in range(m) for k in range(m)]
    for op in ("ratio", "ratio_def"):
        rep = _ask(drv, f"{op} {n} | {fwd} | {det} | {_hx(bounds)} | {_hx(xs.detach().tolist())}")
        if rep is None:
            ck.mismatch(f"{op}: driver refused the input", {"tree": t, "x": vals})
            continue
        ok = len(rep) == len(impl) and all(_close(a, b, TAN_REL, 1e-10) for a, b in zip(impl, rep)) and all(
            _close(a, b, VAL_REL, 1e-12) for a, b in zip([impl[0]] + impl[m + 1: 2 * m + 1], [rep[0]] + rep[m + 1: 2 * m + 1]))
        ck.case(key=(op, t["newick"], tuple(vals["ratios"])), bucket="driver/" + op,
                sample={"model": op, "newick": t["newick"], "impl_logJ_and_grad": impl[: m + 1],
                        "model_output": rep[: m + 1]})
        if not ok:
            ck.mismatch(f"{op}: model heights/Jacobian/log-Jacobian gradient differ from implementation",
                        {"tree": t, "x": vals, "impl": impl, "model": rep})


# ----------------------------------------------------------------------------- JC69
def _jc69(ck, drv, rng):
    import torch
    from torchtree.evolution.substitution_model import JC69

    t = rng.uniform(0.001, 2.0)
    tt = torch.tensor([t], dtype=torch.float64, requires_grad=True)
    P = JC69("jc").p_t(tt)
    (da,) = torch.autograd.grad(P[0, 0, 0], tt, retain_graph=True)
    (db,) = torch.autograd.grad(P[0, 0, 1], tt)
    impl = [float(P[0, 0, 0]), float(da), float(P[0, 0, 1]), float(db)]
    for op in ("jc69", "jc69_def"):
        rep = _ask(drv, f"{op} | {f2h(t)}")
        ok = rep is not None and len(rep) == 4 and all(_close(a, b, VAL_REL, 1e-13) for a, b in zip(impl, rep))
        ck.case(key=(op, t), bucket="driver/" + op, sample={"model": op, "t": t, "impl": impl, "model_output": rep})
        if not ok:
            ck.mismatch(f"{op}: model P(t), dP/dt differ from implementation", {"t": t, "impl": impl, "model": rep})


# ----------------------------------------------------------------------------- pruning
def _prune(ck, drv, rng, rescale):
    import torch

    import c12
    import c12_scen

    spec = c12_scen.gen_like(rng, "JC69", "const", "unrooted", rescale, ambig=rng.random() < 0.5, n=rng.randint(3, 6))
    scen = c12_scen.scenario(spec)
    v, g, b = c12.eval_grad(scen, scen.x)
    m = b.model
    n = spec["tree"]["n"]
    post = " ".join(f"{a} {l} {r}" for a, l, r in m.tree_model.postorder)
    bl = list(scen.x["bl"]) + [0.0]
    w = [int(round(float(x))) for x in m.weights]
    tips = []
    for s, ws in enumerate(w):
        for _ in range(ws):
            for i in range(n):
                tips += [float(m.partials[i][k, s]) for k in range(4)]
    rep = _ask(drv, f"prune {n} | {post} | {_hx(bl)} | {_hx(tips)}")
    if rep is None:
        ck.mismatch("prune: driver refused the input", {"spec": spec})
        return
    _cmp(ck, f"prune/rescale={int(rescale)}", ("prune", spec["tree"]["newick"], tuple(bl), rescale), v,
         g["bl"] or [0.0] * (2 * n - 3), rep[0], rep[1: 2 * n - 2], {"spec": spec})


def run(ck, rng, out):
    try:
        drv = ck.driver("drv_c12")
    except Exception as e:
        ck.notes.append(f"driver unavailable: {e}")
        ck.mismatch("driver drv_c12 unavailable", {"error": str(e)})
        return
    reps = 6 if ck.thorough() else 2
    try:
        for _ in range(reps):
            for kind in ("const", "skyride", "skygrid"):
                for tk in ("fake", "time"):
                    _guard(ck, lambda: _coal(ck, drv, rng, kind, tk), f"coal/{kind}/{tk}")
            for variant in ("plain", "weighted"):
                _guard(ck, lambda: _gmrf(ck, drv, rng, variant), "gmrf/" + variant)
            for inv in (False, True):
                for mu in (False, True):
                    _guard(ck, lambda: _weibull(ck, drv, rng, inv, mu), "weibull")
            _guard(ck, lambda: _ratio(ck, drv, rng), "ratio")
            _guard(ck, lambda: _jc69(ck, drv, rng), "jc69")
            for resc in (False, True):
                _guard(ck, lambda: _prune(ck, drv, rng, resc), "prune")
        # C08 exponential / piecewise-linear / relaxed skygrid, C20 time-aware GMRF and gamma-integrated GMRF
        import c12_corr_coal

        c12_corr_coal.run(ck, drv, rng)
    finally:
        drv.close()


def _guard(ck, f, what):
    from common import InfraError

    try:
        f()
    except InfraError:
        raise
    except Exception as e:  # the implementation raised inside the correspondence: a break, not a crash
        ck.mismatch(f"driver correspondence {what}: {type(e).__name__}", {"error": str(e)[:300]})


def replay(bad):
    print("driver correspondence findings are replayed by ./check C12 (same seed)")
    return 1
