"""C13, last sentence: "Specifications produced by the library's own json_factory helpers load into objects
that evaluate identically to directly constructed ones."

Implementation-only check (no Lean side).  For each of the 12 `json_factory` static methods of the tree under
check and several argument variants each:

  1. build the specification with the helper;
  2. round-trip it through json.dumps / json.loads (it has to be pure JSON);
  3. load it with the real loader as torchtree.py does (`dic = {}`, referenced objects first,
     then `process_objects(spec, dic)`);
  4. construct the same object directly with the class constructors, never going through JSON;
  5. compare evaluations (tensor value / dtype / shape, branch lengths, node heights, traversal, taxa,
     log-probabilities, rates), the object id, and the registry `dic` (every nested object the helper
     created has to be registered under the id the helper's kwargs / defaults promise, and nothing else).

A variant is `documented=True` when the argument form is promised by the helper's signature / docstring or
by the `from_json` docstring of the class; only those can put an entry in `found`.  Variants that probe
behaviour nobody documents (silently dropped kwargs, float32 rounding of newick lengths, ...) only leave a
remark in `ck.notes`.

Interface: run(ck, U, found) and replay_case(case).
"""
from __future__ import annotations

import json
import logging
import types

RTOL = 1e-12

# ----------------------------------------------------------------------------------------------- fixtures
NEWICK_U = "((A:0.125,B:0.25):0.375,C:0.5);"  # dyadic lengths: float32 == float64
TAXA_U = ["A", "B", "C"]
# unrooted branch lengths indexed by node index (A,B,C,(A,B)); the two root branches are merged and the
# last one dropped: [A, B, C + AB] = [0.125, 0.25, 0.875]
BL_U = [0.125, 0.25, 0.875]

# every per-taxon payload is ASYMMETRIC (four distinct dates, distinct leaf branches): attaching it to the taxa in any
# other order changes an observable
NEWICK_T = "(((A:1,B:0.5):1,C:1.75):0.5,D:1.75);"  # consistent with DATES_T; internal heights 1, 2, 2.5
DATES_T = {"A": 0.0, "B": 0.5, "C": 0.25, "D": 0.75}  # "time starts at 0": heights = dates
DATES_Y = {"A": 2000.0, "B": 1999.5, "C": 1999.75, "D": 1999.25}  # "time is a year": heights = max - date
HEIGHTS_T = [1.0, 2.0, 2.5]
OTHER_HEIGHTS = [1.5, 3.0, 4.0]  # valid heights different from the newick's
RATIOS_T = [0.25, 0.5]
ROOT_T = [4.0]
SHIFTS_T = [0.5, 1.0, 0.25]
NEWICK_ND = "(((A:0.1,B:0.3):0.7,C:0.9):0.3,D:1.1);"  # non-dyadic lengths, contemporaneous taxa

# ---- taxon NAMES.  The fixtures above are written with the placeholders A..D in the order of the leaf indices (the
# insertion order of the taxa dictionary / the order of the Taxon list).  Every tree variant runs once per name set; in
# the last two the insertion order differs from the sorted, the reverse-sorted, the case-folded and the natural
# (numeric) order of the names, so a helper or loader that re-orders taxa by ANY of these conventions attaches the
# positional payloads (branch lengths, dates -> sampling times, per-branch rates) to other taxa than direct construction
NAMESETS = {
    "A-D": {"A": "A", "B": "B", "C": "C", "D": "D"},
    "words": {"A": "zebra", "B": "Mouse", "C": "human", "D": "cat"},       # sorted: Mouse cat human zebra
    # (names that differ only in case are not used: dendropy matches newick labels case-insensitively)
    "numeric": {"A": "t2", "B": "10", "C": "T1", "D": "9"},                # sorted: 10 9 T1 t2; natural: 9 10 T1 t2
}
# one sequence per placeholder (distinct columns: every pair of taxa differs somewhere)
SEQS = {"A": "ACGTTGCAACGTACGA", "B": "ACGTTGCTACGAACTA", "C": "ACCTTGCTACGAATGC", "D": "TCCTAGCTACGAGTGG"}


def ren(x, m):
    """rename the placeholders A..D in a newick string / the keys of a dict / the items of a list, simultaneously"""
    import re

    if m is None:
        return x
    if isinstance(x, str):
        return re.sub(r"(?<=[(,])([A-D])(?=[:,)])", lambda k: m[k.group(1)], x)
    if isinstance(x, dict):
        return {m.get(k, k): v for k, v in x.items()}
    return [m.get(k, k) for k in x]


def for_names(builder):
    """register a tree variant once per name set"""
    def wrapped(*a, **kw):
        name_pos = 1 if builder.__name__ in ("_timetree", "_with_tree") else 0
        for label, m in NAMESETS.items():
            a2 = list(a)
            if label != "A-D":
                a2[name_pos] = f"{a2[name_pos]},names={label}"
            builder(*a2, names=m, **kw)
    wrapped.__name__ = builder.__name__
    return wrapped


def _imports():
    import torch
    from torchtree.core.parameter import CatParameter, Parameter, ViewParameter
    from torchtree.distributions.bayesian_bridge import BayesianBridge
    from torchtree.distributions.ctmc_scale import CTMCScale
    from torchtree.distributions.deterministic_normal import DeterministicNormal
    from torchtree.distributions.distributions import Distribution
    from torchtree.distributions.scale_mixture import ScaleMixtureNormal
    from torchtree.evolution.alignment import Alignment, Sequence
    from torchtree.evolution.branch_model import SimpleClockModel
    from torchtree.evolution.datatype import NucleotideDataType
    from torchtree.evolution.site_model import ConstantSiteModel
    from torchtree.evolution.site_pattern import SitePattern
    from torchtree.evolution.substitution_model import JC69
    from torchtree.evolution.taxa import Taxa, Taxon
    from torchtree.evolution.tree_model import (
        ReparameterizedTimeTreeModel,
        TimeTreeModel,
        UnRootedTreeModel,
        initialize_dates_from_taxa,
        parse_tree,
    )
    from torchtree.evolution.tree_likelihood import TreeLikelihoodModel
    from torchtree.evolution.tree_model_flexible import FlexibleTimeTreeModel

    return types.SimpleNamespace(**locals())


# ----------------------------------------------------------------------------------------------- variants
VARIANTS = []  # (helper, variant, fn(T) -> dict, documented)


def variant(helper, name, documented=True):
    def deco(fn):
        VARIANTS.append((helper, name, fn, documented))
        return fn

    return deco


def pspec(id_, values, dtype=None):
    d = {"id": id_, "type": "Parameter", "tensor": values}
    if dtype:
        d["dtype"] = dtype
    return d


def taxa_list_spec(dates, with_dates=True):
    return [
        {"id": k, "type": "Taxon", **({"attributes": {"date": v}} if with_dates else {})} for k, v in dates.items()
    ]


def taxa_spec(id_, dates, with_dates=True):
    return {"id": id_, "type": "Taxa", "taxa": taxa_list_spec(dates, with_dates)}


def mk_taxa(T, id_, dates, with_dates=True):
    return T.Taxa(id_, [T.Taxon(k, {"date": v} if with_dates else {}) for k, v in dates.items()])


def reg_taxa(taxa):
    r = {t.id: t for t in taxa}
    r[taxa.id] = taxa
    return r


def newick_heights(tree, eps=1.0e-6):
    """internal node heights implied by the branch lengths of a dated tree, in Python floats (float64)"""
    n = len(tree.taxon_namespace)
    h = [None] * (2 * n - 1)
    for node in tree.postorder_node_iter():
        if node.is_leaf():
            h[node.index] = float(node.date)
        else:
            h[node.index] = max(h[c.index] + max(eps, float(c.edge_length)) for c in node.child_node_iter())
    return h[n:]


# ---- Parameter ---------------------------------------------------------------------------------------
def _param_variant(name, kwargs, direct_tensor, pre=(), nested=None, documented=True):
    """kwargs: helper kwargs; direct_tensor(T, env) -> tensor; pre: specs loaded first (and their direct
    twins are built with Parameter(id, torch.tensor(values, dtype))); nested: id of a parameter literal
    nested in kwargs (has to end up registered)"""

    @variant("Parameter", name, documented)
    def v(T, kwargs=kwargs, direct_tensor=direct_tensor, pre=pre, nested=nested):
        def direct():
            env = {}
            for s in list(pre) + ([kwargs[nested]] if nested else []):
                dt = getattr(T.torch, s["dtype"].split(".")[-1]) if "dtype" in s else None
                env[s["id"]] = T.Parameter(s["id"], T.torch.tensor(s["tensor"], dtype=dt))
            p = T.Parameter("p", direct_tensor(T, env))
            return p, {"p": p, **env}

        return dict(args={"id_": "p", **kwargs}, pre=list(pre), make=lambda: T.Parameter.json_factory("p", **kwargs),
                    direct=direct, kind="param")

    return v


X3 = pspec("x", [1.0, 2.0, 3.0])  # float32 (torch default): lets a dropped dtype request show
X23 = pspec("m", [[1.0, 2.0, 3.0], [4.0, 5.0, 6.0]], "torch.float64")
F64 = "torch.float64"

_param_variant("tensor:list", {"tensor": [0.5, 1.5, 2.5]}, lambda T, e: T.torch.tensor([0.5, 1.5, 2.5]))
_param_variant("tensor:list+dtype", {"tensor": [0.1, 0.2], "dtype": F64},
               lambda T, e: T.torch.tensor([0.1, 0.2], dtype=T.torch.float64))
_param_variant("tensor:scalar", {"tensor": 0.1}, lambda T, e: T.torch.tensor(0.1))
_param_variant("tensor:2d+dtype+device", {"tensor": [[1.0, 2.0], [3.0, 4.0]], "dtype": F64, "device": "cpu"},
               lambda T, e: T.torch.tensor([[1.0, 2.0], [3.0, 4.0]], dtype=T.torch.float64, device="cpu"))
_param_variant("tensor:int+dtype", {"tensor": [1, 2, 3], "dtype": "torch.long"},
               lambda T, e: T.torch.tensor([1, 2, 3], dtype=T.torch.long))
_param_variant("tensor:int", {"tensor": [1, 2, 3]}, lambda T, e: T.torch.tensor([1, 2, 3]))
_param_variant("tensor:bool", {"tensor": [True, False]}, lambda T, e: T.torch.tensor([True, False]))
_param_variant("full:list", {"full": [2, 3], "tensor": 0.5}, lambda T, e: T.torch.full([2, 3], 0.5))
_param_variant("full:list+dtype", {"full": [3], "tensor": 0.1, "dtype": F64},
               lambda T, e: T.torch.full([3], 0.1, dtype=T.torch.float64))
_param_variant("full:int", {"full": 3, "tensor": 0.5}, lambda T, e: T.torch.full((3,), 0.5))
_param_variant("full_like:ref", {"full_like": "x", "tensor": 0.5}, lambda T, e: T.torch.full_like(e["x"].tensor, 0.5),
               pre=[X3])
_param_variant("full_like:dict", {"full_like": X23, "tensor": 0.1},
               lambda T, e: T.torch.full_like(e["m"].tensor, 0.1), nested="full_like")
_param_variant("full_like:ref+dtype", {"full_like": "x", "tensor": 0.1, "dtype": F64},
               lambda T, e: T.torch.full_like(e["x"].tensor, 0.1, dtype=T.torch.float64), pre=[X3])
_param_variant("zeros:list", {"zeros": [2, 2]}, lambda T, e: T.torch.zeros([2, 2]))
_param_variant("zeros:int+dtype", {"zeros": 3, "dtype": F64}, lambda T, e: T.torch.zeros(3, dtype=T.torch.float64))
_param_variant("zeros_like:ref", {"zeros_like": "x"}, lambda T, e: T.torch.zeros_like(e["x"].tensor), pre=[X3])
_param_variant("zeros_like:dict", {"zeros_like": X23}, lambda T, e: T.torch.zeros_like(e["m"].tensor),
               nested="zeros_like")
_param_variant("zeros_like:ref+dtype", {"zeros_like": "x", "dtype": F64},
               lambda T, e: T.torch.zeros_like(e["x"].tensor, dtype=T.torch.float64), pre=[X3])
_param_variant("ones:list+device", {"ones": [3], "device": "cpu"}, lambda T, e: T.torch.ones([3], device="cpu"))
_param_variant("ones:int+dtype", {"ones": 2, "dtype": F64}, lambda T, e: T.torch.ones(2, dtype=T.torch.float64))
_param_variant("ones_like:ref", {"ones_like": "x"}, lambda T, e: T.torch.ones_like(e["x"].tensor), pre=[X3])
_param_variant("ones_like:dict", {"ones_like": X23}, lambda T, e: T.torch.ones_like(e["m"].tensor),
               nested="ones_like")
_param_variant("ones_like:ref+dtype", {"ones_like": "x", "dtype": F64},
               lambda T, e: T.torch.ones_like(e["x"].tensor, dtype=T.torch.float64), pre=[X3])
_param_variant("eye:int", {"eye": 3}, lambda T, e: T.torch.eye(3))
_param_variant("eye:int+dtype", {"eye": 2, "dtype": F64}, lambda T, e: T.torch.eye(2, dtype=T.torch.float64))
_param_variant("eye:list", {"eye": [2, 3]}, lambda T, e: T.torch.eye(2, 3))
# eye_like: the class only takes the SIZE from the input parameter (no torch.eye_like exists); dtype only
# when asked for
_param_variant("eye_like:ref-1d+dtype", {"eye_like": "x", "dtype": F64},
               lambda T, e: T.torch.eye(3, dtype=T.torch.float64), pre=[X3])
_param_variant("eye_like:dict-2d", {"eye_like": pspec("m", [[1.0, 2.0, 3.0], [4.0, 5.0, 6.0]])},
               lambda T, e: T.torch.eye(2, 3), nested="eye_like")
_param_variant("arange:int", {"arange": 5}, lambda T, e: T.torch.arange(5))
_param_variant("arange:list", {"arange": [1, 7, 2]}, lambda T, e: T.torch.arange(1, 7, 2))
# kwargs the loader documents but the helper has no branch for; nobody documents the helper -> remark only
_param_variant("tensor:list+requires_grad", {"tensor": [0.5, 1.5], "requires_grad": True},
               lambda T, e: T.torch.tensor([0.5, 1.5], requires_grad=True), documented=False)
_param_variant("tensor:list+nn", {"tensor": [0.5, 1.5], "nn": True},
               lambda T, e: T.torch.nn.Parameter(T.torch.tensor([0.5, 1.5])), documented=False)
_param_variant("tensor:list+dimension", {"tensor": [0.5, 1.5], "dimension": 5},
               lambda T, e: T.torch.tensor([0.5, 1.5, 0.5, 1.5, 0.5]), documented=False)


# ---- ViewParameter -----------------------------------------------------------------------------------
X5 = pspec("x", [1.0, 2.0, 3.0, 4.0, 5.0], F64)


def _view_variant(name, x, indices, direct_indices, documented=True):
    """x: 'ref' | 'dict' | '2d'; direct_indices(T) -> int | slice | Tensor handed to the constructor"""
    base = X23 if x == "2d" else X5
    as_ref = x in ("ref", "2d")

    @variant("ViewParameter", name, documented)
    def v(T):
        def direct():
            p = T.Parameter(base["id"], T.torch.tensor(base["tensor"], dtype=T.torch.float64))
            view = T.ViewParameter("v", p, direct_indices(T))
            return view, {"v": view, base["id"]: p}

        arg = base["id"] if as_ref else base
        return dict(args={"id_": "v", "x": arg, "indices": indices}, pre=[base] if as_ref else [],
                    make=lambda: T.ViewParameter.json_factory("v", arg, indices), direct=direct, kind="param")

    return v


_view_variant("int:ref", "ref", 1, lambda T: 1)
_view_variant("int:dict", "dict", 0, lambda T: 0)
_view_variant("slice 1:3:ref", "ref", "1:3", lambda T: slice(1, 3))
_view_variant("slice :2:dict", "dict", ":2", lambda T: slice(None, 2))
_view_variant("slice 1::ref", "ref", "1:", lambda T: slice(1, None))
_view_variant("slice 0:5:2:ref", "ref", "0:5:2", lambda T: slice(0, 5, 2))
_view_variant("slice 0:1 (cli form):ref", "ref", "0:1", lambda T: slice(0, 1))
_view_variant("slice ::-1:ref", "ref", "::-1", lambda T: T.torch.tensor([4, 3, 2, 1, 0]))
_view_variant("slice 3:0:-1:ref", "ref", "3:0:-1", lambda T: T.torch.tensor([3, 2, 1]))
_view_variant("slice 1:3:2d", "2d", "1:3", lambda T: slice(1, 3))
_view_variant("int:2d", "2d", 2, lambda T: 2)
_view_variant("list-int:ref", "ref", [0, 2], lambda T: T.torch.LongTensor([0, 2]))
_view_variant("list-bool:ref", "ref", [True, False, True, False, False],
              lambda T: T.torch.BoolTensor([True, False, True, False, False]))
# python semantics of x[-1::-1] is the reversed vector; nobody documents negative starts -> remark only
_view_variant("slice -1::-1:ref", "ref", "-1::-1", lambda T: T.torch.tensor([4, 3, 2, 1, 0]), documented=False)


# ---- UnRootedTreeModel -------------------------------------------------------------------------------
@for_names
def _unrooted(name, bl, taxa, kwargs=None, documented=True, newick=NEWICK_U, expect_bl=None, dtype=None, names=None):
    """bl: 'list' | 'dict' | 'ref'; taxa: 'dict' | 'list' | 'ref'"""
    kwargs = kwargs or {}
    given = [0.5, 0.25, 1.0]
    newick = ren(newick, names)

    @variant("UnRootedTreeModel", name, documented)
    def v(T):
        bl_id = kwargs.get("branch_lengths_id", "branch_lengths") if bl == "list" else "bl"
        taxa_id = kwargs.get("taxa_id", "taxa") if taxa != "ref" else "TX"
        dates = ren({k: 0.0 for k in TAXA_U}, names)
        pre = []
        if bl == "list":
            bl_arg = given
        elif bl == "dict":
            bl_arg = pspec(bl_id, given, dtype)
        else:
            bl_arg = bl_id
            pre.append(pspec(bl_id, given, dtype))
        if taxa == "dict":
            taxa_arg = dates
        elif taxa == "list":
            taxa_arg = taxa_list_spec(dates, with_dates=False)
        else:
            taxa_arg = taxa_id
            pre.insert(0, taxa_spec(taxa_id, dates, with_dates=False))

        def direct():
            tx = mk_taxa(T, taxa_id, dates, with_dates=False)
            tree = T.parse_tree(tx, {"newick": newick})
            values = expect_bl if kwargs.get("keep_branch_lengths") else given
            dt = getattr(T.torch, dtype.split(".")[-1]) if dtype and bl != "list" else None
            p = T.Parameter(bl_id, T.torch.tensor(values, dtype=dt))
            tm = T.UnRootedTreeModel("tree", tree, tx, p)
            return tm, {"tree": tm, bl_id: p, **reg_taxa(tx)}

        return dict(args={"id_": "tree", "newick": newick, "branch_lengths": bl_arg, "taxa": taxa_arg, **kwargs},
                    pre=pre, make=lambda: T.UnRootedTreeModel.json_factory("tree", newick, bl_arg, taxa_arg, **kwargs),
                    direct=direct, kind="tree", names=names)

    return v


_unrooted("bl-list,taxa-dict,defaults", "list", "dict")
_unrooted("bl-list,taxa-dict,ids", "list", "dict", {"branch_lengths_id": "blens", "taxa_id": "species"})
_unrooted("bl-dict,taxa-list", "dict", "list", dtype=F64)
_unrooted("bl-dict,taxa-list,taxa_id", "dict", "list", {"taxa_id": "species"})
_unrooted("bl-ref,taxa-ref", "ref", "ref", dtype=F64)
_unrooted("bl-list,taxa-dict,keep_branch_lengths", "list", "dict", {"keep_branch_lengths": True}, expect_bl=BL_U)
_unrooted("bl-dict-f64,taxa-ref,keep_branch_lengths", "dict", "ref", {"keep_branch_lengths": True}, expect_bl=BL_U,
          dtype=F64)
_unrooted("bl-list,taxa-dict,keep_branch_lengths=False", "list", "dict", {"keep_branch_lengths": False})
# non-dyadic newick lengths in a float64 parameter: the merged root branch 0.4 + 0.3 is summed in Python floats
_unrooted("bl-dict-f64,taxa-dict,keep_branch_lengths,non-dyadic", "dict", "dict", {"keep_branch_lengths": True},
          newick="((A:0.1,B:0.2):0.3,C:0.4);", expect_bl=[0.1, 0.2, 0.4 + 0.3], dtype=F64)


# ---- TimeTreeModel / FlexibleTimeTreeModel -----------------------------------------------------------
@for_names
def _timetree(helper, name, heights, taxa, kwargs=None, documented=True, dates=DATES_T, newick=NEWICK_T, dtype=None,
              f64_heights=False, names=None):
    """heights: 'list' | 'tuple' | 'dict' | 'ref'; taxa: 'dict' | 'list' | 'ref'.
    f64_heights: with keep_branch_lengths, take the directly constructed heights from an independent float64
    computation instead of the newick constants"""
    kwargs = kwargs or {}
    dates, newick = ren(dates, names), ren(newick, names)

    @variant(helper, name, documented)
    def v(T):
        klass = getattr(T, helper)
        keep = bool(kwargs.get("keep_branch_lengths"))
        given = OTHER_HEIGHTS if keep else HEIGHTS_T
        h_id = kwargs.get("internal_heights_id", None) if heights in ("list", "tuple") else "heights"
        taxa_id = kwargs.get("taxa_id", "taxa") if taxa != "ref" else "TX"
        pre = []
        if heights == "list":
            h_arg = list(given)
        elif heights == "tuple":
            h_arg = tuple(given)
        elif heights == "dict":
            h_arg = pspec(h_id, given, dtype)
        else:
            h_arg = h_id
            pre.append(pspec(h_id, given, dtype))
        if taxa == "dict":
            taxa_arg = dates
        elif taxa == "list":
            taxa_arg = taxa_list_spec(dates)
        else:
            taxa_arg = taxa_id
            pre.insert(0, taxa_spec(taxa_id, dates))

        def direct():
            tx = mk_taxa(T, taxa_id, dates)
            tree = T.parse_tree(tx, {"newick": newick})
            T.initialize_dates_from_taxa(tree, tx)
            dt = getattr(T.torch, dtype.split(".")[-1]) if dtype and heights in ("dict", "ref") else None
            values = given
            if keep:
                values = newick_heights(tree) if f64_heights else HEIGHTS_T
            p = T.Parameter(h_id, T.torch.tensor(values, dtype=dt))
            tm = klass("tree", tree, tx, p)
            return tm, {"tree": tm, h_id: p, **reg_taxa(tx)}

        return dict(args={"id_": "tree", "newick": newick, "internal_heights": h_arg, "taxa": taxa_arg, **kwargs},
                    pre=pre, make=lambda: klass.json_factory("tree", newick, h_arg, taxa_arg, **kwargs),
                    direct=direct, kind="timetree", exact=not f64_heights, names=names)

    return v


for _h in ("TimeTreeModel", "FlexibleTimeTreeModel"):
    _timetree(_h, "heights-list,taxa-dict,no-id", "list", "dict")
    _timetree(_h, "heights-list,taxa-dict,ids", "list", "dict", {"internal_heights_id": "hts", "taxa_id": "species"})
    _timetree(_h, "heights-dict-f64,taxa-list", "dict", "list", dtype=F64)
    _timetree(_h, "heights-dict,taxa-list,taxa_id", "dict", "list", {"taxa_id": "species"})
    _timetree(_h, "heights-ref-f64,taxa-ref", "ref", "ref", dtype=F64)
    _timetree(_h, "heights-list,taxa-dict,year-dates", "list", "dict", {"internal_heights_id": "hts"}, dates=DATES_Y)
    _timetree(_h, "heights-list,taxa-dict,keep_branch_lengths", "list", "dict",
              {"internal_heights_id": "hts", "keep_branch_lengths": True})
    _timetree(_h, "heights-dict-f64,taxa-ref,keep_branch_lengths", "dict", "ref", {"keep_branch_lengths": True},
              dtype=F64)
    _timetree(_h, "heights-list,taxa-dict,keep_branch_lengths=False", "list", "dict",
              {"internal_heights_id": "hts", "keep_branch_lengths": False})
    # float64 parameter, non-dyadic newick lengths: does the float64 model get the newick's lengths to float64
    # accuracy?  expected heights: plain float64 sums of the newick lengths, compared with rtol 1e-12
    _timetree(_h, "heights-dict-f64,taxa-dict,keep_branch_lengths,non-dyadic", "dict", "dict",
              {"keep_branch_lengths": True}, dates={k: 0.0 for k in "ABCD"}, newick=NEWICK_ND, dtype=F64,
              f64_heights=True, documented=False)  # no constructor counterpart: remark only (float32 intermediate)
# TimeTreeModel's helper takes (list, tuple); the flexible one's signature only promises list
_timetree("TimeTreeModel", "heights-tuple,taxa-dict", "tuple", "dict", {"internal_heights_id": "hts"})
_timetree("FlexibleTimeTreeModel", "heights-tuple,taxa-dict", "tuple", "dict", {"internal_heights_id": "hts"},
          documented=False)


# ---- ReparameterizedTimeTreeModel --------------------------------------------------------------------
@for_names
def _reparam(name, mode, form, taxa, kwargs=None, documented=True, dates=DATES_T, dtype=None, newick=NEWICK_T,
             f64_heights=False, names=None):
    """mode: 'ratios' | 'shifts'; form: 'list' | 'tuple' | 'dict' | 'ref' (of ratios/root_height or shifts).
    f64_heights: with keep_branch_lengths, the expected node heights are plain float64 sums of the newick lengths
    (compared with rtol) instead of the constants of NEWICK_T"""
    kwargs = kwargs or {}
    dates, newick = ren(dates, names), ren(newick, names)

    @variant("ReparameterizedTimeTreeModel", name, documented)
    def v(T):
        keep = bool(kwargs.get("keep_branch_lengths"))
        taxa_id = kwargs.get("taxa_id", "taxa") if taxa != "ref" else "TX"
        lit = form in ("list", "tuple")
        conv = tuple if form == "tuple" else list
        pre = []
        if taxa == "dict":
            taxa_arg = dates
        elif taxa == "list":
            taxa_arg = taxa_list_spec(dates)
        else:
            taxa_arg = taxa_id
            pre.append(taxa_spec(taxa_id, dates))

        hk = {}
        if mode == "shifts":
            s_id = kwargs.get("shifts_id", "shifts") if lit else "sh"
            given = {s_id: [9.0, 9.0, 9.0] if keep else SHIFTS_T}
            if lit:
                hk["shifts"] = conv(given[s_id])
            elif form == "dict":
                hk["shifts"] = pspec(s_id, given[s_id], dtype)
            else:
                hk["shifts"] = s_id
                pre.append(pspec(s_id, given[s_id], dtype))
            ids = [s_id]
        else:
            r_id = kwargs.get("ratios_id", "ratios") if lit else "rt"
            h_id = kwargs.get("root_height_id", "root_height") if lit else "rh"
            given = {r_id: [0.75, 0.125] if keep else RATIOS_T, h_id: [9.0] if keep else ROOT_T}
            for key, i in (("ratios", r_id), ("root_height", h_id)):
                if lit:
                    hk[key] = conv(given[i])
                elif form == "dict":
                    hk[key] = pspec(i, given[i], dtype)
                else:
                    hk[key] = i
                    pre.append(pspec(i, given[i], dtype))
            ids = [r_id, h_id]

        def direct():
            tx = mk_taxa(T, taxa_id, dates)
            tree = T.parse_tree(tx, {"newick": newick})
            T.initialize_dates_from_taxa(tree, tx)
            dt = getattr(T.torch, dtype.split(".")[-1]) if dtype and not lit else None
            ps = [T.Parameter(i, T.torch.tensor(given[i], dtype=dt)) for i in ids]
            if mode == "shifts":
                whole = ps[0]
                tm = T.ReparameterizedTimeTreeModel("tree", tree, tx, shifts=whole)
            else:
                whole = T.CatParameter(None, ps, dim=-1)
                tm = T.ReparameterizedTimeTreeModel("tree", tree, tx, whole)
            if keep:
                # the constructor has no such option: the documented meaning is "use the branch lengths of the
                # newick tree", i.e. the parameters are the pre-image of the newick's node heights
                hts = newick_heights(tree) if f64_heights else HEIGHTS_T
                whole.tensor = tm.transform.inv(T.torch.tensor(hts, dtype=whole.dtype))
            return tm, {"tree": tm, **{p.id: p for p in ps}, **reg_taxa(tx)}

        return dict(args={"id_": "tree", "newick": newick, "taxa": taxa_arg, **hk, **kwargs}, pre=pre,
                    make=lambda: T.ReparameterizedTimeTreeModel.json_factory("tree", newick, taxa_arg, **hk, **kwargs),
                    direct=direct, kind="reparam", exact=not f64_heights, names=names)

    return v


_reparam("ratios-list,taxa-dict,defaults", "ratios", "list", "dict")
_reparam("ratios-list,taxa-dict,ids", "ratios", "list", "dict",
         {"ratios_id": "r", "root_height_id": "h", "taxa_id": "species"})
_reparam("ratios-tuple,taxa-list", "ratios", "tuple", "list")
_reparam("ratios-dict-f64,taxa-list,taxa_id", "ratios", "dict", "list", {"taxa_id": "species"}, dtype=F64)
_reparam("ratios-ref-f64,taxa-ref", "ratios", "ref", "ref", dtype=F64)
_reparam("ratios-list,taxa-dict,year-dates", "ratios", "list", "dict", dates=DATES_Y)
_reparam("ratios-list,taxa-dict,keep_branch_lengths", "ratios", "list", "dict", {"keep_branch_lengths": True})
_reparam("ratios-dict-f64,taxa-ref,keep_branch_lengths", "ratios", "dict", "ref", {"keep_branch_lengths": True},
         dtype=F64)
_reparam("ratios-list,taxa-dict,keep_branch_lengths=False", "ratios", "list", "dict", {"keep_branch_lengths": False})
_reparam("shifts-list,taxa-dict,defaults", "shifts", "list", "dict")
_reparam("shifts-list,taxa-dict,ids", "shifts", "list", "dict", {"shifts_id": "s", "taxa_id": "species"})
_reparam("shifts-tuple,taxa-list", "shifts", "tuple", "list")
_reparam("shifts-dict-f64,taxa-list", "shifts", "dict", "list", dtype=F64)
_reparam("shifts-ref-f64,taxa-ref", "shifts", "ref", "ref", dtype=F64)
_reparam("shifts-list,taxa-dict,keep_branch_lengths", "shifts", "list", "dict", {"keep_branch_lengths": True})
_reparam("shifts-dict-f64,taxa-dict,year-dates", "shifts", "dict", "dict", dates=DATES_Y, dtype=F64)
_reparam("ratios-dict-f64,taxa-dict,keep_branch_lengths,non-dyadic", "ratios", "dict", "dict",
         {"keep_branch_lengths": True}, dates={k: 0.0 for k in "ABCD"}, dtype=F64, newick=NEWICK_ND, f64_heights=True,
         documented=False)
_reparam("shifts-dict-f64,taxa-dict,keep_branch_lengths,non-dyadic", "shifts", "dict", "dict",
         {"keep_branch_lengths": True}, dates={k: 0.0 for k in "ABCD"}, dtype=F64, newick=NEWICK_ND, f64_heights=True,
         documented=False)


# ---- SimpleClockModel / CTMCScale (need a tree) ------------------------------------------------------
def _tree_spec(T, id_="tree", names=None):
    return T.TimeTreeModel.json_factory(id_, ren(NEWICK_T, names), pspec("heights", HEIGHTS_T, F64), ren(DATES_T, names))


def _tree_direct(T, id_="tree", names=None):
    tx = mk_taxa(T, "taxa", ren(DATES_T, names))
    tree = T.parse_tree(tx, {"newick": ren(NEWICK_T, names)})
    T.initialize_dates_from_taxa(tree, tx)
    p = T.Parameter("heights", T.torch.tensor(HEIGHTS_T, dtype=T.torch.float64))
    tm = T.TimeTreeModel(id_, tree, tx, p)
    return tm, {id_: tm, "heights": p, **reg_taxa(tx)}


@for_names
def _with_tree(helper, name, tree_form, rate_form, rate_values, kind, documented=True, names=None):
    """tree_form / rate_form: 'dict' | 'ref'"""

    @variant(helper, name, documented)
    def v(T):
        klass = getattr(T, helper)
        pre = []
        tree_arg = _tree_spec(T, names=names) if tree_form == "dict" else "tree"
        if tree_form == "ref":
            pre.append(_tree_spec(T, names=names))
        rate_arg = pspec("rate", rate_values, F64) if rate_form == "dict" else "rate"
        if rate_form == "ref":
            pre.append(pspec("rate", rate_values, F64))

        def direct():
            tm, reg = _tree_direct(T, names=names)
            r = T.Parameter("rate", T.torch.tensor(rate_values, dtype=T.torch.float64))
            if helper == "SimpleClockModel":
                o = T.SimpleClockModel("obj", r, tm)
            else:
                o = T.CTMCScale("obj", r, tm)
            return o, {"obj": o, "rate": r, **reg}

        if helper == "SimpleClockModel":
            make = lambda: klass.json_factory("obj", tree_arg, rate_arg)  # noqa: E731
            args = {"id_": "obj", "tree_model": tree_arg, "rate": rate_arg}
        else:
            make = lambda: klass.json_factory("obj", rate_arg, tree_arg)  # noqa: E731
            args = {"id_": "obj", "rate": rate_arg, "tree": tree_arg}
        return dict(args=args, pre=pre, make=make, direct=direct, kind=kind, names=names)

    return v


_RATES6 = [0.5, 0.25, 1.0, 2.0, 0.125, 0.75]
_with_tree("SimpleClockModel", "tree-dict,rate-dict", "dict", "dict", _RATES6, "clock")
_with_tree("SimpleClockModel", "tree-ref,rate-ref", "ref", "ref", _RATES6, "clock")
_with_tree("SimpleClockModel", "tree-ref,rate-dict", "ref", "dict", _RATES6, "clock")
_with_tree("SimpleClockModel", "tree-dict,rate-ref", "dict", "ref", _RATES6, "clock")
_with_tree("CTMCScale", "rate-dict,tree-dict", "dict", "dict", [0.001], "callable")
_with_tree("CTMCScale", "rate-ref,tree-ref", "ref", "ref", [0.001], "callable")
_with_tree("CTMCScale", "rate-dict,tree-ref", "ref", "dict", [0.25], "callable")
_with_tree("CTMCScale", "rate-ref,tree-dict", "dict", "ref", [0.25], "callable")


# ---- Distribution ------------------------------------------------------------------------------------
def _dist(name, dist, x_form, params, documented=True, x_dtype=F64):
    """x_form: 'dict' | 'ref' | 'list'; params: None or {name: ('dict'|'ref'|'number'|'list', values)}"""

    @variant("Distribution", name, documented)
    def v(T):
        tdt = getattr(T.torch, x_dtype.split(".")[-1]) if x_dtype else None
        pre = []
        xs = [pspec("x", [0.5, 1.5, 2.5], x_dtype)]
        if x_form == "list":
            xs = [pspec("x1", [0.5, 1.5], x_dtype), pspec("x2", [2.5], x_dtype)]
            x_arg = xs
        elif x_form == "dict":
            x_arg = xs[0]
        else:
            x_arg = "x"
            pre.append(xs[0])
        p_arg = None
        if params is not None:
            p_arg = {}
            for k, (form, val) in params.items():
                if form == "dict":
                    p_arg[k] = pspec("d." + k, val, F64)
                elif form == "ref":
                    p_arg[k] = "d." + k
                    pre.append(pspec("d." + k, val, F64))
                else:
                    p_arg[k] = val

        def direct():
            reg = {}
            xp = [T.Parameter(s["id"], T.torch.tensor(s["tensor"], dtype=tdt)) for s in xs]
            for p in xp:
                reg[p.id] = p
            x = xp if x_form == "list" else xp[0]
            ps = {}
            for k, (form, val) in (params or {}).items():
                if form in ("dict", "ref"):
                    ps[k] = T.Parameter("d." + k, T.torch.tensor(val, dtype=T.torch.float64))
                    reg["d." + k] = ps[k]
                else:  # plain numbers / lists: anonymous parameters with the dtype of x
                    ps[k] = T.Parameter(None, T.torch.tensor(val, dtype=tdt))
            klass = getattr(T.torch.distributions, dist.split(".")[-1])
            d = T.Distribution("d", klass, x, ps)
            reg["d"] = d
            return d, reg

        a = ("d", dist, x_arg) + ((p_arg,) if p_arg is not None else ())
        return dict(args={"id_": "d", "distribution": dist, "x": x_arg, "parameters": p_arg}, pre=pre,
                    make=lambda: T.Distribution.json_factory(*a), direct=direct, kind="callable")

    return v


_dist("Normal,x-dict,params-dict", "torch.distributions.Normal", "dict",
      {"loc": ("dict", [0.25]), "scale": ("dict", [2.0])})
_dist("Normal,x-ref,params-ref", "torch.distributions.Normal", "ref",
      {"loc": ("ref", [0.25]), "scale": ("ref", [2.0])})
_dist("Normal,x-ref,params-mixed", "torch.distributions.Normal", "ref",
      {"loc": ("number", 0.25), "scale": ("dict", [0.5, 1.0, 2.0])})
_dist("Cauchy,x-ref,params-number (cli form)", "torch.distributions.Cauchy", "ref",
      {"loc": ("number", 0.0), "scale": ("number", 1.0)})
_dist("Exponential,x-dict,params-number", "torch.distributions.Exponential", "dict", {"rate": ("number", 1.0)})
_dist("Gamma,x-dict-f32,params-list", "torch.distributions.Gamma", "dict",
      {"concentration": ("list", [2.0, 3.0, 4.0]), "rate": ("list", [0.5])}, x_dtype=None)
_dist("LogNormal,x-ref,params-reversed-order", "torch.distributions.LogNormal", "ref",
      {"scale": ("dict", [0.5]), "loc": ("number", 1.0)})
_dist("Normal,x-list-of-dict,params-dict", "torch.distributions.Normal", "list",
      {"loc": ("dict", [0.25]), "scale": ("dict", [2.0])})
_dist("Normal,x-dict,parameters-absent", "torch.distributions.Normal", "dict", None)
# the JSON docs promise x: dict or str; a list of x with plain numbers is nobody's promise -> remark only
_dist("Normal,x-list-of-dict,params-number", "torch.distributions.Normal", "list",
      {"loc": ("number", 0.25), "scale": ("number", 2.0)}, documented=False)


@variant("Distribution", "parameters-as-str (helper type hint Union[str, dict])", documented=False)
def _dist_params_str(T):
    def direct():
        x = T.Parameter("x", T.torch.tensor([0.5, 1.5], dtype=T.torch.float64))
        loc = T.Parameter("loc", T.torch.tensor([0.25], dtype=T.torch.float64))
        scale = T.Parameter("scale", T.torch.tensor([2.0], dtype=T.torch.float64))
        d = T.Distribution("d", T.torch.distributions.Normal, x, {"loc": loc, "scale": scale})
        return d, {"d": d, "x": x, "loc": loc, "scale": scale}

    pre = [pspec("x", [0.5, 1.5], F64), pspec("loc", [0.25], F64), pspec("scale", [2.0], F64)]
    return dict(args={"id_": "d", "distribution": "torch.distributions.Normal", "x": "x", "parameters": "loc"},
                pre=pre, make=lambda: T.Distribution.json_factory("d", "torch.distributions.Normal", "x", "loc"),
                direct=direct, kind="callable")


# ---- BayesianBridge ----------------------------------------------------------------------------------
def _bridge(name, x_form, scale_form, alpha_form, documented=True):
    """forms: 'dict' | 'ref' | 'number'"""
    vals = {"x": [0.5, -1.5, 2.0], "scale": [2.0], "alpha": [0.25]}

    @variant("BayesianBridge", name, documented)
    def v(T):
        pre, args = [], {}
        for k, form in (("x", x_form), ("scale", scale_form), ("alpha", alpha_form)):
            if form == "dict":
                args[k] = pspec("b." + k, vals[k], F64)
            elif form == "ref":
                args[k] = "b." + k
                pre.append(pspec("b." + k, vals[k], F64))
            else:
                args[k] = vals[k][0]

        def direct():
            reg, a = {}, {}
            for k, form in (("x", x_form), ("scale", scale_form), ("alpha", alpha_form)):
                if form == "number":  # documented: "dict or str or float"; a bare tensor with the dtype of x
                    a[k] = T.torch.tensor(vals[k][0], dtype=T.torch.float64)
                else:
                    a[k] = T.Parameter("b." + k, T.torch.tensor(vals[k], dtype=T.torch.float64))
                    reg["b." + k] = a[k]
            b = T.BayesianBridge("bridge", a["x"], a["scale"], a["alpha"])
            reg["bridge"] = b
            return b, reg

        return dict(args={"id_": "bridge", **args}, pre=pre,
                    make=lambda: T.BayesianBridge.json_factory("bridge", args["x"], args["scale"], args["alpha"]),
                    direct=direct, kind="callable")

    return v


_bridge("all-dict", "dict", "dict", "dict")
_bridge("all-ref", "ref", "ref", "ref")
_bridge("x-ref,scale-number,alpha-number", "ref", "number", "number")
_bridge("x-dict,scale-dict,alpha-number", "dict", "dict", "number")
_bridge("x-dict,scale-number,alpha-ref", "dict", "number", "ref")


# ---- DeterministicNormal -----------------------------------------------------------------------------
def _detnormal(name, form, shape, x_list=False, documented=True):
    vals = {"loc": [0.25, 0.5, -1.0], "scale": [2.0, 0.5, 1.0], "x": [0.5, 1.5, 2.5]}

    @variant("DeterministicNormal", name, documented)
    def v(T):
        pre, args = [], {}
        for k in ("loc", "scale"):
            if form == "dict":
                args[k] = pspec("n." + k, vals[k], F64)
            else:
                args[k] = "n." + k
                pre.append(pspec("n." + k, vals[k], F64))
        xs = [pspec("n.x", vals["x"], F64)]
        if x_list:
            xs = [pspec("n.x1", vals["x"][:1], F64), pspec("n.x2", vals["x"][1:], F64)]
            args["x"] = xs
        elif form == "dict":
            args["x"] = xs[0]
        else:
            args["x"] = "n.x"
            pre.append(xs[0])

        def direct():
            reg = {}
            ps = {k: T.Parameter("n." + k, T.torch.tensor(vals[k], dtype=T.torch.float64)) for k in ("loc", "scale")}
            xp = [T.Parameter(s["id"], T.torch.tensor(s["tensor"], dtype=T.torch.float64)) for s in xs]
            for p in list(ps.values()) + xp:
                reg[p.id] = p
            d = T.DeterministicNormal("dn", ps["loc"], ps["scale"], xp if x_list else xp[0], T.torch.Size(shape))
            reg["dn"] = d
            return d, reg

        return dict(args={"id_": "dn", **args, "shape": shape}, pre=pre,
                    make=lambda: T.DeterministicNormal.json_factory("dn", args["loc"], args["scale"], args["x"], shape),
                    direct=direct, kind="detnormal")

    return v


_detnormal("all-dict,shape=[]", "dict", [])
_detnormal("all-dict,shape=[4]", "dict", [4])
_detnormal("all-ref,shape=[2,3]", "ref", [2, 3])
_detnormal("x-list-of-dict,shape=[2]", "dict", [2], x_list=True)


# ---- ScaleMixtureNormal ------------------------------------------------------------------------------
def _mixture(name, form, loc_form, slab_form, documented=True):
    """form (of x, global_scale, local_scale): 'dict' | 'ref'; loc_form: 'number' | 'int' | 'dict' | 'ref';
    slab_form: None | 'dict' | 'ref' | 'number'"""
    vals = {"x": [0.5, -1.5, 2.0], "global_scale": [2.0], "local_scale": [0.5, 1.0, 0.25], "loc": [0.25], "slab": [1.5]}

    @variant("ScaleMixtureNormal", name, documented)
    def v(T):
        pre, args = [], {}
        forms = {"x": form, "global_scale": form, "local_scale": form, "loc": loc_form, "slab": slab_form}
        for k in ("x", "loc", "global_scale", "local_scale", "slab"):
            f = forms[k]
            if f is None:
                continue
            if f == "dict":
                args[k] = pspec("s." + k, vals[k], F64)
            elif f == "ref":
                args[k] = "s." + k
                pre.append(pspec("s." + k, vals[k], F64))
            elif f == "int":
                args[k] = 1
            else:
                args[k] = vals[k][0]

        def direct():
            reg, a = {}, {"slab": None}
            for k in ("x", "loc", "global_scale", "local_scale", "slab"):
                f = forms[k]
                if f is None:
                    continue
                if f in ("dict", "ref"):
                    a[k] = T.Parameter("s." + k, T.torch.tensor(vals[k], dtype=T.torch.float64))
                    reg["s." + k] = a[k]
                elif f == "int":
                    a[k] = 1.0
                else:  # constructor: loc / slab: Union[AbstractParameter, float]
                    a[k] = float(vals[k][0])
            m = T.ScaleMixtureNormal("mix", a["x"], a["loc"], a["global_scale"], a["local_scale"], a["slab"])
            reg["mix"] = m
            return m, reg

        pos = [args["x"], args["loc"], args["global_scale"], args["local_scale"]]
        kw = {"slab": args["slab"]} if "slab" in args else {}
        return dict(args={"id_": "mix", **args}, pre=pre,
                    make=lambda: T.ScaleMixtureNormal.json_factory("mix", *pos, **kw), direct=direct, kind="callable")

    return v


_mixture("all-dict,loc-number,no-slab (cli form)", "dict", "number", None)
_mixture("all-ref,loc-int,no-slab", "ref", "int", None)
_mixture("all-dict,loc-number,slab-dict", "dict", "number", "dict")
_mixture("all-ref,loc-number,slab-ref", "ref", "number", "ref")
_mixture("all-dict,loc-dict,no-slab", "dict", "dict", None)
_mixture("all-ref,loc-ref,slab-dict", "ref", "ref", "dict")
# a float slab works on neither path (loader and direct object both raise): remark only
_mixture("all-dict,loc-number,slab-number", "dict", "number", "number", documented=False)


# ----------------------------------------------------------------------------------------------- comparison
def _teq(T, a, b, what, exact=True):
    """-> list of differences between tensors a (loaded) and b (direct)"""
    torch = T.torch
    if not isinstance(a, torch.Tensor) or not isinstance(b, torch.Tensor):
        return [] if type(a) is type(b) and a == b else [f"{what}: loaded {a!r} vs direct {b!r}"]
    out = []
    if a.dtype != b.dtype:
        out.append(f"{what}: dtype loaded {a.dtype} vs direct {b.dtype}")
    if tuple(a.shape) != tuple(b.shape):
        out.append(f"{what}: shape loaded {tuple(a.shape)} vs direct {tuple(b.shape)}")
        return out
    if a.device != b.device:
        out.append(f"{what}: device loaded {a.device} vs direct {b.device}")
    if a.requires_grad != b.requires_grad:
        out.append(f"{what}: requires_grad loaded {a.requires_grad} vs direct {b.requires_grad}")
    if isinstance(a, torch.nn.Parameter) != isinstance(b, torch.nn.Parameter):
        out.append(f"{what}: nn.Parameter loaded {isinstance(a, torch.nn.Parameter)} vs direct "
                   f"{isinstance(b, torch.nn.Parameter)}")
    aa, bb = a.detach(), b.detach()
    if a.dtype != b.dtype:
        aa, bb = aa.to(torch.float64), bb.to(torch.float64)
    same = torch.equal(aa, bb) if exact else torch.allclose(aa, bb, rtol=RTOL, atol=0.0, equal_nan=True)
    if not same:
        if not exact or not (aa.dtype.is_floating_point and torch.allclose(aa, bb, rtol=RTOL, atol=0.0)):
            out.append(f"{what}: values loaded {aa.tolist()} vs direct {bb.tolist()}")
        else:
            out.append(f"{what}: values differ below rtol {RTOL}: loaded {aa.tolist()} vs direct {bb.tolist()}")
    return out


def _taxa_cmp(T, a, b, what):
    out = []
    if type(a) is not type(b):
        return [f"{what}: type loaded {type(a).__name__} vs direct {type(b).__name__}"]
    if isinstance(a, T.Taxa):
        if a.id != b.id or [t.id for t in a] != [t.id for t in b]:
            out.append(f"{what}: taxa loaded {a.id}:{[t.id for t in a]} vs direct {b.id}:{[t.id for t in b]}")
        elif [dict(t) for t in a] != [dict(t) for t in b]:
            out.append(f"{what}: taxon attributes loaded {[dict(t) for t in a]} vs direct {[dict(t) for t in b]}")
    elif isinstance(a, T.Taxon):
        if a.id != b.id or dict(a) != dict(b):
            out.append(f"{what}: taxon loaded {a.id}:{dict(a)} vs direct {b.id}:{dict(b)}")
    return out


def _registry_cmp(T, dic, reg, top_l):
    """the registry after loading vs what the helper's kwargs/defaults promise (keys of `reg`, values are the
    directly constructed twins)"""
    out = []
    want, have = set(reg), set(dic)
    if want - have:
        out.append(f"registry: promised ids missing {sorted(map(repr, want - have))} (has {sorted(map(repr, have))})")
    if have - want:
        out.append(f"registry: unexpected ids {sorted(map(repr, have - want))}")
    for k in want & have:
        if k == getattr(top_l, "id", None) and dic[k] is top_l:
            continue  # the top-level object itself: compared by _compare
        a, b = dic[k], reg[k]
        if type(a) is not type(b):
            out.append(f"registry[{k!r}]: type loaded {type(a).__name__} vs direct {type(b).__name__}")
            continue
        if getattr(a, "id", k) != k:
            out.append(f"registry[{k!r}]: holds an object whose id is {a.id!r}")
        if isinstance(a, (T.Taxa, T.Taxon)):
            out += _taxa_cmp(T, a, b, f"registry[{k!r}]")
        elif hasattr(a, "tensor") and not callable(a):
            out += _teq(T, a.tensor, b.tensor, f"registry[{k!r}].tensor")
    return out


def _by_name(T, tm):
    """what a tree model attaches to each TAXON, keyed by the taxon's name: leaf index (of the model's taxa and of the
    node of the parsed tree), the length of the leaf's branch, its sampling time"""
    names = list(tm.taxa)
    out = {"leaf index": {nm: i for i, nm in enumerate(names)},
           "leaf index of the tree node": {n.taxon.label: n.index for n in tm.tree.leaf_node_iter()}}
    bl = tm.branch_lengths().detach()
    out["leaf branch length"] = {nm: bl[..., i].tolist() for i, nm in enumerate(names)}
    if hasattr(tm, "sampling_times"):
        st = tm.sampling_times.detach()
        out["sampling time"] = {nm: st[..., i].tolist() for i, nm in enumerate(names)}
        nh = tm.node_heights.detach()
        out["leaf height"] = {nm: nh[..., i].tolist() for i, nm in enumerate(names)}
    return out


def _loglik(T, tm, names, clock=None):
    """JC69 tree log likelihood of the fixed alignment SEQS (keyed by taxon name) on the tree model; a time tree gets
    a clock with a DIFFERENT rate on every branch (indexed by node index, like the branch lengths)"""
    torch = T.torch
    m = names or NAMESETS["A-D"]
    taxa = tm._taxa
    have = [t.id for t in taxa]
    seqs = [T.Sequence(m[k], SEQS[k]) for k in sorted(SEQS) if m[k] in have]
    aln = T.Alignment("aln", seqs, taxa, T.NucleotideDataType(None))
    if clock is None and hasattr(tm, "sampling_times"):
        n = 2 * len(have) - 2
        r = torch.tensor(([0.5, 0.25, 1.0, 2.0, 0.125, 0.75] * n)[:n], dtype=tm.branch_lengths().dtype)
        clock = T.SimpleClockModel("clk", T.Parameter("clk.rates", r), tm)
    like = T.TreeLikelihoodModel("like", T.SitePattern("sp", aln), tm, T.JC69("jc"), T.ConstantSiteModel("sm"), clock)
    return like()


def _tree_extras(T, lo, do, names, exact=True, clocks=(None, None)):
    """positional payloads compared BY TAXON NAME, and a likelihood value.  clocks: the (loaded, direct) clock models
    when the helper under test is the clock's"""
    out = []
    a, b = _by_name(T, lo), _by_name(T, do)
    for side, clk in zip((a, b), clocks):
        if clk is not None:
            r = clk.rates.detach()
            side["rate of the leaf branch"] = {nm: r[..., i].tolist() for i, nm in enumerate(list(clk.tree.taxa))}
    for k in b:
        if a.get(k) != b[k]:
            if exact or not isinstance(next(iter(b[k].values()), None), float) or any(
                    x not in a.get(k, {}) or abs(a[k][x] - b[k][x]) > RTOL * abs(b[k][x]) for x in b[k]):
                out.append(f"{k} by taxon name: loaded {a.get(k)} vs direct {b[k]}")
    sides = {}
    for nm, o, clk in (("loaded", lo, clocks[0]), ("direct", do, clocks[1])):
        try:
            sides[nm] = _loglik(T, o, names, clk)
        except Exception as e:  # noqa: BLE001
            sides[nm] = _exc(e)
    la, lb = sides["loaded"], sides["direct"]
    if isinstance(la, str) or isinstance(lb, str):
        if la != lb:   # (both raising alike: the class cannot be used in a likelihood this way; not a difference)
            out.append(f"JC69 tree log likelihood: loaded {la if isinstance(la, str) else la.tolist()} vs direct "
                       f"{lb if isinstance(lb, str) else lb.tolist()}")
    else:
        out += _teq(T, la, lb, "JC69 tree log likelihood", exact)
    return out


def _compare(T, kind, lo, do, dic, reg, exact=True, names=None):
    """lo: loaded object, do: directly constructed object"""
    out = []
    if type(lo) is not type(do):
        return [f"type: loaded {type(lo).__name__} vs direct {type(do).__name__}"]
    if lo.id != do.id:
        out.append(f"id: loaded {lo.id!r} vs direct {do.id!r}")
    if dic.get(lo.id) is not lo:
        out.append(f"registry[{lo.id!r}] is not the loaded object")
    if kind == "param":
        out += _teq(T, lo.tensor, do.tensor, "tensor")
        if tuple(lo.shape) != tuple(do.shape):
            out.append(f"shape: loaded {tuple(lo.shape)} vs direct {tuple(do.shape)}")
    elif kind in ("tree", "timetree", "reparam"):
        out += _teq(T, lo.branch_lengths(), do.branch_lengths(), "branch_lengths()", exact)
        if [tuple(x) for x in lo.postorder] != [tuple(x) for x in do.postorder]:
            out.append(f"postorder: loaded {lo.postorder} vs direct {do.postorder}")
        if lo.taxa != do.taxa:
            out.append(f"taxa: loaded {lo.taxa} vs direct {do.taxa}")
        if lo.taxa_count != do.taxa_count:
            out.append(f"taxa_count: loaded {lo.taxa_count} vs direct {do.taxa_count}")
        if lo.as_newick() != do.as_newick() and exact:
            out.append(f"as_newick(): loaded {lo.as_newick()} vs direct {do.as_newick()}")
        if kind != "tree":
            out += _teq(T, lo.node_heights, do.node_heights, "node_heights", exact)
            out += _teq(T, lo.sampling_times, do.sampling_times, "sampling_times")
            out += _teq(T, lo.preorder, do.preorder, "preorder")
            ld = [(getattr(n, "date", None), getattr(n, "original_date", None), n.index) for n in lo.tree.leaf_node_iter()]
            dd = [(getattr(n, "date", None), getattr(n, "original_date", None), n.index) for n in do.tree.leaf_node_iter()]
            if ld != dd:
                out.append(f"leaf dates: loaded {ld} vs direct {dd}")
        if kind == "reparam":
            if type(lo.transform) is not type(do.transform):
                out.append(f"transform: loaded {type(lo.transform).__name__} vs direct {type(do.transform).__name__}")
            out += _teq(T, lo(), do(), "log|det J| = obj()", exact)
            out += _teq(T, lo._internal_heights.tensor, do._internal_heights.tensor, "ratios/root or shifts", exact)
        out += _tree_extras(T, lo, do, names, exact)
    elif kind == "callable":
        out += _teq(T, lo(), do(), "obj()")
        if tuple(lo.sample_shape) != tuple(do.sample_shape):
            out.append(f"sample_shape: loaded {tuple(lo.sample_shape)} vs direct {tuple(do.sample_shape)}")
    elif kind == "detnormal":
        out += _teq(T, lo(), do(), "obj()")
        out += _teq(T, lo.eps, do.eps, "eps (same seed)")
        out += _teq(T, lo.entropy(), do.entropy(), "entropy()")
        lo.rsample()
        do.rsample()
        out += _teq(T, lo.x.tensor, do.x.tensor, "x after rsample() (same seed)")
        out += _teq(T, lo(), do(), "obj() after rsample()")
    elif kind == "clock":
        out += _teq(T, lo.rates, do.rates, "rates")
        if lo.tree.id != do.tree.id or type(lo.tree) is not type(do.tree):
            out.append(f"tree: loaded {lo.tree.id!r} vs direct {do.tree.id!r}")
        else:
            out += _teq(T, lo.tree.branch_lengths(), do.tree.branch_lengths(), "tree.branch_lengths()")
            out += _tree_extras(T, lo.tree, do.tree, names, clocks=(lo, do))
        if tuple(lo.sample_shape) != tuple(do.sample_shape):
            out.append(f"sample_shape: loaded {tuple(lo.sample_shape)} vs direct {tuple(do.sample_shape)}")
    else:
        raise ValueError(kind)
    out += _registry_cmp(T, dic, reg, lo)
    return out


# ----------------------------------------------------------------------------------------------- execution
class _Cap(logging.Handler):
    """collects what the loader logs (from_json_safe logs the inner error before re-raising a generic one)"""

    def __init__(self):
        super().__init__()
        self.msgs = []

    def emit(self, record):
        try:
            self.msgs.append(str(record.msg).replace("\n", " "))
        except Exception:  # noqa: BLE001
            pass


def _exc(e):
    s = f"{type(e).__name__}: {e}".replace("\n", " ")
    return s[:200]


def _jsonable(x):
    try:
        json.dumps(x)
        return x
    except (TypeError, ValueError):
        if isinstance(x, dict):
            return {str(k): _jsonable(v) for k, v in x.items()}
        if isinstance(x, (list, tuple)):
            return [_jsonable(v) for v in x]
        return repr(x)


def run_variant(T, U, fn):
    """-> (args, diffs).  Never raises."""
    torch = T.torch
    try:
        plan = fn(T)
    except Exception as e:  # noqa: BLE001  (a bug of this harness, but never crash)
        return None, ["harness: building the variant raised " + _exc(e)]
    args = _jsonable(plan["args"])
    diffs = []
    root = logging.getLogger()
    old_handlers, old_level = root.handlers[:], root.level
    cap = _Cap()
    root.handlers[:] = [cap]
    try:
        with torch.random.fork_rng(devices=[]):
            # ---- direct construction
            do = reg = None
            try:
                torch.manual_seed(20260926)
                do, reg = plan["direct"]()
            except Exception as e:  # noqa: BLE001
                diffs.append("direct construction raised " + _exc(e))
            # ---- helper -> JSON -> loader
            lo = dic = None
            stage = "helper"
            try:
                spec = plan["make"]()
                stage = "json round trip of the helper's output"
                text = json.dumps(spec, allow_nan=False)
                spec2 = json.loads(text)
                if json.dumps(spec2, allow_nan=False) != text:
                    diffs.append("helper output is not stable under a JSON round trip")
                stage = "loading the referenced objects"
                dic = {}
                for p in plan["pre"]:
                    U.process_objects(json.loads(json.dumps(p)), dic)
                stage = "loading the helper's output (process_objects)"
                torch.manual_seed(20260926)
                lo = U.process_objects(spec2, dic)
            except Exception as e:  # noqa: BLE001
                how = ""
                if do is not None:
                    try:
                        val = do() if callable(do) else (do.tensor if hasattr(do, "tensor") else do.branch_lengths())
                        how = f"; the directly constructed object evaluates to {val.tolist()}"
                    except Exception as e2:  # noqa: BLE001
                        how = "; evaluating the directly constructed object raises " + _exc(e2)
                inner = [m for m in cap.msgs if m and m not in str(e)]
                why = f" (logged by the loader: {' | '.join(inner)[:200]})" if inner else ""
                diffs.append(f"{stage} raised {_exc(e)}{why}{how}")
                lo = None
            # ---- compare
            if lo is not None and do is not None:
                try:
                    diffs += _compare(T, plan["kind"], lo, do, dic, reg, exact=plan.get("exact", True),
                                      names=plan.get("names"))
                except Exception as e:  # noqa: BLE001
                    # who raises?  evaluate each side alone
                    sides = {}
                    for nm, o in (("loaded", lo), ("direct", do)):
                        try:
                            _compare(T, plan["kind"], o, o, {o.id: o}, {})
                        except Exception as e1:  # noqa: BLE001
                            sides[nm] = _exc(e1)
                    if len(sides) == 2 and sides["loaded"] == sides["direct"]:
                        # the class itself cannot evaluate this form; both objects fail alike: not a difference
                        diffs += _registry_cmp(T, dic, reg, lo)
                        plan["both_raise"] = sides["loaded"]
                    else:
                        diffs.append("evaluation raised " + ("; ".join(f"{k} object: {v}" for k, v in sides.items())
                                                             if sides else _exc(e)))
    except Exception as e:  # noqa: BLE001
        diffs.append("harness: " + _exc(e))
    finally:
        root.handlers[:] = old_handlers
        root.level = old_level
    return args, diffs


def run(ck, U, found):
    """see the module docstring"""
    try:
        T = _imports()
    except Exception as e:  # noqa: BLE001
        found.append(("factory:import:torchtree", {"helper": "import", "variant": "torchtree", "args": None}, None,
                      "importing the classes that carry json_factory raised " + _exc(e)))
        return
    n = 0
    per_helper = {}
    remarks = []
    for helper, name, fn, documented in VARIANTS:
        args, diffs = run_variant(T, U, fn)
        n += 1
        per_helper[helper] = per_helper.get(helper, 0) + 1
        ck.case(key=("factory", helper, name), bucket="factory/" + helper, sample=None)
        if not diffs:
            continue
        what = "; ".join(diffs)[:700]
        if documented and not all(d.startswith("harness:") for d in diffs):
            found.append((f"factory:{helper}:{name}", {"helper": helper, "variant": name, "args": args}, None, what))
        else:
            remarks.append(f"{helper}[{name}]: {what[:260]}")
    ck.extra["factory_variants"] = n
    ck.extra["factory_variants_per_helper"] = per_helper
    ck.extra["factory_undocumented_remarks"] = remarks
    ck.notes.append(
        f"json_factory: {n} helper x argument-form variants over {len(per_helper)} helpers loaded through the real "
        "loader and compared with direct construction"
    )
    ck.notes.append(
        "json_factory: TimeTreeModel / FlexibleTimeTreeModel.json_factory give the internal-heights parameter the id "
        "None unless internal_heights_id is passed (it is registered under the key None; two such trees in one "
        "file collide)"
    )
    for r in remarks:
        ck.notes.append("json_factory remark (undocumented argument form, not counted): " + r)


def replay_case(case: dict) -> int:
    """re-run one recorded {"helper","variant"} case, print what differs, return 1 if it differs else 0"""
    import os
    import sys

    repo = os.environ.get("TT_REPO", "/repo")
    if repo in sys.path:
        sys.path.remove(repo)
    sys.path.insert(0, repo)
    import torchtree.core.utils as U

    T = _imports()
    helper, name = case.get("helper"), case.get("variant")
    hits = [(h, v, fn, d) for h, v, fn, d in VARIANTS if h == helper and v == name]
    if not hits:
        print(f"no such json_factory case: {helper} / {name}")
        return 1
    _, _, fn, documented = hits[0]
    args, diffs = run_variant(T, U, fn)
    print(f"{helper}.json_factory  variant: {name}" + ("" if documented else "  (undocumented form)"))
    print("  helper arguments:", json.dumps(args))
    try:
        print("  specification   :", json.dumps(fn(T)["make"]()))
    except Exception as e:  # noqa: BLE001
        print("  helper raised   :", _exc(e))
    if diffs:
        for d in diffs:
            print("  DIFFERS:", d)
        return 1
    print("  loaded object evaluates like the directly constructed one")
    return 0


if __name__ == "__main__":  # stand-alone: python c13_factory.py [helper [variant]]
    import random
    import sys

    import os

    sys.path.insert(0, os.environ.get("TT_REPO", "/repo"))

    class _CK:
        def __init__(self):
            self.rng, self.notes, self.extra, self.n = random.Random(0), [], {}, 0

        def case(self, **k):
            self.n += 1

    if len(sys.argv) >= 3:
        sys.exit(replay_case({"helper": sys.argv[1], "variant": sys.argv[2]}))
    import torchtree.core.utils as _U

    _ck, _found = _CK(), []
    run(_ck, _U, _found)
    print(_ck.n, "variants;", len(_found), "differ")
    for f in _found:
        print(" ", f[0], "::", f[3][:400])
    for r in _ck.extra.get("factory_undocumented_remarks", []):
        print("  remark:", r)
