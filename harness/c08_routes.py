"""C08 — HOW the object under test is reached (fourth-wave checklist): construction routes, dtype regimes, grad modes,
input immutability, repeatability / second instance / deepcopy, batch size equal to another dimension, special but
valid values, minimum sizes, failure paths.  Every value is compared with the declarative Kingman oracle
(c08.oracle_value) and with the keyword-constructed object; everything the implementation returns is validated before
use (wrong type / shape = recorded finding, never an exception)."""
from __future__ import annotations

import copy
import math
import re
from fractions import Fraction as F

import c08_gen as G
from c08 import (FX, T, T2, close, distribution, enc_case, h2f, make_case, model_request, observe, oracle_value)
from common import REPO

KINDS = ("constant", "exponential", "skyride", "skygrid", "linear")


def _ctor(kind):
    import torchtree.evolution.coalescent as C

    return {"constant": C.ConstantCoalescentModel, "exponential": C.ExponentialCoalescentModel,
            "skyride": C.PiecewiseConstantCoalescentModel, "skygrid": C.PiecewiseConstantCoalescentGridModel,
            "linear": C.PiecewiseLinearCoalescentGridModel}[kind]


def _scalar(v):
    """float of a 1-element tensor, or None when the implementation returned something else"""
    import torch

    if not isinstance(v, torch.Tensor) or v.numel() != 1:
        return None
    return float(v.reshape(-1)[0])


# ----------------------------------------------------------------------------- 1. construction routes
def routes(R, rng, kind, n):
    import torch
    import torchtree.evolution.coalescent as C
    from torchtree import Parameter
    from torchtree.core.utils import process_object

    ck = R.ck
    case = make_case(rng, kind, n, flat=False)
    samp, coal = case["samp"], case["coal"]
    ctor = _ctor(kind)
    o, scale = oracle_value(case)

    def P(id_, vals):
        return Parameter(id_, T(vals))

    def fake():
        return C.FakeTreeModel(P("heights", samp + coal))

    built = {}
    # keyword and positional constructors
    try:
        if kind in ("constant", "skyride"):
            built["keyword"] = ctor(id_="c", theta=P("theta", case["thetas"]), tree_model=fake())
            built["positional"] = ctor("c", P("theta", case["thetas"]), fake())
        elif kind == "exponential":
            built["keyword"] = ctor(id_="c", theta=P("theta", case["thetas"]), growth=P("growth", [case["growth"]]), tree_model=fake())
            built["positional"] = ctor("c", P("theta", case["thetas"]), P("growth", [case["growth"]]), fake())
            built["keyword-reordered"] = ctor(tree_model=fake(), growth=P("growth", [case["growth"]]), theta=P("theta", case["thetas"]), id_="c")
        else:
            built["keyword"] = ctor(id_="c", theta=P("theta", case["thetas"]), grid=P("grid", case["grid"]), tree_model=fake())
            built["positional"] = ctor("c", P("theta", case["thetas"]), P("grid", case["grid"]), fake())
            built["keyword-reordered"] = ctor(tree_model=fake(), grid=P("grid", case["grid"]), theta=P("theta", case["thetas"]), id_="c")
            if kind == "skygrid":
                built["keyword-temperature-None"] = ctor(id_="c", theta=P("theta", case["thetas"]), grid=P("grid", case["grid"]),
                                                         tree_model=fake(), temperature=None)
    except Exception as e:
        R.violation(f"{ctor.__name__}.__init__:raises", f"constructor raises {type(e).__name__}: {str(e)[:120]}", case, size=n)
        return
    # JSON routes
    ev = sorted([(t, 1) for t in samp] + [(t, 0) for t in coal], key=lambda p: (p[0], -p[1]))
    theta_js = {"id": "theta", "type": "Parameter", "tensor": [float(x) for x in case["thetas"]], "dtype": "torch.float64"}
    data = {"times": [float(t) for t, _ in ev], "events": [e for _, e in ev]}

    def js(type_name, theta, extra_order):
        d = {"id": "c", "type": type_name, "theta": theta}
        if kind == "exponential":
            d["growth"] = {"id": "growth", "type": "Parameter", "tensor": [float(case["growth"])], "dtype": "torch.float64"}
        if "grid" in case:
            d["grid"] = [float(x) for x in case["grid"]]
        d.update(data)
        if extra_order:
            items = list(d.items())
            rng.shuffle(items)
            d = dict(items)
        return d

    short, full = ctor.__name__, "torchtree.evolution.coalescent." + ctor.__name__
    jroutes = {
        "from_json": lambda: ctor.from_json(js(short, dict(theta_js), False), {}),
        "process_object/short-type": lambda: process_object(js(short, dict(theta_js), False), {}),
        "process_object/full-type": lambda: process_object(js(full, dict(theta_js), False), {}),
        "process_object/shuffled-keys": lambda: process_object(js(short, dict(theta_js), True), {}),
    }

    def referenced():
        dic = {}
        process_object(dict(theta_js), dic)
        return process_object(js(short, "theta", False), dic)

    jroutes["process_object/referenced-theta"] = referenced
    if "grid" in case:
        def grid_param():
            d = js(short, dict(theta_js), False)
            d["grid"] = {"id": "grid", "type": "Parameter", "tensor": [float(x) for x in case["grid"]], "dtype": "torch.float64"}
            return process_object(d, {})

        jroutes["process_object/grid-as-parameter"] = grid_param
    for name, f in jroutes.items():
        try:
            built[name] = f()
        except Exception as e:
            R.violation(f"{ctor.__name__}:route:{name}:raises", f"{ctor.__name__} built through {name} raises {type(e).__name__}: {str(e)[:120]}",
                        case, {"route": name}, size=n)
    ref = None
    for name, m in built.items():
        ck.case(key=("route", kind, name, n, tuple(samp), tuple(coal), tuple(case["thetas"])), bucket=f"route/{kind}/{name}")
        try:
            v = _scalar(m())
        except Exception as e:
            R.violation(f"{ctor.__name__}:route:{name}:raises", f"{ctor.__name__} built through {name}: evaluation raises {type(e).__name__}: {str(e)[:120]}",
                        case, {"route": name}, size=n)
            continue
        # observably the object the options name: decided by its VALUE below (Kingman density of the described model);
        # the parameters it holds are compared too when the public attributes are there
        have, held = observe(ck, "model.theta/grid/growth", lambda: (FX(m.theta.tensor), FX(m.grid.tensor) if "grid" in case else None,
                                                                    FX(m.growth.tensor) if kind == "exponential" else None))
        th, gr, gw = held if have else (None, None, None)
        named_ok = not have or (th == [F(float(x)) for x in case["thetas"]] and (gr is None or gr == [F(float(x)) for x in case["grid"]]) and (
            gw is None or gw == [F(float(case["growth"]))]))
        if not named_ok:
            R.violation(f"{ctor.__name__}:route:{name}:options", f"{ctor.__name__} built through {name} does not hold the values it was given "
                        f"(theta {[float(x) for x in th]}, grid {None if gr is None else [float(x) for x in gr]}, growth {gw})", case, {"route": name}, size=n)
        if v is None or not close(v, o, 1e-10, scale):
            R.violation(f"{ctor.__name__}:route:{name}:value", f"{ctor.__name__} built through {name} evaluates to {v!r}; Kingman density {o!r}", case,
                        {"route": name, "impl": v, "oracle": o}, size=n)
        if ref is None:
            ref = v
        elif v is not None and ref is not None and v != ref:
            if not close(v, ref, 1e-13, abs(ref)):
                R.violation(f"{ctor.__name__}:route:{name}:differs", f"{ctor.__name__} built through {name} gives {v!r}, the keyword constructor {ref!r}",
                            case, {"route": name}, size=n)


# ----------------------------------------------------------------------------- 2. dtype regimes
def dtype_regimes(R, rng, kind, n):
    import torch

    ck = R.ck
    soft_t = kind == "softtemp"
    case = make_case(rng, "softgrid" if soft_t else kind, n, flat=False)
    if soft_t:
        # the relaxed skygrid is not a Kingman density: the float64 evaluation is the reference
        case["temperature"] = "1/10"
        o = float(distribution(case).log_prob(T(case["samp"] + case["coal"])).reshape(-1)[0])
        scale = abs(o)
    else:
        o, scale = oracle_value(case)
    cls = type(distribution(case)).__name__ + ("(temperature)" if soft_t else "")
    saved = torch.get_default_dtype()
    try:
        for default, inp in ((torch.float32, torch.float64), (torch.float64, torch.float32), (torch.float64, torch.float64)):
            torch.set_default_dtype(default)
            name = f"default={str(default)[6:]}/inputs={str(inp)[6:]}"
            ck.case(key=("dtype", kind, name, n, tuple(case["coal"])), bucket=f"dtype/{kind}/{name}")
            try:
                d = distribution(case)
                for attr in ("theta", "grid", "growth"):
                    if hasattr(d, attr) and getattr(d, attr) is not None:
                        setattr(d, attr, getattr(d, attr).to(inp))
                v = d.log_prob(T(case["samp"] + case["coal"]).to(inp))
            except Exception as e:
                R.violation(f"{cls}.log_prob:dtype:{name}:raises",
                            f"{cls}.log_prob raises with torch default dtype {default} and {inp} inputs: {type(e).__name__}: {str(e)[:120]}",
                            case, {"default_dtype": str(default), "input_dtype": str(inp)}, size=n)
                continue
            val = _scalar(v)
            tol = 1e-10 if inp == torch.float64 else 2e-5
            ck.bucket(f"dtype-result/{name}/{str(v.dtype)[6:] if hasattr(v, 'dtype') else type(v).__name__}")
            if val is None or not close(val, o, tol, scale):
                R.violation(f"{cls}.log_prob:dtype:{name}:value",
                            f"{cls}.log_prob with default dtype {default} and {inp} inputs gives {val!r}; Kingman density {o!r}", case,
                            {"default_dtype": str(default), "input_dtype": str(inp), "impl": val, "oracle": o}, size=n)
            elif inp == torch.float64 and v.dtype != torch.float64:
                R.violation(f"{cls}.log_prob:dtype:{name}:precision-lost", f"float64 inputs give a {v.dtype} result", case, size=n)
        if soft_t:
            return
        # integer node heights where the API accepts them (small-integer times)
        torch.set_default_dtype(torch.float32)
        icase = dict(case, samp=[F(int(math.floor(float(x)))) for x in case["samp"]])
        allt = sorted(set(icase["samp"]))
        icoal, t = [], max(allt) + 1
        for _ in case["coal"]:
            icoal.append(F(t))
            t += 1
        icase["coal"] = icoal
        if "grid" in icase:
            icase["grid"] = [g for g in icase["grid"] if g not in icoal] or [F(1, 2)]
            icase["thetas"] = (icase["thetas"] * 3)[: len(icase["grid"]) + 1]
        try:
            d = distribution(icase)
            hv = torch.tensor([int(x) for x in icase["samp"] + icase["coal"]])
            v = _scalar(d.log_prob(hv))
            oi, si = oracle_value(icase)
            ck.case(key=("dtype-int", kind, n, tuple(icase["coal"])), bucket=f"dtype/{kind}/integer-heights")
            if v is None or not close(v, oi, 1e-10, si):
                R.violation(f"{cls}.log_prob:dtype:integer-heights:value", f"{cls}.log_prob on integer-typed heights gives {v!r}; Kingman density {oi!r}",
                            icase, {"impl": v, "oracle": oi}, size=n)
        except Exception as e:
            ck.bucket(f"dtype/{kind}/integer-heights-rejected:{type(e).__name__}")
    finally:
        torch.set_default_dtype(saved)


def scan_constructors():
    """tensor constructors without dtype/device in the anchored file (listed in the evidence)"""
    out = []
    pat = re.compile(r"torch\.(tensor|zeros|ones|full|arange|linspace|empty|eye)\(")
    src = (REPO / "torchtree" / "evolution" / "coalescent.py").read_text().splitlines()
    for i, line in enumerate(src, 1):
        if pat.search(line):
            window = " ".join(src[i - 1: i + 4])
            call = window[window.index("torch."):]
            depth, end = 0, len(call)
            for j, ch in enumerate(call):
                if ch == "(":
                    depth += 1
                elif ch == ")":
                    depth -= 1
                    if depth == 0:
                        end = j
                        break
            if "dtype" not in call[:end] and "**mask_attributes" not in call[:end]:
                out.append(f"coalescent.py:{i}: {line.strip()[:90]}")
    return out


# ----------------------------------------------------------------------------- 3 + 4. grad modes, immutability
def grad_modes_and_immutability(R, rng, kind, n):
    import torch

    ck = R.ck
    case = make_case(rng, kind, n, flat=False)
    cls = type(distribution(case)).__name__
    h0 = T(case["samp"] + case["coal"])
    tensors = {"heights": h0.clone(), "theta": T(case["thetas"])}
    if "grid" in case:
        tensors["grid"] = T(case["grid"])
    if kind == "exponential":
        tensors["growth"] = T([case["growth"]])

    def evaluate(mode):
        ts = {k: v.clone() for k, v in tensors.items()}
        if mode == "requires_grad":
            for k in ts:
                if k != "grid":
                    ts[k].requires_grad_(True)
        before = {k: v.detach().clone() for k, v in ts.items()}
        d = distribution(case, thetas=ts["theta"], growth=ts.get("growth"))
        if "grid" in ts:
            d.grid = ts["grid"]
        if mode == "no_grad":
            with torch.no_grad():
                v = d.log_prob(ts["heights"])
        else:
            v = d.log_prob(ts["heights"])
        changed = [k for k in ts if not torch.equal(ts[k].detach(), before[k])]
        return v, changed

    vals = {}
    for mode in ("no_grad", "enabled", "requires_grad"):
        ck.case(key=("gradmode", kind, mode, n, tuple(case["coal"])), bucket=f"grad-mode/{kind}/{mode}")
        try:
            v, changed = evaluate(mode)
        except Exception as e:
            R.violation(f"{cls}.log_prob:grad-mode:{mode}:raises", f"{cls}.log_prob raises under {mode}: {type(e).__name__}: {str(e)[:120]}", case, size=n)
            continue
        vals[mode] = _scalar(v.detach() if hasattr(v, "detach") else v)
        if changed:
            R.violation(f"{cls}.log_prob:mutates-input", f"{cls}.log_prob ({mode}) modified the tensor(s) it was given: {changed}", case,
                        {"mode": mode, "changed": changed}, size=n)
    ref = vals.get("enabled")
    for mode, v in vals.items():
        if v is None or ref is None or (v != ref and not (math.isnan(v) and math.isnan(ref))):
            R.violation(f"{cls}.log_prob:grad-mode:{mode}:differs", f"{cls}.log_prob under {mode} gives {v!r}, with autograd enabled {ref!r} (must agree bitwise)",
                        case, {"values": vals}, size=n)


# ----------------------------------------------------------------------------- 5. second instance, repeat, deepcopy
def repeat_and_copies(R, rng, kind, n):
    import torch
    import torchtree.evolution.coalescent as C
    from torchtree import Parameter

    ck = R.ck
    ctor = _ctor(kind)

    def build(case):
        tree = C.FakeTreeModel(Parameter("heights", T(case["samp"] + case["coal"])))
        th = Parameter("theta", T(case["thetas"]))
        if kind in ("constant", "skyride"):
            return ctor("c", th, tree), {"theta": th}
        if kind == "exponential":
            g = Parameter("growth", T([case["growth"]]))
            return ctor("c", th, g, tree), {"theta": th, "growth": g}
        gp = Parameter("grid", T(case["grid"]))
        return ctor("c", th, gp, tree), {"theta": th, "grid": gp}

    a = make_case(rng, kind, n, flat=False)
    # a second case with EXACTLY the same shapes (a memo keyed by shape would serve the first one's structure)
    b = make_case(rng, kind, n, flat=False)
    if "grid" in a:
        for _ in range(50):
            if len(b["grid"]) == len(a["grid"]):
                break
            b = make_case(rng, kind, n, flat=False)
        else:
            return
    try:
        ma, pa = build(a)
        va1 = _scalar(ma())
        va2 = _scalar(ma())
        have_d, dist_a = observe(ck, "model.distribution()/tree_model", lambda: (ma.distribution(), ma.tree_model.node_heights))
        da = _scalar(dist_a[0].log_prob(dist_a[1])) if have_d else None
        mb, pb = build(b)
        vb = _scalar(mb())
        va3 = _scalar(ma())
        mc = copy.deepcopy(ma)
        new_theta = [G.pow2(rng) for _ in a["thetas"]]
        if kind == "linear":
            for i in range(1, len(new_theta)):
                while new_theta[i] == new_theta[i - 1]:
                    new_theta[i] = G.pow2(rng)
        have_c, th_c = observe(ck, "deepcopy.theta", lambda: mc.theta)
        if have_c:
            th_c.tensor = T(new_theta)
        vc = _scalar(mc())
        va4 = _scalar(ma())
    except Exception as e:
        R.violation(f"{ctor.__name__}:history:raises", f"{type(e).__name__}: {str(e)[:120]}", a, size=n)
        return
    ck.case(key=("second-instance", kind, n, tuple(a["coal"]), tuple(b["coal"])), bucket=f"history/{kind}/repeat+second-instance+deepcopy")
    oa, sa = oracle_value(a)
    ob, sb = oracle_value(b)
    oc, sc = oracle_value(dict(a, thetas=new_theta))
    checks = [("first evaluation", va1, oa, sa), ("same call again", va2, oa, sa), ("distribution().log_prob", da, oa, sa),
              ("second object of the same shapes built later", vb, ob, sb), ("first object after the second was used", va3, oa, sa),
              ("deepcopy with a new theta", vc, oc, sc), ("original after its deepcopy was updated", va4, oa, sa)]
    if not have_d:
        checks = [c for c in checks if c[0] != "distribution().log_prob"]
    if not have_c:
        checks = [c for c in checks if c[0] != "deepcopy with a new theta"]
    for what, v, o, sc_ in checks:
        if v is None or not close(v, o, 1e-10, sc_):
            R.violation(f"{ctor.__name__}:history:{what.replace(' ', '-')}", f"{ctor.__name__}: {what}: {v!r}, Kingman density {o!r}", a,
                        {"second_case": enc_case(b), "new_theta": [float(x) for x in new_theta]}, size=n)


# ----------------------------------------------------------------------------- 6. batch size equal to another dimension
def batch_equals_dimension(R, rng, kind):
    """the number of samples equals the number of taxa, of node heights, or of population sizes"""
    import torch

    ck = R.ck
    for which in ("taxa", "heights", "thetas"):
        n = rng.randint(2, 4)
        base = make_case(rng, kind, n, flat=False)
        B = {"taxa": n, "heights": 2 * n - 1, "thetas": len(base["thetas"])}[which]
        if B < 2:
            continue
        rows = []
        for _ in range(B):
            c = make_case(rng, kind, n, flat=False)
            if "grid" in base:
                c["grid"] = base["grid"]
                c["thetas"] = [G.pow2(rng) for _ in base["thetas"]]
                for i in range(1, len(c["thetas"])):
                    while c["thetas"][i] == c["thetas"][i - 1]:
                        c["thetas"][i] = G.pow2(rng)
            rows.append(c)
        if "grid" in base and any(gp in c["coal"] for c in rows for gp in base["grid"]):
            continue
        cls = type(distribution(base)).__name__
        ck.case(key=("batch=dim", kind, which, n, B), bucket=f"batched/{kind}/B=number-of-{which}")
        try:
            th = T2([c["thetas"] for c in rows])
            gr = T2([[c["growth"]] for c in rows]) if kind == "exponential" else None
            out = distribution(base, thetas=th, growth=gr).log_prob(T2([c["samp"] + c["coal"] for c in rows]))
            vals = [float(x) for x in out.reshape(-1).tolist()]
        except Exception as e:
            R.violation(f"{cls}.log_prob:batch=dim:raises", f"batch of {B} (= number of {which}) raises {type(e).__name__}: {str(e)[:120]}", base, size=n)
            continue
        if len(vals) != B:
            R.violation(f"{cls}.log_prob:batch=dim:shape", f"batch of {B} (= number of {which}) returns {len(vals)} values", base, size=n)
            continue
        for s, c in enumerate(rows):
            o, scale = oracle_value(c)
            if not close(vals[s], o, 1e-10, scale):
                R.violation(f"{cls}.log_prob:batch=dim:value", f"batch of {B} (= number of {which}) row {s}: {vals[s]!r}, Kingman density {o!r}", c,
                            {"batch": [enc_case(x) for x in rows], "special_row": -1}, size=n)


# ----------------------------------------------------------------------------- 7. special but valid values, minimum sizes
def special_values(R, rng, kind, n):
    ck = R.ck
    variants = []
    base = make_case(rng, kind, n, flat=False)
    # population size exactly 1 (log = 0), non-dyadic decimals, nearly tied times (relative tolerance)
    one = dict(base, thetas=[F(1)] * len(base["thetas"]))
    if kind == "linear" or kind == "skygrid" or kind == "skyride":
        one["thetas"] = [F(1) if i % 2 == 0 else F(3) for i in range(len(base["thetas"]))]
    variants.append(("theta=1", one))
    dec = dict(base, thetas=[F(rng.randint(11, 97), 10) for _ in base["thetas"]],
               samp=[x * F(7, 10) for x in base["samp"]], coal=[x * F(7, 10) for x in base["coal"]])
    if "grid" in base:
        dec["grid"] = [x * F(7, 10) + F(1, 1000) for x in base["grid"]]
    if kind == "linear":
        ths = dec["thetas"]
        for i in range(1, len(ths)):
            if ths[i] == ths[i - 1]:
                ths[i] += F(1, 10)
    variants.append(("non-dyadic-decimals", dec))
    eps = F(1, 10 ** 9)
    near = dict(base, coal=[c + (eps if i == 0 else 0) for i, c in enumerate(base["coal"])])
    variants.append(("nearly-tied-times", near))
    if kind in ("skygrid", "linear"):
        variants.append(("no-grid-point(one-piece)", dict(base, grid=[], thetas=base["thetas"][:1])))
        variants.append(("one-grid-point", dict(base, grid=[max(base["coal"]) / 2 + F(1, 64)], thetas=base["thetas"][:1] + [base["thetas"][0] * 2])))
    for name, c in variants:
        if "grid" in c and any(gp in c["coal"] for gp in c["grid"]):
            continue
        cls = type(distribution(c)).__name__
        ck.case(key=("special", kind, name, n, tuple(c["coal"]), tuple(c["thetas"])), bucket=f"special-values/{kind}/{name}")
        try:
            v = _scalar(distribution(c).log_prob(T(c["samp"] + c["coal"])))
        except Exception as e:
            R.violation(f"{cls}.log_prob:special:{name}:raises", f"{cls}.log_prob raises on the valid input '{name}': {type(e).__name__}: {str(e)[:120]}", c, size=n)
            continue
        o, scale = oracle_value(c)
        if v is None or not close(v, o, 1e-9 if name != "theta=1" else 1e-10, scale):
            R.violation(f"{cls}.log_prob:special:{name}:value", f"{cls}.log_prob on '{name}' gives {v!r}; Kingman density {o!r}", c,
                        {"impl": v, "oracle": o}, size=n)


# ----------------------------------------------------------------------------- 8. failure paths
def failure_paths(R, rng):
    """inputs that cannot be evaluated must raise, not return a number: too few population sizes, an even number of
    node heights.  (Too MANY population sizes are accepted silently by the distributions — recorded, no verdict:
    `from_json` of the grid models asserts the length, the skyride does not.)"""
    import torch
    import torchtree.evolution.coalescent as C

    ck = R.ck
    case = make_case(rng, "skygrid", 4, flat=False)
    h = T(case["samp"] + case["coal"])
    grid = T(case["grid"])
    table = {
        "skygrid/theta-too-short": lambda: C.PiecewiseConstantCoalescentGrid(T(case["thetas"][:-1]), grid).log_prob(h),
        "skyride/theta-too-short": lambda: C.PiecewiseConstantCoalescent(T([1, 2])).log_prob(h),
        "linear/theta-too-short": lambda: C.PiecewiseLinearCoalescentGrid(T(case["thetas"][:-1]), grid).log_prob(h),
        "constant/even-number-of-heights": lambda: C.ConstantCoalescent(T([2])).log_prob(h[:-1]),
    }
    for name, f in table.items():
        ck.case(key=("failure", name), bucket="failure-paths/" + name)
        try:
            v = f()
            val = _scalar(v)
        except Exception as e:
            ck.bucket(f"failure-paths/{name}/raises:{type(e).__name__}")
            continue
        if val is not None and math.isfinite(val):
            R.violation(f"failure-path:{name}", f"{name}: an input that cannot be evaluated returns the number {val!r} instead of raising", case, size=4)
    for name, f in {"skygrid/theta-too-long": lambda: C.PiecewiseConstantCoalescentGrid(T(case["thetas"] + [F(5)]), grid).log_prob(h),
                    "skyride/theta-too-long": lambda: C.PiecewiseConstantCoalescent(T([1, 2, 3, 4, 5])).log_prob(h)}.items():
        try:
            f()
            ck.bucket(f"failure-paths/{name}/accepted-silently")
        except Exception as e:
            ck.bucket(f"failure-paths/{name}/raises:{type(e).__name__}")


# ----------------------------------------------------------------------------- scale regimes
SCALES = [F(1, 10 ** 6), F(1, 10 ** 3), F(1), F(10 ** 3), F(10 ** 5), F(10 ** 6)]


def _scaled(case, c):
    d = dict(case)
    d["samp"] = [x * c for x in case["samp"]]
    d["coal"] = [x * c for x in case["coal"]]
    d["thetas"] = [x * c for x in case["thetas"]]
    if "grid" in case:
        d["grid"] = [x * c for x in case["grid"]]
    if "growth" in case:
        d["growth"] = case["growth"] / c
    return d


def scale_regimes(R, rng, kind, n):
    """the same genealogy at several orders of magnitude of the time unit (heights and population sizes times c, growth
    divided by c, c = 1e-6 … 1e6; growth x root height stays of order one, so |growth| itself becomes tiny or huge):
    every value against the exact Kingman oracle and the Lean model AT THAT SCALE (relative tolerance on the terms of the
    density, never a tolerance that grows with the magnitude of the inputs), and the scaling law
    log p(c t; c theta, g/c) = log p(t; theta, g) - (n-1) log c between the scales"""
    ck = R.ck
    base = make_case(rng, kind, n, flat=False)
    if kind == "exponential":
        root = max(base["coal"])
        # growth x root height of order one, both signs
        base["growth"] = F(rng.choice([-1, 1]) * rng.randint(1, 24), 8) / max(root, F(1, 8))
    cls = type(distribution(base)).__name__
    ref = None
    for c in SCALES:
        case = _scaled(base, c)
        ck.case(key=("scale", kind, n, float(c), tuple(base["coal"]), tuple(base["thetas"])), bucket=f"scale/{kind}/c={float(c):g}")
        try:
            v = _scalar(distribution(case).log_prob(T(case["samp"] + case["coal"])))
        except Exception as e:
            R.violation(f"{cls}.log_prob:scale:raises", f"{cls}.log_prob raises at time unit x{float(c):g}: {type(e).__name__}: {str(e)[:120]}", case,
                        {"scale": float(c)}, size=n)
            continue
        o, sc = oracle_value(case)
        if v is None or not close(v, o, 1e-9, sc):
            R.violation(f"{cls}.log_prob:scale:value",
                        f"{cls}.log_prob with times and sizes x{float(c):g}" + (f" (growth {float(case['growth']):g})" if "growth" in case else "")
                        + f" gives {v!r}; Kingman density {o!r} (n={n})", case, {"scale": float(c), "impl": v, "oracle": o}, size=n)
            continue
        req = model_request(case, case["samp"], case["coal"])
        if req and R.drv:
            m = R.drv.ask(req)
            if m == "bad-op" or not close(v, h2f(m), 1e-9, sc):
                ck.mismatch("value at a scaled time unit differs from the Lean model", {"case": enc_case(case), "scale": float(c), "impl": v, "model": m})
        if c == 1:
            ref = (v, sc)
    if ref is not None:
        for c in SCALES:
            if c == 1:
                continue
            case = _scaled(base, c)
            try:
                v = _scalar(distribution(case).log_prob(T(case["samp"] + case["coal"])))
            except Exception:
                continue
            want = ref[0] - (n - 1) * math.log(float(c))
            if v is None or not close(v, want, 1e-9, ref[1] + (n - 1) * abs(math.log(float(c)))):
                R.violation(f"{cls}.log_prob:scale:law",
                            f"{cls}: scaling times and sizes by {float(c):g} (growth by 1/c) changes the value to {v!r}; the scaling law gives {want!r}",
                            case, {"scale": float(c), "impl": v, "law": want}, size=n)


SCALES32 = [F(1, 10 ** 9), F(1, 10 ** 6), F(1, 10 ** 3), F(1), F(10 ** 3), F(10 ** 6), F(10 ** 9)]


def _held32(xs):
    """the numbers a float32 tensor holds for these values, as exact Fractions"""
    import torch

    return [F(float(v)) for v in torch.tensor([float(x) for x in xs], dtype=torch.float64).to(torch.float32).tolist()]


def scale_regimes_single(R, rng, kind, n):
    """the scale regimes in SINGLE precision: every class with float32 population sizes, heights, grid and growth at time
    units 1e-9 … 1e9 (float32 holds 1e-38 … 1e38: a population size of 1e-9 is an ordinary number there, far above
    finfo.tiny and below finfo.eps = 1.19e-7). Reference: the Kingman oracle on exactly the numbers the float32 tensors hold;
    tolerance 2e-5 relative to the terms of the density; the scaling law between the scales."""
    import torch

    ck = R.ck
    base = make_case(rng, kind, n, flat=False)
    if kind == "exponential":
        root = max(base["coal"])
        base["growth"] = F(rng.choice([-1, 1]) * rng.randint(1, 24), 8) / max(root, F(1, 8))
    cls = type(distribution(base)).__name__
    vals = {}
    for c in SCALES32:
        sc_case = _scaled(base, c)
        case = dict(sc_case, samp=_held32(sc_case["samp"]), coal=_held32(sc_case["coal"]), thetas=_held32(sc_case["thetas"]))
        if "grid" in case:
            case["grid"] = _held32(sc_case["grid"])
        if "growth" in case:
            case["growth"] = _held32([sc_case["growth"]])[0]
        case["float32"] = True
        if len(set(case["coal"])) < len(case["coal"]) or ("grid" in case and any(g in case["coal"] for g in case["grid"])):
            continue
        ck.case(key=("scale32", kind, n, float(c), tuple(base["coal"]), tuple(base["thetas"])), bucket=f"scale-float32/{kind}/c={float(c):g}")
        try:
            import torchtree.evolution.coalescent as C

            f32 = lambda xs: T(xs).to(torch.float32)  # noqa: E731  (the values are float32-representable: exact)
            th = f32(case["thetas"])
            d = {"constant": lambda: C.ConstantCoalescent(th), "skyride": lambda: C.PiecewiseConstantCoalescent(th),
                 "skygrid": lambda: C.PiecewiseConstantCoalescentGrid(th, f32(case["grid"])),
                 "linear": lambda: C.PiecewiseLinearCoalescentGrid(th, f32(case["grid"])),
                 "exponential": lambda: C.ExponentialCoalescent(th, f32([case["growth"]]))}[kind]()
            v = _scalar(d.log_prob(f32(case["samp"] + case["coal"])))
        except Exception as e:
            R.violation(f"{cls}.log_prob:scale-float32:raises", f"{cls}.log_prob (float32) raises at time unit x{float(c):g}: {type(e).__name__}: {str(e)[:120]}", case,
                        {"scale": float(c)}, size=n)
            continue
        o, sc = oracle_value(case)
        if v is None or not close(v, o, 2e-5, sc):
            R.violation(f"{cls}.log_prob:scale-float32:value",
                        f"{cls}.log_prob in float32 with times and sizes x{float(c):g} gives {v!r}; Kingman density of the held values {o!r} (n={n})", case,
                        {"scale": float(c), "impl": v, "oracle": o}, size=n)
            continue
        vals[c] = (v, sc, case)
    if F(1) in vals:
        v1, s1, _ = vals[F(1)]
        for c, (v, sc, case) in vals.items():
            want = v1 - (n - 1) * math.log(float(c))
            if not close(v, want, 5e-5, s1 + (n - 1) * abs(math.log(float(c)))):
                R.violation(f"{cls}.log_prob:scale-float32:law",
                            f"{cls} (float32): scaling times and sizes by {float(c):g} changes the value to {v!r}; the scaling law gives {want!r}", case,
                            {"scale": float(c), "impl": v, "law": want}, size=n)


def json_spellings(R, rng, kind, n):
    """one model, every SPELLING of its grid in JSON, through the data route (`times` / `intervals` + `events`): inline list of
    floats / of integer literals, a Parameter with float literals (with and without dtype: float32 by default), with integer
    literals (int64), integer literals + dtype, `arange`, a reference to a Parameter defined beforehand. A yearly grid is
    naturally written 1, 2, 4: all spellings describe the same N(t) and must give the Kingman density of the times AS WRITTEN
    (non-integer dyadic times)"""
    import copy

    import torchtree.evolution.coalescent as C
    from torchtree.core.utils import process_object

    ck = R.ck
    ctor = {"skygrid": C.PiecewiseConstantCoalescentGridModel, "linear": C.PiecewiseLinearCoalescentGridModel}[kind]
    for consecutive in (False, True):
        for _try in range(50):
            g = G.genealogy(rng, n, q=3)
            root = int(max(g["coal"])) + 1
            if consecutive:
                a = rng.randint(1, max(1, root // 2))
                grid = list(range(a, a + rng.randint(1, 4)))
            else:
                grid = sorted(rng.sample(range(1, root + 3), min(rng.randint(1, 4), root + 2)))
            if not any(F(x) in g["coal"] for x in grid) and any(t.denominator > 1 for t in g["samp"] + g["coal"]):
                break
        else:
            continue
        case = make_case(rng, kind, n, gen=g, flat=False)
        case["grid"] = [F(x) for x in grid]
        case["thetas"] = [G.pow2(rng) for _ in range(len(grid) + 1)]
        if kind == "linear":
            for i in range(1, len(case["thetas"])):
                while case["thetas"][i] == case["thetas"][i - 1]:
                    case["thetas"][i] = G.pow2(rng)
        samp, coal = case["samp"], case["coal"]
        o, scale = oracle_value(case)
        ev = sorted([(t, 1) for t in samp] + [(t, 0) for t in coal], key=lambda p: (p[0], -p[1]))
        fl = [float(x) for x in grid]
        spellings = {
            "list-of-floats": fl, "list-of-integer-literals": list(grid),
            "parameter/floats/dtype=float64": {"id": "grid", "type": "Parameter", "tensor": fl, "dtype": "torch.float64"},
            "parameter/floats/no-dtype": {"id": "grid", "type": "Parameter", "tensor": fl},
            "parameter/integer-literals": {"id": "grid", "type": "Parameter", "tensor": list(grid)},
            "parameter/integer-literals/dtype=float64": {"id": "grid", "type": "Parameter", "tensor": list(grid), "dtype": "torch.float64"},
            "parameter/integer-literals/full-type": {"id": "grid", "type": "torchtree.Parameter", "tensor": list(grid)},
            "reference-to-integer-parameter": "grid",
        }
        if consecutive:
            spellings["parameter/arange"] = {"id": "grid", "type": "Parameter", "arange": [grid[0], grid[-1] + 1]}
        datas = {"times": {"times": [float(t) for t, _ in ev], "events": [e for _, e in ev]},
                 "intervals": {"intervals": [float(b[0] - a[0]) for a, b in zip(ev, ev[1:])], "events": [e for _, e in ev]}}
        for dname, data in datas.items():
            for sname, gspell in spellings.items():
                js = {"id": "coalescent", "type": ctor.__name__,
                      "theta": {"id": "theta", "type": "Parameter", "tensor": [float(x) for x in case["thetas"]], "dtype": "torch.float64"},
                      "grid": copy.deepcopy(gspell), **copy.deepcopy(data)}
                ck.case(key=("json-spelling", kind, n, dname, sname, tuple(coal), tuple(grid)), bucket=f"json-spelling/{kind}/{dname}/{sname}")
                try:
                    dic = {}
                    if gspell == "grid":
                        process_object({"id": "grid", "type": "Parameter", "tensor": list(grid)}, dic)
                    v = _scalar(ctor.from_json(copy.deepcopy(js), dic)())
                except Exception as e:
                    R.violation(f"{ctor.__name__}.from_json:grid-spelling:raises", f"{ctor.__name__}.from_json ({dname}, grid spelled as {sname}) raises "
                                f"{type(e).__name__}: {str(e)[:120]}", case, {"json": js, "spelling": sname}, size=n)
                    continue
                if v is None or not close(v, o, 1e-9, scale):
                    R.violation(f"{ctor.__name__}.from_json:grid-spelling:value",
                                f"{ctor.__name__}.from_json ({dname}, grid {grid} spelled as {sname}) evaluates to {v!r}; Kingman density of the described model {o!r}",
                                case, {"json": js, "spelling": sname, "impl": v, "oracle": o}, size=n)


def near_special(R, rng, n):
    """guards at "special" values compared against the EXACT value, not a tolerance: piecewise-linear population sizes
    whose neighbouring knots differ by a relative 2^-52 … 2^-20 (the flat-segment branch is `difference != 0`), an
    exponential growth rate with growth x duration from 2^-40 up to order one, a population size of 2^60"""
    ck = R.ck
    base = make_case(rng, "linear", n, flat=False)
    for k in (52, 44, 36, 28, 20):
        case = dict(base)
        th = list(base["thetas"])
        i = rng.randrange(len(th) - 1)
        th[i] = F(3) * th[i]
        th[i + 1] = th[i] * (1 + F(1, 2 ** (k - 1)) * rng.choice([1, -1]))
        case["thetas"] = th
        ck.case(key=("near-flat", n, k, i, tuple(base["coal"])), bucket=f"near-special/linear/knots-differ-by-2^-{k}")
        v = _scalar(distribution(case).log_prob(T(case["samp"] + case["coal"])))
        o, sc = oracle_value(case)
        if v is None or not close(v, o, 1e-9, sc):
            R.violation("PiecewiseLinearCoalescentGrid.log_prob:near-flat",
                        f"PiecewiseLinearCoalescentGrid.log_prob with knots {i},{i + 1} differing by a relative 2^-{k - 1}: {v!r}; Kingman density {o!r} (n={n})",
                        case, {"impl": v, "oracle": o}, size=n)
    base = make_case(rng, "exponential", n, flat=False)
    root = max(base["coal"])
    for k in (40, 30, 20, 10, 4):
        for sign in (1, -1):
            case = dict(base, growth=F(sign, 2 ** k) / root)
            ck.case(key=("tiny-growth", n, k, sign, tuple(base["coal"])), bucket=f"near-special/exponential/growth-x-root=2^-{k}")
            v = _scalar(distribution(case).log_prob(T(case["samp"] + case["coal"])))
            o, sc = oracle_value(case)
            # (exp(g b) - exp(g a))/g is conditioned like 1/(g (b - a)): the tolerance follows the conditioning of the
            # FORMULA at this growth rate, an honest bound for the double evaluation of the stated expression
            tol = max(1e-9, 2.0 ** (k - 48))
            if v is None or not close(v, o, tol, sc):
                R.violation("ExponentialCoalescent.log_prob:tiny-growth",
                            f"ExponentialCoalescent.log_prob with growth x root height = {sign}*2^-{k}: {v!r}; Kingman density {o!r} (n={n})",
                            case, {"impl": v, "oracle": o}, size=n)
    for kind in ("constant", "skyride", "skygrid"):
        b = make_case(rng, kind, n, flat=False)
        case = dict(b, thetas=[x * 2 ** 60 for x in b["thetas"]])
        ck.case(key=("huge-theta", kind, n, tuple(b["coal"])), bucket=f"near-special/{kind}/theta=2^60")
        v = _scalar(distribution(case).log_prob(T(case["samp"] + case["coal"])))
        o, sc = oracle_value(case)
        if v is None or not close(v, o, 1e-9, sc):
            R.violation(f"{type(distribution(case)).__name__}.log_prob:huge-theta", f"{kind} with population sizes x 2^60: {v!r}; Kingman density {o!r}", case,
                        {"impl": v, "oracle": o}, size=n)


# ----------------------------------------------------------------------------- time-origin regimes
def time_origin(R, rng, kind, n):
    """sampling and coalescent times shifted by a constant: every tip tied at t0 != 0, youngest tip != 0, negative origin —
    through every route that accepts heights directly (distribution on raw tensors, `times`/`events` JSON, FakeTreeModel):
    agreement with the Kingman density of the shifted input, translation invariance where the model is translation
    invariant, and a contemporaneous sample against the same sample with one tip moved by a hair (special-cased fast paths
    vs the general path)"""
    import torchtree.evolution.coalescent as C
    from torchtree import Parameter

    ck = R.ck
    ctor = _ctor(kind)
    for homo in (True, False):
        g = G.genealogy(rng, n, q=3, homochronous=homo)
        base = make_case(rng, kind, n, gen=g, flat=False)
        cls = type(distribution(base)).__name__
        v0 = None
        shifts = [F(0), F(3, 2), F(37, 8), F(1000)] + ([F(-5, 4), F(-250)] if kind != "linear" else [])
        if kind == "exponential":
            # exp(growth x time) must stay inside double range: far origins only with a growth rate to match
            shifts = [t for t in shifts if abs(float(base["growth"]) * (float(t) + float(max(base["coal"])))) < 300]
        for t0 in shifts:
            case = dict(base, samp=[x + t0 for x in base["samp"]], coal=[x + t0 for x in base["coal"]])
            invariant = kind in ("constant", "skyride", "skygrid")
            if "grid" in base and kind == "skygrid":
                case["grid"] = [x + t0 for x in base["grid"]]
            if "grid" in case and any(gp in case["coal"] for gp in case["grid"]):
                continue
            o, sc = oracle_value(case)
            name = ("all-tips-tied" if homo else "serial") + f"/origin={float(t0):g}"
            ck.case(key=("origin", kind, n, homo, float(t0), tuple(base["coal"])), bucket=f"time-origin/{kind}/{name}")
            vals = {}
            try:
                h = T(case["samp"] + case["coal"])
                vals["distribution"] = _scalar(distribution(case).log_prob(h))
                tree = C.FakeTreeModel(Parameter("heights", h.clone()))
                th = Parameter("theta", T(case["thetas"]))
                if kind in ("constant", "skyride"):
                    m = ctor("c", th, tree)
                elif kind == "exponential":
                    m = ctor("c", th, Parameter("growth", T([case["growth"]])), tree)
                else:
                    m = ctor("c", th, Parameter("grid", T(case["grid"])), tree)
                vals["FakeTreeModel"] = _scalar(m())
                ev = sorted([(t, 1) for t in case["samp"]] + [(t, 0) for t in case["coal"]], key=lambda p: (p[0], -p[1]))
                js = {"id": "c", "type": ctor.__name__,
                      "theta": {"id": "theta", "type": "Parameter", "tensor": [float(x) for x in case["thetas"]], "dtype": "torch.float64"},
                      "times": [float(t) for t, _ in ev], "events": [e for _, e in ev]}
                if kind == "exponential":
                    js["growth"] = {"id": "growth", "type": "Parameter", "tensor": [float(case["growth"])], "dtype": "torch.float64"}
                if "grid" in case:
                    js["grid"] = [float(x) for x in case["grid"]]
                vals["times/events-json"] = _scalar(ctor.from_json(js, {})())
            except Exception as e:
                R.violation(f"{cls}.log_prob:origin:raises", f"{cls} raises with {name}: {type(e).__name__}: {str(e)[:120]}", case, {"origin": float(t0)}, size=n)
                continue
            for route, v in vals.items():
                if v is None or not close(v, o, 1e-9, sc):
                    R.violation(f"{cls}.log_prob:origin:value",
                                f"{cls} ({route}) with {name}: {v!r}; Kingman density {o!r} (n={n})", case,
                                {"origin": float(t0), "route": route, "impl": v, "oracle": o}, size=n)
                    break
            else:
                req = model_request(case, case["samp"], case["coal"])
                if req and R.drv:
                    mm = R.drv.ask(req)
                    if mm == "bad-op" or not close(vals["distribution"], h2f(mm), 1e-9, sc):
                        ck.mismatch("value at a shifted time origin differs from the Lean model", {"case": enc_case(case), "origin": float(t0)})
                if invariant:
                    if v0 is None:
                        v0 = (vals["distribution"], sc)
                    elif not close(vals["distribution"], v0[0], 1e-9, v0[1]):
                        R.violation(f"{cls}.log_prob:origin:translation", f"{cls}: shifting every time by {float(t0):g} changes the value from {v0[0]!r} to "
                                    f"{vals['distribution']!r}", case, {"origin": float(t0)}, size=n)
            if homo and n > 2:
                # the same contemporaneous sample with ONE tip moved by a hair: the general path; the value moves by O(1e-7)
                eps = F(1, 2 ** 24)
                near = dict(case, samp=[case["samp"][0] + eps] + case["samp"][1:])
                try:
                    vn = _scalar(distribution(near).log_prob(T(near["samp"] + near["coal"])))
                    vh = vals.get("distribution")
                    on, _ = oracle_value(near)
                    if vn is not None and vh is not None and abs((vn - vh) - (on - o)) > 1e-9 * max(1.0, sc):
                        R.violation(f"{cls}.log_prob:origin:homochronous-path",
                                    f"{cls}: contemporaneous tips at {float(t0):g} give {vh!r}, the same sample with one tip moved by 6e-8 gives {vn!r}; "
                                    f"the Kingman densities differ by {on - o!r} only", case, {"origin": float(t0)}, size=n)
                except Exception:
                    pass


def run(R, rng, ck):
    sizes = [2, 3, 5] if not ck.thorough() else [2, 3, 4, 5, 8, 13]
    for n in sizes:
        for kind in KINDS:
            R.guard("routes", routes, R, rng, kind, n)
            R.guard("grad_modes", grad_modes_and_immutability, R, rng, kind, n)
            R.guard("repeat_and_copies", repeat_and_copies, R, rng, kind, n)
            R.guard("special_values", special_values, R, rng, kind, n)
    for n in ([2, 4, 7, 12] if not ck.thorough() else [2, 3, 4, 5, 7, 12, 20, 35]):
        for kind in KINDS:
            R.guard("scale_regimes", scale_regimes, R, rng, kind, n)
            R.guard("time_origin", time_origin, R, rng, kind, n)
        R.guard("near_special", near_special, R, rng, n)
    for n in ([2, 4, 7] if not ck.thorough() else [2, 3, 4, 5, 7, 12, 20]):
        for kind in KINDS:
            R.guard("scale_regimes_single", scale_regimes_single, R, rng, kind, n)
    for n in ([2, 3, 6] if not ck.thorough() else [2, 3, 4, 6, 9, 15]):
        for kind in ("skygrid", "linear"):
            R.guard("json_spellings", json_spellings, R, rng, kind, n)
    for kind in KINDS + ("softgrid", "softtemp"):
        R.guard("dtype_regimes", dtype_regimes, R, rng, kind, rng.choice([3, 4, 6]))
    for kind in KINDS:
        R.guard("batch_equals_dimension", batch_equals_dimension, R, rng, kind)
    R.guard("failure_paths", failure_paths, R, rng)
    ck.extra["tensor_constructors_without_dtype"] = scan_constructors()
