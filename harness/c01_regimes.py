"""Cross-cutting regimes for C01/C02 (fourth-wave checklist): HOW the TreeLikelihoodModel is reached and used.

Every probe evaluates the REAL object and compares with the brute-force oracle / a plainly built float64 model.
A probe that fails appends a finding {"sig", "what", "replay"}; the caller turns findings into violations with a
replay that `replay_probe` re-executes.

  dtype      default float32 + float64 parameters (result float64, oracle 1e-9); default float64 + float32 parameters
             (result float32); integer dates; model.to(float32)
  grad       torch.no_grad / autograd on / leaves requiring grad: bitwise equal
  immutable  every Parameter tensor and every tip tensor bit-identical after evaluation
  repeat     same call twice; A, B, A' built in one process; deepcopy then update the copy; .cpu()
  batch      a leading sample dimension on branch lengths / heights / clock rate / kappa / frequencies: row s == the model
             built from slice s == oracle; sample count equal to #patterns / #states / #categories / #branches; ONE row
             holding a boundary value (a branch of length exactly 0, rate exactly 1, kappa exactly 1)
  special    n = 2 taxa, one site, one rate category (Weibull K = 1), branch length 0, rate 1.0, kappa 1.0, equal frequencies
  options    use_postorder_indices (leaf index = post-order rank instead of position in Taxa)
  failure    malformed specifications must raise (table in evidence), never return a number
"""
from __future__ import annotations

import ast
import copy
import math
from pathlib import Path

import c01_gen as G

TOL = 1e-9


def close(a, b, tol):
    if a is None or b is None:
        return False
    if math.isinf(a) or math.isinf(b) or math.isnan(a) or math.isnan(b):
        return a == b
    return abs(a - b) <= tol * max(1.0, abs(a), abs(b))


def set_param_dtype(spec, dtype):
    def f(o):
        if isinstance(o, dict):
            if str(o.get("type", "")).endswith("Parameter"):
                o["dtype"] = dtype
            for v in o.values():
                f(v)
        elif isinstance(o, list):
            for v in o:
                f(v)
    s = copy.deepcopy(spec)
    f(s)
    return s


def reference(case):
    """float64 model built the plain way + oracle"""
    import torch

    torch.set_default_dtype(torch.float64)
    m = G.build_model(case)
    v = float(m().reshape(-1)[0])
    want, _ = G.oracle_loglik(case, m)
    return v, want


def run_probe(probe):
    """execute one probe description on the real implementation -> dict(ok, detail)"""
    import torch
    from torchtree.evolution.tree_likelihood import TreeLikelihoodModel

    kind, case = probe["kind"], probe["case"]
    try:
        if kind == "dtype-default32-params64":
            ref, want = reference(case)
            torch.set_default_dtype(torch.float32)
            try:
                m = TreeLikelihoodModel.from_json(set_param_dtype(G.build_spec(case), "torch.float64"), {})
                out = m()
            finally:
                torch.set_default_dtype(torch.float64)
            v = float(out.reshape(-1)[0])
            # the Weibull site model builds its quantiles in the DEFAULT dtype (site_model.py, C05's subject): its rates
            # then carry single-precision error, so those cases are held to 1e-6 only
            tol = 1e-6 if case["site"]["kind"] == "weibull" else TOL
            ok = out.dtype == torch.float64 and close(v, want, tol)
            return {"ok": ok, "dtype": str(out.dtype), "value": v, "oracle": want, "tolerance": tol}
        if kind == "dtype-default64-params32":
            ref, want = reference(case)
            torch.set_default_dtype(torch.float64)
            m = TreeLikelihoodModel.from_json(set_param_dtype(G.build_spec(case), "torch.float32"), {})
            out = m()
            v = float(out.reshape(-1)[0])
            ok = out.dtype == torch.float32 and close(v, want, 2e-4)
            return {"ok": ok, "dtype": str(out.dtype), "value": v, "oracle": want}
        if kind == "to-float32":
            ref, want = reference(case)
            m = G.build_model(case)
            m()
            m.to(torch.float32)
            for mod in (m, m.tree_model, m.site_model, m.subst_model, m.clock_model):
                if mod is not None and hasattr(mod, "lp_needs_update"):
                    mod.lp_needs_update = True
            m.lp_needs_update = True
            out = m._call()
            v = float(out.reshape(-1)[0])
            ok = close(v, want, 2e-4)
            return {"ok": ok, "dtype": str(out.dtype), "value": v, "oracle": want}
        if kind == "cpu":
            ref, want = reference(case)
            m = G.build_model(case)
            m()
            m.cpu()
            v = float(m._call().reshape(-1)[0])
            return {"ok": close(v, want, TOL), "value": v, "oracle": want}
        if kind == "int-dates":
            ref, want = reference(case)
            s = G.build_spec(case)
            for t in s["tree_model"]["taxa"]["taxa"]:
                t["attributes"]["date"] = int(t["attributes"]["date"])
            v = float(TreeLikelihoodModel.from_json(s, {})().reshape(-1)[0])
            return {"ok": close(v, want, TOL), "value": v, "oracle": want}
        if kind == "postorder-indices":
            ref, want = reference(case)
            s = G.build_spec(case)
            s["tree_model"]["use_postorder_indices"] = True
            v = float(TreeLikelihoodModel.from_json(s, {})().reshape(-1)[0])
            return {"ok": close(v, want, TOL), "value": v, "oracle": want}
        if kind == "grad":
            vals = []
            dic = {}
            vals.append(TreeLikelihoodModel.from_json(G.build_spec(case), dic)())
            with torch.no_grad():
                vals.append(TreeLikelihoodModel.from_json(G.build_spec(case), {})())
            dic3 = {}
            m3 = TreeLikelihoodModel.from_json(G.build_spec(case), dic3)
            for p in dic3.values():
                if hasattr(p, "tensor") and hasattr(p, "requires_grad") and torch.is_tensor(p.tensor) and p.tensor.is_floating_point():
                    try:
                        p.requires_grad = True
                    except Exception:  # noqa: BLE001
                        pass
            vals.append(m3())
            bits = [float(x.detach().reshape(-1)[0]).hex() for x in vals]
            return {"ok": len(set(bits)) == 1 and vals[2].requires_grad, "values": bits, "requires_grad": bool(vals[2].requires_grad)}
        if kind == "immutable":
            dic = {}
            m = TreeLikelihoodModel.from_json(G.build_spec(case), dic)
            before = {k: p.tensor.detach().clone() for k, p in dic.items() if hasattr(p, "tensor") and torch.is_tensor(getattr(p, "tensor", None))}
            n = len(case["taxa"])
            tips = [m.partials[i].clone() for i in range(n)]
            w = m.weights.clone()
            m()
            m()
            changed = [k for k, t in before.items() if not torch.equal(t, dic[k].tensor) or t.dtype != dic[k].tensor.dtype]
            changed += [f"tip{i}" for i in range(n) if not torch.equal(tips[i].to(m.partials[i].dtype), m.partials[i])]
            if not torch.equal(w, m.weights):
                changed.append("weights")
            return {"ok": not changed, "changed": changed}
        if kind == "repeat":
            other = probe["other"]
            a1 = G.build_model(case)
            v1, v1b = float(a1()), float(a1())
            b = G.build_model(other)
            float(b())
            a2 = G.build_model(case)
            v2 = float(a2())
            v1c = float(a1._call())
            return {"ok": v1 == v1b == v2 == v1c, "values": [v1, v1b, v2, v1c]}
        if kind == "deepcopy":
            dic = {}
            m = TreeLikelihoodModel.from_json(G.build_spec(case), dic)
            v0 = float(m())
            mc = copy.deepcopy(m)
            vc0 = float(mc())
            cur = copy.deepcopy(case)
            # update the COPY's parameters through the public interface
            import c01_live as LV

            target = probe["param"]
            holder = {"rate": lambda x: x.clock_model._rates, "bl": lambda x: x.tree_model._branch_lengths,
                      "heights": lambda x: x.tree_model._internal_heights, "kappa": lambda x: x.subst_model._kappa}[target]
            holder(mc).tensor = torch.tensor(probe["value"], dtype=torch.float64)
            LV.apply_to_case(cur, target, probe["value"])
            vc = float(mc())
            v_after = float(m())
            want, _ = G.oracle_loglik(cur, G.build_model(cur))
            return {"ok": vc0 == v0 and v_after == v0 and close(vc, want, TOL), "original": [v0, v_after], "copy": [vc0, vc], "oracle_copy": want}
        if kind == "batch":
            spec = G.build_spec(case)
            rows = probe["rows"]  # list of (param id, list of row values)
            dic = {}

            def put(o):
                if isinstance(o, dict):
                    for pid, vals in rows.items():
                        if o.get("id") == pid and str(o.get("type", "")).endswith("Parameter"):
                            o["tensor"] = vals
                    for v in o.values():
                        put(v)
                elif isinstance(o, list):
                    for v in o:
                        put(v)
            put(spec)
            out = TreeLikelihoodModel.from_json(spec, dic)()
            got = [float(x) for x in out.reshape(-1)]
            B = len(next(iter(rows.values())))
            import c01_live as LV

            wants, singles = [], []
            for s_ in range(B):
                cur = copy.deepcopy(case)
                for pid, vals in rows.items():
                    LV.apply_to_case(cur, {"freqs": "freqs", "heights": "heights"}.get(pid, pid), vals[s_])
                mm = G.build_model(cur)
                singles.append(float(mm()))
                wants.append(G.oracle_loglik(cur, mm)[0])
            ok = len(got) == B and all(close(g, w, TOL) for g, w in zip(got, wants)) and all(close(g, s_, 1e-12) for g, s_ in zip(got, singles))
            return {"ok": ok, "shape": list(out.shape), "batched": got, "per_slice_model": singles, "oracle": wants}
        if kind == "plain":
            v, want = reference(case)
            return {"ok": close(v, want, TOL), "value": v, "oracle": want}
        if kind == "must-raise":
            spec = probe["spec"]
            try:
                v = float(TreeLikelihoodModel.from_json(copy.deepcopy(spec), {})().reshape(-1)[0])
                return {"ok": bool(probe.get("record_only")), "returned": v}
            except Exception as e:  # noqa: BLE001
                return {"ok": True, "raised": type(e).__name__}
    except Exception as e:  # noqa: BLE001
        import traceback

        return {"ok": False, "raised": repr(e)[:300], "where": traceback.format_exc()[-500:]}
    raise ValueError(kind)


# ----------------------------------------------------------------------------------------------- generation
def fixed_to_dtype_case():
    """a FIXED time-tree case (no random choice): HKY, strict clock, explicit internal heights, decimal dates — run by the
    `to-float32` probe on every seed and tier so that a listed known finding is reproduced deterministically"""
    return {"taxa": ["B", "A", "D", "C"], "seq_order": ["A", "B", "C", "D"],
            "seqs": {"A": "ACGTRA-", "B": "ACGTTAC", "C": "AAGTYAC", "D": "CCGTNAG"}, "datatype": "nucleotide", "rooting": "time",
            "subst": {"kind": "HKY", "kappa": 2.5, "freqs": [0.1, 0.2, 0.3, 0.4]}, "site": {"kind": "constant"},
            "use_tip_states": False, "use_ambiguities": True,
            "dates": {"A": 2012.123, "B": 2010.1, "C": 2014.55, "D": 2013.9},
            "clock": {"kind": "strict", "rate": 0.05},
            "newick": "((A:1.0,B:1.0):1.0,(C:1.0,D:1.0):1.0);",
            "internal_heights": [4.6, 1.1, 5.3]}


def gen_probes(rng, thorough=False):
    """list of probe descriptions (JSON-serialisable)"""
    P = [{"kind": "to-float32", "case": fixed_to_dtype_case(), "label": "fixed-time-tree"}]
    k = 3 if thorough else 1
    nuc = ["JC69", "HKY", "GTR", "GeneralNonSymmetric"]
    for _ in range(k):
        for sub in nuc:
            for ts in (False, True):
                rooting = rng.choice(["unrooted", "time"])
                case = G.gen_case(rng, rng.choice([3, 4]), subst=sub, rooting=rooting, tip_states=ts, special=True, nsites=3,
                                  site=rng.choice(["constant", "invariant", "weibull+inv"]))
                P.append({"kind": "dtype-default32-params64", "case": case})
                if sub in ("HKY", "GTR"):  # JC69 has no parameter; General* builders use torch.eye in the default dtype (general.py, C04's)
                    P.append({"kind": "dtype-default64-params32", "case": case})
        for sub in ("JC69", "HKY", "LG"):
            case = G.gen_case(rng, 4, subst=sub, rooting=rng.choice(["unrooted", "time"]), nsites=3)
            P.append({"kind": "cpu", "case": case})
            P.append({"kind": "to-float32", "case": case})
            P.append({"kind": "grad", "case": case})
            P.append({"kind": "immutable", "case": case})
            P.append({"kind": "repeat", "case": case, "other": G.gen_case(rng, 5, subst=rng.choice(nuc), nsites=4)})
        case = G.gen_case(rng, 4, subst="HKY", rooting="time", nsites=3)
        if all(float(v).is_integer() for v in case["dates"].values()):
            P.append({"kind": "int-dates", "case": case})
        # deepcopy, then update the copy
        for target in ("rate", "bl", "heights", "kappa"):
            n = 4
            rooting = "unrooted" if target == "bl" else ("time" if target in ("rate", "heights") else rng.choice(["unrooted", "time"]))
            case = G.gen_case(rng, n, subst="HKY", rooting=rooting, explicit_heights=True, clock="strict", nsites=3)
            if target == "bl":
                t = G.parse_newick(case["newick"])
                G.set_indices(t, case["taxa"])
                a, b = t.kids
                bl = [None] * (2 * n - 2)
                for x in t.postorder():
                    if x is not t:
                        bl[x.index] = x.length
                other = b if a.index == 2 * n - 3 else a
                bl[other.index] = a.length + b.length
                case["branch_lengths"] = bl[:2 * n - 3]
                val = [rng.uniform(0.05, 0.5) for _ in range(2 * n - 3)]
            elif target == "rate":
                val = [rng.uniform(0.05, 0.5)]
            elif target == "kappa":
                val = [rng.uniform(0.5, 5.0)]
            else:
                t = G.parse_newick(case["newick"])
                G.assign_heights(rng, t, G.leaf_heights_of(case))
                val = [x.height for x in t.postorder() if not x.is_leaf()]
            P.append({"kind": "deepcopy", "case": case, "param": target, "value": val})
        # use_postorder_indices: taxa order different from the leaves' post-order
        for rooting in ("unrooted", "time"):
            case = G.gen_case(rng, 4, subst="HKY", rooting=rooting, nsites=3, explicit_heights=True, clock="strict")
            leaves = [x.name for x in G.parse_newick(case["newick"]).leaves()]
            if case["taxa"] == leaves:
                case["taxa"] = leaves[1:] + leaves[:1]
            P.append({"kind": "postorder-indices", "case": case})
        # batches
        for which in ("bl", "heights", "rate", "kappa"):  # batched frequencies are not supported by HKY.q (C04/C10's subject)
            n = rng.choice([3, 4])
            rooting = "unrooted" if which == "bl" else ("time" if which in ("heights", "rate") else rng.choice(["unrooted", "time"]))
            case = G.gen_case(rng, n, subst="HKY", rooting=rooting, explicit_heights=True, clock="strict", nsites=rng.randint(2, 4),
                              site=rng.choice(["constant", "weibull"]))
            m = G.build_model(case)
            npat, K = int(m.weights.shape[0]), int(m.site_model.rates().reshape(-1).shape[0])
            B = rng.choice([2, 3, 4, npat, K, 2 * n - 3, n - 1])
            B = max(2, min(B, 6))
            rows = []
            for s_ in range(B):
                if which == "bl":
                    rows.append([rng.uniform(0.05, 0.6) for _ in range(2 * n - 3)])
                elif which == "heights":
                    t = G.parse_newick(case["newick"])
                    G.assign_heights(rng, t, G.leaf_heights_of(case))
                    rows.append([x.height for x in t.postorder() if not x.is_leaf()])
                elif which == "rate":
                    rows.append([rng.uniform(0.05, 0.6)])
                elif which == "kappa":
                    rows.append([rng.uniform(0.5, 5.0)])
                else:
                    rows.append(G.rand_freqs(rng, 4))
            special = rng.randrange(B)  # ONE row holds a boundary value
            if which == "bl":
                rows[special][rng.randrange(2 * n - 3)] = 0.0
                t = G.parse_newick(case["newick"])
                case["branch_lengths"] = rows[0]
            elif which == "rate":
                rows[special] = [1.0]
            elif which == "kappa":
                rows[special] = [1.0]
            elif which == "freqs":
                rows[special] = [0.25, 0.25, 0.25, 0.25]
            P.append({"kind": "batch", "case": case, "rows": {which: rows}})
    # special but valid inputs
    for _ in range(2 * k):
        for rooting in ("unrooted", "time"):
            c2 = G.gen_case(rng, 2, subst=rng.choice(nuc), rooting=rooting, nsites=rng.choice([1, 3]), explicit_heights=True,
                            tip_states=rng.random() < 0.5)
            P.append({"kind": "plain", "case": c2, "label": "n=2"})
    c = G.gen_case(rng, 3, subst="HKY", site="weibull", rooting="unrooted", nsites=1)
    c["site"]["K"] = 1
    P.append({"kind": "plain", "case": c, "label": "one-site-one-category"})
    c = G.gen_case(rng, 4, subst="HKY", site="constant", rooting="time", clock="strict", explicit_heights=True, nsites=3)
    c["clock"]["rate"] = 1.0
    c["subst"]["kappa"] = 1.0
    c["subst"]["freqs"] = [0.25, 0.25, 0.25, 0.25]
    P.append({"kind": "plain", "case": c, "label": "rate-1-kappa-1-equal-frequencies"})
    c = G.gen_case(rng, 4, subst="GTR", site="invariant", rooting="unrooted", nsites=3)
    t = G.parse_newick(c["newick"])
    # zero length on INTERNAL branches only: a zero-length branch above a tip makes data with different states on the two
    # sides impossible (likelihood exactly 0; the implementation then returns NaN instead of -inf through the rescaling
    # path — C03's subject, reported to the lead, not demanded here)
    for x in [y for y in t.postorder() if not y.is_leaf() and y is not t][:2]:
        x.length = 0.0
    c["newick"] = G.newick(t)
    P.append({"kind": "plain", "case": c, "label": "zero-length-branches"})
    # failure paths: malformed specifications must raise
    base = G.gen_case(rng, 3, subst="JC69", site="constant", rooting="unrooted", nsites=3)
    spec = G.build_spec(base)

    def variant(fn):
        s = copy.deepcopy(spec)
        fn(s)
        return s
    names = base["taxa"]
    P.append({"kind": "must-raise", "case": base, "label": "a taxon without sequence",
              "spec": variant(lambda s: s["site_pattern"]["alignment"]["sequences"].pop())})
    P.append({"kind": "must-raise", "case": base, "label": "a sequence of a taxon not in Taxa",
              "spec": variant(lambda s: s["site_pattern"]["alignment"]["sequences"].append({"taxon": "nobody", "sequence": "ACG"}))})
    P.append({"kind": "must-raise", "case": base, "label": "a tree leaf that is not a taxon",
              "spec": variant(lambda s: s["tree_model"].__setitem__("newick", s["tree_model"]["newick"].replace(names[0] + ":", "nobody:")))})
    # recorded only: without ambiguities a character outside the table is simply missing data, with them an IndexError
    P.append({"kind": "must-raise", "case": base, "label": "a non-ASCII sequence character", "record_only": True,
              "spec": variant(lambda s: s["site_pattern"]["alignment"]["sequences"][0].__setitem__("sequence", "AéG"))})
    P.append({"kind": "must-raise", "case": base, "label": "sequences of unequal length (zip truncates)", "record_only": True,
              "spec": variant(lambda s: s["site_pattern"]["alignment"]["sequences"][0].__setitem__("sequence", "AC"))})
    P.append({"kind": "must-raise", "case": base, "label": "column index out of range",
              "spec": variant(lambda s: s["site_pattern"].__setitem__("indices", "99"))})
    P.append({"kind": "must-raise", "case": base, "label": "unknown substitution model type",
              "spec": variant(lambda s: s["substitution_model"].__setitem__("type", "JC70"))})
    return P


# ----------------------------------------------------------------------------------------------- source scan
def scan_constructors(repo: Path, files):
    """tensor constructors without an explicit dtype in the anchored files: (file, line, call)"""
    ctor = {"tensor", "zeros", "ones", "full", "empty", "arange", "eye", "zeros_like", "ones_like", "rand", "randn"}
    out = []
    for rel in files:
        try:
            tree = ast.parse((repo / rel).read_text())
        except Exception:  # noqa: BLE001
            continue
        for n in ast.walk(tree):
            if isinstance(n, ast.Call) and isinstance(n.func, ast.Attribute) and isinstance(n.func.value, ast.Name) \
                    and n.func.value.id == "torch" and n.func.attr in ctor:
                if n.func.attr.endswith("_like"):
                    continue
                if not any(kw.arg == "dtype" for kw in n.keywords):
                    out.append(f"{rel}:{n.lineno}: {ast.unparse(n)[:90]}")
    return out
