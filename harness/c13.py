"""C13 — in a model specification every id denotes exactly one shared object.

Lean side : TTModel/C13_Json.lean (remove_comments, expand_plates), TTModel/C13_Loader.lean
            (process_object/process_objects threading registry + heap over a class table),
            TTGen/C13_LoaderCfg.lean regenerated from process_object's AST (where the duplicate test
            stands); theorems in TTProofs/Props/C13.lean.
Tie       : exact correspondence — generated specifications (well-formed DAGs; comments; plates;
            a malformed stream with duplicates at every depth, dangling / forward / enclosing
            references, missing id/type/key, bad types) run through the REAL remove_comments,
            expand_plates and process_objects, vs. the Lean pipeline: cleaned tree, expanded tree,
            accept/reject, full error chain (innermost kind … outermost wrapper), registry keys in
            insertion order, canonical pointer graph.
Search    : the property's own predicates on the implementation (always evaluated): after an
            accepted load every reachable object with an id IS dic[id] (identity) and ids of
            distinct objects differ; tagged malformed specifications must raise JSONParseError;
            a specification with comments loads exactly like the one without.
Extra     : json_factory helpers vs. direct construction (implementation only).
"""
from __future__ import annotations

import copy
import json
import logging
import sys
from pathlib import Path

from common import REPO, VERIF, Check, use_repo

sys.path.insert(0, str(VERIF / "harness" / "translators"))
import c13_gen  # noqa: E402
import tr_loader  # noqa: E402
from c13_wire import canon_graph, decs, encs, parse_load, same_json  # noqa: E402

OBSERVABLE = {  # which from_json slots of the real classes can be observed on the constructed object
    "Parameter": [],
    "ViewParameter": ["parameter"],
    "CatParameter": ["parameters"],
    "TransformedParameter": ["x"],
    "Distribution": ["x", "parameters"],
    "JointDistributionModel": ["distributions"],
    "Taxon": [],
    "Taxa": ["taxa"],
    "Alignment": ["taxa"],
    "UnRootedTreeModel": ["taxa", "branch_lengths"],
    "TimeTreeModel": ["taxa", "internal_heights"],
    "ReparameterizedTimeTreeModel": ["taxa", "shifts", "root_height", "ratios"],
    "FlexibleTimeTreeModel": ["taxa", "internal_heights"],
}

_SETUP = {}


def setup(classes):
    """import the tree under check, register the generic classes (built from the Lean class table)"""
    if "U" in _SETUP:
        return _SETUP["U"]
    use_repo()
    import torch

    torch.set_num_threads(2)
    import torchtree  # noqa: F401
    import torchtree.core.utils as U
    import torchtree.distributions.distributions  # noqa: F401
    import torchtree.distributions.joint_distribution  # noqa: F401
    import torchtree.evolution.alignment  # noqa: F401
    import torchtree.evolution.taxa  # noqa: F401
    import torchtree.evolution.tree_model  # noqa: F401
    import torchtree.evolution.tree_model_flexible  # noqa: F401
    from torchtree.core.serializable import JSONSerializable

    made = {}
    for tname, (cname, slots) in classes.items():
        if tname not in c13_gen.GENERIC:
            continue
        if cname not in made:
            made[cname] = _make_generic(cname, slots, U, JSONSerializable, c13_gen.SELFREG.get(tname))
        U.register_class(made[cname], tname)
    _SETUP["U"] = U
    return U


CONSTRUCTED = []   # (class, id) of every harness-class object built, in construction order (the entry-point route reads it)


def _make_generic(cname, slots, U, base, selfreg=None):
    class V(base):
        _slots = slots
        _selfreg = selfreg

        def __init__(self, id_, kids):
            self.id = id_
            self.kids = kids
            CONSTRUCTED.append((type(self).__name__, id_))

        @classmethod
        def from_json(cls, data, dic):
            kids = []
            obj = None
            for n_slot, (kind, key, _extra) in enumerate(cls._slots):
                if cls._selfreg is not None and n_slot == cls._selfreg:
                    # the FlexibleTimeTreeModel shape: construct, register yourself, then load the rest
                    if data["id"] in dic:
                        raise U.JSONParseError("Object with ID `{}' already exists".format(data["id"]))
                    obj = cls(data["id"], kids)
                    dic[data["id"]] = obj
                if kind == "one":
                    kids.append((key, [U.process_object(data[key], dic)]))
                elif kind == "many":
                    r = U.process_objects(data[key], dic)
                    kids.append((key, r if isinstance(r, list) else [r]))
                elif kind == "optOne":
                    r = U.process_object_with_key(key, data, dic)
                    kids.append((key, [] if r is None and key not in data else [r]))
                elif kind == "optMany":
                    r = U.process_objects(data, dic, key=key)
                    kids.append((key, [] if key not in data else (r if isinstance(r, list) else [r])))
                elif kind == "each":
                    v = data[key]
                    if not isinstance(v, list):
                        raise TypeError("list expected")
                    kids.append((key, [U.process_object(d, dic) for d in v]))
                else:
                    raise NotImplementedError(kind)
            if obj is not None:
                return obj      # kids is the very list the object holds: now complete
            return cls(data["id"], kids)

    if cname == "VFalsy":
        V.__bool__ = lambda self: False
    if cname == "VEmpty":
        V.__len__ = lambda self: 0
    V.__name__ = V.__qualname__ = cname
    return V


# ---------------------------------------------------------------------- the real pipeline
class _Cap(logging.Handler):
    def __init__(self):
        super().__init__()
        self.msgs = []

    def emit(self, record):
        self.msgs.append(record.msg)


import re  # noqa: E402

_PATS = [
    (re.compile(r"^Object with ID `(.*)' not found$", re.S), lambda m: ("notFound", m.group(1))),
    (re.compile(r"^Object with ID `(.*)' already exists$", re.S), lambda m: ("duplicate", m.group(1))),
    (re.compile(r"^Missing `id' key for object of type `(.*)'$", re.S), lambda m: ("missingId",)),
    (re.compile(r"^Missing `id' and `type' keys$", re.S), lambda m: ("missingId",)),
    (re.compile(r"^Object with ID `(.*)' does not have a type$", re.S), lambda m: ("noType", m.group(1))),
    (re.compile(r"^Missing key `(.*)' for object of type `(.*)' with ID `(.*)'$", re.S),
     lambda m: ("missingKey", m.group(2), m.group(3), m.group(1))),
    (re.compile(r"^Calling object of type `(.*)' with ID `(.*)'$", re.S), lambda m: ("wrapped", m.group(1), m.group(2))),
    (re.compile(r"^Object is not valid \(should be str or object\)", re.S), lambda m: ("notValid",)),
    (re.compile(r"^.* in object with ID `(.*)'$", re.S), lambda m: ("badClass", m.group(1))),
]


def classify_msg(msg: str):
    for pat, f in _PATS:
        m = pat.match(msg)
        if m:
            return f(m)
    return ("other", msg[:80])


def real_pipeline(U, spec):
    """what torchtree.py:main does with a parsed file.  Returns a dict:
    cleaned / expanded trees, then ('ok', results, dic) | ('err', chain) | ('plate-err', kind)"""
    data = copy.deepcopy(spec)
    out = {}
    cap = _Cap()
    root = logging.getLogger()
    old_handlers, old_level = root.handlers[:], root.level
    root.handlers[:] = [cap]
    try:
        try:
            U.remove_comments(data)
            out["cleaned"] = copy.deepcopy(data)
        except Exception as e:  # noqa: BLE001
            out["outcome"] = ("rc-crash", type(e).__name__)
            return out
        try:
            U.expand_plates(data)
            out["expanded"] = copy.deepcopy(data)
        except U.JSONParseError:
            out["outcome"] = ("plate-err", "notInList")
            return out
        except Exception as e:  # noqa: BLE001
            out["outcome"] = ("plate-err", "crash")
            out["exc"] = type(e).__name__
            return out
        dic, results = {}, []
        try:
            for element in data:
                r = U.process_objects(element, dic)
                results.append(r if isinstance(r, list) else [r])
            out["outcome"] = ("ok", results, dic)
        except U.JSONParseError as e:
            logged = [str(m) for m in cap.msgs if isinstance(m, U.JSONParseError)]
            chain = [classify_msg(m) for m in logged] + [classify_msg(str(e))]
            # logged: innermost first; the raised one is the outermost. A top-level error is not logged.
            out["outcome"] = ("err", list(reversed(chain)))
            out["dic_keys"] = list(dic.keys())
        except Exception as e:  # noqa: BLE001  (not a parse error: main() would die with a traceback)
            out["outcome"] = ("err", [("crash",)])
            out["exc"] = f"{type(e).__name__}: {e}"[:200]
        return out
    finally:
        root.handlers[:] = old_handlers
        root.level = old_level


def main_route(spec):
    """the specification through the PUBLIC ENTRY POINT torchtree.torchtree.main (`torchtree --dry file.json`), in-process:
    -> (accepted, [(class, id) of the harness-class objects built, in order], what was logged / raised).
    Nothing of main is looked into: the harness classes themselves record that they were constructed."""
    import io
    import contextlib
    import os
    import sys
    import tempfile

    import torch
    import torchtree.torchtree as TT

    fd, path = tempfile.mkstemp(prefix="c13-main-", suffix=".json")
    with os.fdopen(fd, "w") as fp:
        json.dump(spec, fp)
    cap = _Cap()
    root = logging.getLogger()
    old_handlers, old_level = root.handlers[:], root.level
    root.handlers[:] = [cap]
    old_argv, old_dtype = sys.argv, torch.get_default_dtype()
    del CONSTRUCTED[:]
    raised = None
    try:
        sys.argv = ["torchtree", path, "--dry"]
        with contextlib.redirect_stdout(io.StringIO()), contextlib.redirect_stderr(io.StringIO()):
            try:
                TT.main()
            except SystemExit as e:
                raised = f"SystemExit({e.code})"
            except Exception as e:  # noqa: BLE001
                raised = f"{type(e).__name__}: {e}"[:160]
    finally:
        sys.argv = old_argv
        torch.set_default_dtype(old_dtype)
        root.handlers[:] = old_handlers
        root.level = old_level
        try:
            os.unlink(path)
        except OSError:
            pass
    logged = [str(m)[:160] for m in cap.msgs if isinstance(m, Exception)]
    built = list(CONSTRUCTED)
    del CONSTRUCTED[:]
    return (raised is None and not logged), built, (raised or (logged[-1] if logged else None))


def entry_point_violations(U, spec, real):
    """the property through the entry point: (i) main(spec) builds exactly what main(spec without its comments) builds - same
    acceptance, same harness-class objects in the same order: underscore keys and ignored objects (ignored PLATES included)
    have no effect; (ii) it agrees with the helper pipeline remove_comments -> expand_plates -> process_objects the rest of
    this check drives (acceptance, objects built)"""
    bad = []
    acc, built, why = main_route(spec)
    stripped = strip_comments(copy.deepcopy(spec))
    if json.dumps(stripped) != json.dumps(spec):
        acc0, built0, why0 = main_route(stripped)
        if acc != acc0 or built != built0:
            bad.append(("comment-has-effect", {"with comments": [acc, built[:8], why], "without": [acc0, built0[:8], why0]}))
    oc = real["outcome"]
    if oc[0] == "ok":
        want = [(type(o).__name__, k) for k, o in oc[2].items() if hasattr(type(o), "_slots")]
        if not acc or sorted(built) != sorted(want):
            bad.append(("entry-point-differs-from-helpers", {"main": [acc, built[:8], why], "helpers": ["accepted", want[:8]]}))
    elif acc and oc[0] in ("err", "plate-err") and not (oc[0] == "err" and oc[1] and oc[1][-1][0] == "crash"):
        bad.append(("entry-point-differs-from-helpers", {"main": ["accepted", built[:8]], "helpers": summar(oc)}))
    return bad


def py_label(o):
    return (type(o).__name__, getattr(o, "id", None))


def py_kids(o):
    n = type(o).__name__
    if hasattr(o, "kids") and hasattr(type(o), "_slots"):
        return o.kids
    if n == "ViewParameter":
        return [("parameter", [o.parameter])]
    if n == "CatParameter":
        return [("parameters", list(o._parameter_container.params()))]
    if n == "TransformedParameter":
        x = o.x
        if type(x).__name__ == "CatParameter" and x.id is None:
            return [("x", list(x._parameter_container.params()))]
        return [("x", [x])]
    if n == "Distribution":
        x = o.x
        if type(x).__name__ == "CatParameter" and x.id == "x":  # internal wrapper of a list `x` (ids "x" never generated)
            xs = list(x._parameter_container.params())
        else:
            xs = [x]
        return [("x", xs), ("parameters", [p for p in o.dict_parameters.values() if p.id is not None])]
    if n == "JointDistributionModel":
        return [("distributions", list(o._distributions.models()))]
    if n == "Taxa":
        return [("taxa", list(o))]
    if n == "Alignment":
        return [("taxa", [o.taxa])]
    if n == "UnRootedTreeModel":
        return [("taxa", [o._taxa]), ("branch_lengths", [o._branch_lengths])]
    if n in ("TimeTreeModel", "FlexibleTimeTreeModel"):
        return [("taxa", [o._taxa]), ("internal_heights", [o._internal_heights])]
    if n == "ReparameterizedTimeTreeModel":
        p = o._internal_heights
        if type(p).__name__ == "CatParameter" and p.id is None:   # built from ratios and root_height
            ratios, root_height = list(p._parameter_container.params())[:2]
            return [("taxa", [o._taxa]), ("shifts", []), ("root_height", [root_height]), ("ratios", [ratios])]
        return [("taxa", [o._taxa]), ("shifts", [p]), ("root_height", []), ("ratios", [])]
    return []


def canon_py(results, dic):
    return canon_graph(results, list(dic.items()), py_label, py_kids)


def canon_lean(results, reg, heap):
    def label(a):
        return (heap[a][0], heap[a][1])

    def kids(a):
        cls, _id, ks = heap[a]
        if cls in OBSERVABLE:
            return [(k, v) for k, v in ks if k in OBSERVABLE[cls]]
        return ks

    return canon_graph(results, reg, label, kids)


# ---------------------------------------------------------------------- the property's predicates
def _descend(o):
    """(attribute name, value) pairs to follow from `o`: every attribute, every element of a container"""
    import collections

    if isinstance(o, (list, tuple, set, frozenset, collections.UserList)):
        return [(None, x) for x in (o.data if isinstance(o, collections.UserList) else o)] + \
            (list(vars(o).items()) if hasattr(o, "__dict__") else [])
    if isinstance(o, (dict, collections.UserDict)):
        return [(None, x) for x in (o.data if isinstance(o, collections.UserDict) else o).values()] + \
            (list(vars(o).items()) if hasattr(o, "__dict__") else [])
    mod = type(o).__module__ or ""
    if hasattr(o, "__dict__") and (mod.startswith("torchtree") or hasattr(type(o), "_slots")):
        return list(vars(o).items())
    return []


def all_holders(results, dic):
    """every object with an id reachable from the results and from every registered object through ANY attribute,
    container, argument dict or listener list (not only the slots the class table knows): [(object, holder, attribute)]"""
    out, seen = [], set()
    stack = [(o, None, None) for rs in results for o in rs] + [(o, None, None) for o in dic.values()]
    while stack:
        o, holder, attr = stack.pop()
        if o is None or isinstance(o, (str, int, float, bool)) or id(o) in seen:
            continue
        seen.add(id(o))
        try:
            i = getattr(o, "id", None)
        except Exception:  # noqa: BLE001
            i = None
        if isinstance(i, str):
            out.append((o, holder, attr))
        for a, v in _descend(o):
            stack.append((v, o, a))
    return out


def sharing_violations(results, dic):
    """after an ACCEPTED load: (i) dic[k].id == k; (ii) every object that has an id and is reachable from ANY registered
    object through any attribute / container IS the registered instance (identity), hence (iii) two distinct objects
    never share an id.  Truthiness of the objects is never consulted (empty Taxon/Taxa/Alignment are falsy)."""
    bad = []
    for k, o in dic.items():
        if getattr(o, "id", k) != k:
            bad.append(("registered-under-other-id", k, getattr(o, "id", None)))
    for o, holder, attr in all_holders(results, dic):
        i = o.id
        if type(o).__name__ == "CatParameter" and i == "x" and dic.get("x") is not o:
            continue   # Distribution wraps a LIST x in CatParameter('x', …): internal, never registered
        if i not in dic:
            bad.append(("holder-of-unregistered-id", i, type(holder).__name__, attr))
        elif dic[i] is not o:
            bad.append(("two-objects-one-id", i, type(holder).__name__, attr))
    return bad


def order_violations(expanded, dic):
    """ORDER conventions of an ACCEPTED load, predicted from the (comment-free, plate-free) specification alone: wherever
    the specification is positional the loader keeps the position.  (i) a Parameter's `tensor` list arrives entry by entry;
    (ii) a Taxa holds its taxa in the order of the `taxa` list, a CatParameter concatenates in the order of `parameters`,
    an Alignment keeps the order of `sequences`; (iii) in a tree model the i-th taxon of the Taxa is leaf i: the model's
    taxon names, the leaf nodes of the parsed tree (by label), and - BY TAXON NAME - the leaf's sampling time (from the
    taxon's own date) and the entry of a branch-length parameter given as a list"""
    import torch

    bad = []
    lits = {}

    def walk(j):
        if isinstance(j, list):
            for x in j:
                walk(x)
        elif isinstance(j, dict):
            if isinstance(j.get("id"), str) and isinstance(j.get("type"), str):
                lits.setdefault(j["id"], j)
            for v in j.values():
                walk(v)
    walk(expanded)

    def ident(x):
        if isinstance(x, str) and "{" in x:      # the range spelling stem{a:b} denotes its last member
            try:
                stem, ix = x.split("{")
                return stem + str(int(ix.rstrip("}").split(":")[1]) - 1)
            except (ValueError, IndexError):
                return None
        return x if isinstance(x, str) else x.get("id") if isinstance(x, dict) else None

    for i, lit in lits.items():
        o = dic.get(i)
        if o is None and i not in dic:
            continue
        ty = lit["type"].split(".")[-1]
        cls = type(o).__name__
        if ty != cls:
            continue
        try:
            if ty == "Parameter" and isinstance(lit.get("tensor"), list) and set(lit) <= {"id", "type", "tensor", "dtype"}:
                want = torch.tensor(lit["tensor"], dtype=o.tensor.dtype)
                if want.shape != o.tensor.shape or not torch.equal(want, o.tensor.detach()):
                    bad.append(("tensor-entries-reordered", i, lit["tensor"], o.tensor.tolist()))
            elif ty == "Taxa" and isinstance(lit.get("taxa"), list):
                want, got = [ident(x) for x in lit["taxa"]], [t.id for t in o]
                if want != got:
                    bad.append(("taxa-reordered", i, want, got))
            elif ty == "CatParameter" and isinstance(lit.get("parameters"), list):
                want = [ident(x) for x in lit["parameters"]]
                got = [q.id for q in o._parameter_container.params()]
                if want != got:
                    bad.append(("cat-parameters-reordered", i, want, got))
                parts = [dic[k].tensor for k in want if k in dic]
                if len(parts) == len(want) and parts and all(q.dim() == parts[0].dim() for q in parts):
                    try:
                        cat = torch.cat(parts, dim=lit.get("dim", 0) if isinstance(lit.get("dim", 0), int) else 0)
                    except Exception:  # noqa: BLE001
                        cat = None
                    if cat is not None and cat.shape == o.tensor.shape and not torch.equal(cat, o.tensor.detach()):
                        bad.append(("cat-parameters-reordered", i, cat.tolist(), o.tensor.tolist()))
            elif ty == "Alignment" and isinstance(lit.get("sequences"), list):
                want = [(q.get("taxon"), q.get("sequence")) for q in lit["sequences"] if isinstance(q, dict)]
                got = [(q.taxon, q.sequence) for q in o]
                if want != got:
                    bad.append(("sequences-reordered", i, want, got))
            elif ty in c13_gen.TREES:
                taxa = dic.get(ident(lit.get("taxa")))
                if type(taxa).__name__ != "Taxa":
                    continue
                names = [t.id for t in taxa]
                if list(o.taxa) != names:
                    bad.append(("tree-taxa-reordered", i, names, list(o.taxa)))
                nodes = {n.taxon.label: n.index for n in o.tree.leaf_node_iter()}
                if nodes != {nm: k for k, nm in enumerate(names)}:
                    bad.append(("leaf-index-not-taxon-position", i, names, nodes))
                if hasattr(o, "sampling_times") and all("date" in t for t in taxa):
                    dates = {t.id: float(t["date"]) for t in taxa}
                    hi, lo_ = max(dates.values()), min(dates.values())
                    want = {k: (0.0 if hi == 0.0 else v if lo_ == 0.0 else hi - v) for k, v in dates.items()}
                    st = o.sampling_times.detach()
                    got = {nm: float(st[..., k]) for k, nm in enumerate(o.taxa)}
                    if want != got:
                        bad.append(("sampling-time-of-another-taxon", i, want, got))
                bl = lit.get("branch_lengths")
                bl = lits.get(bl, None) if isinstance(bl, str) else bl
                if ty == "UnRootedTreeModel" and isinstance(bl, dict) and isinstance(bl.get("tensor"), list) \
                        and set(bl) <= {"id", "type", "tensor", "dtype"} and not lit.get("keep_branch_lengths"):
                    got = o.branch_lengths().detach()
                    want = torch.tensor(bl["tensor"], dtype=got.dtype)
                    w = {nm: float(want[k]) for k, nm in enumerate(names) if k < len(want)}
                    g = {nm: float(got[..., k]) for k, nm in enumerate(o.taxa) if k < got.shape[-1]}
                    if w != g:
                        bad.append(("branch-length-of-another-taxon", i, w, g))
        except Exception as e:  # noqa: BLE001  (an object this oracle cannot read is recorded, never a crash)
            bad.append(("order-check-raised", i, f"{type(e).__name__}: {e}"[:160]))
    return bad


def update_violations(dic):
    """update every registered plain Parameter THROUGH THE REGISTRY'S INSTANCE, then re-evaluate every Distribution and
    compare with a torch distribution built directly from the registry's tensors: an unshared copy held inside a
    distribution (same id, stale value) shows here even if it looked identical right after loading"""
    import torch

    bad = []
    params = [o for o in dic.values() if type(o).__name__ == "Parameter" and o.tensor.dtype != torch.bool]
    dists = [o for o in dic.values() if type(o).__name__ == "Distribution"]
    if not dists:
        return bad
    try:
        for d in dists:
            d()          # populate caches first
    except Exception:  # noqa: BLE001
        return bad
    for n, p in enumerate(params):
        p.tensor = (p.tensor.detach() * 1.5 + 0.25 * (n + 1)) if p.tensor.is_floating_point() else (p.tensor.detach() + (n + 1))
    for d in dists:
        try:
            args = {}
            for name, q in d.dict_parameters.items():
                args[name] = dic[q.id].tensor if q.id is not None and q.id in dic else q.tensor
            x = d.x
            xt = dic[x.id].tensor if getattr(x, "id", None) in dic and dic[x.id] is not None and x.id != "x" else x.tensor
            want = d.dist(**args).log_prob(xt)
            got = d()
        except Exception:  # noqa: BLE001  (shape / support problems unrelated to sharing)
            continue
        if want.shape != got.shape or not torch.allclose(want.to(got.dtype), got, rtol=1e-6, atol=1e-9, equal_nan=True):
            bad.append(("update-not-seen", d.id, [q.id for q in d.dict_parameters.values()]))
    return bad


def history_violations(ck, U, spec, real):
    """checklist 4/5: (a) the parsed specification handed to the loader is not modified by loading it; (b) loading the SAME
    specification a second time in this process gives the same outcome and a disjoint set of objects (no module-level
    cache hands out an object of the first load); (c) copy.deepcopy of the loaded registry is an isomorphic, disjoint
    graph that keeps its own sharing (an update inside the copy is seen by the copy's holders, not by the original)"""
    bad = []
    oc = real["outcome"]
    if oc[0] != "ok":
        # a rejected specification must be rejected the same way the second time
        again = real_pipeline(U, spec)["outcome"]
        if again[0] != oc[0] or (oc[0] == "err" and again[1] != oc[1]):
            bad.append(("second-load-differs", summar(oc), summar(again)))
        return bad
    # (a) the loop of main() on a private copy of the expanded data: unchanged afterwards
    data = copy.deepcopy(real["expanded"])
    before = json.dumps(data, sort_keys=False)
    dic2, results2 = {}, []
    try:
        for element in data:
            r = U.process_objects(element, dic2)
            results2.append(r if isinstance(r, list) else [r])
    except Exception as e:  # noqa: BLE001
        return [("second-load-differs", "accepted", f"{type(e).__name__}: {e}"[:200])]
    if json.dumps(data, sort_keys=False) != before:
        bad.append(("specification-mutated-by-loading",))
    # (b)
    g1 = json.dumps(canon_py(oc[1], oc[2]), sort_keys=True)
    g2 = json.dumps(canon_py(results2, dic2), sort_keys=True)
    if g1 != g2:
        bad.append(("second-load-differs", "graph"))
    first = {id(o) for o, _h, _a in all_holders(oc[1], oc[2])}
    shared = [o.id for o, _h, _a in all_holders(results2, dic2) if id(o) in first]
    if shared:
        bad.append(("object-shared-between-two-loads", shared[:5]))
    bad += sharing_violations(results2, dic2)
    # (c)
    try:
        dic3 = copy.deepcopy(dic2)
    except Exception as e:  # noqa: BLE001
        ck.bucket("deepcopy-raises/" + type(e).__name__)
        return bad
    res3 = [[dic3[o.id] if getattr(o, "id", None) in dic3 else o for o in rs] for rs in results2]
    res3 = [[o for o in rs if any(o is v for v in dic3.values())] for rs in res3]
    g3 = json.dumps(canon_py([], dic3), sort_keys=True)
    g2r = json.dumps(canon_py([], dic2), sort_keys=True)
    if g3 != g2r:
        bad.append(("deepcopy-not-isomorphic",))
    second = {id(o) for o, _h, _a in all_holders([], dic2)}
    if any(id(o) in second for o, _h, _a in all_holders([], dic3)):
        bad.append(("deepcopy-shares-objects-with-original",))
    bad += [("deepcopy:" + b[0],) + tuple(b[1:]) for b in sharing_violations([], dic3)]
    # an update through the copy's registry: seen by the copy's distributions, not by the original's parameters
    import torch

    orig = {k: v.tensor.detach().clone() for k, v in dic2.items() if type(v).__name__ == "Parameter"}
    bad += [("deepcopy:" + b[0],) + tuple(b[1:]) for b in update_violations(dic3)]
    for k, t in orig.items():
        if not torch.equal(dic2[k].tensor.detach(), t):
            bad.append(("update-of-copy-seen-by-original", k))
            break
    return bad


def expected_reject(tag):
    return tag is not None and tag[1]


# ---------------------------------------------------------------------- shrinking
def shrink(spec, still_bad, budget=150):
    """greedy structural minimisation of a JSON value while `still_bad(spec)` holds"""
    cur = copy.deepcopy(spec)
    n = [0]

    def candidates(j):
        # yields functions producing a smaller variant of the whole spec
        def walk(node, setter):
            if isinstance(node, list):
                for i in range(len(node)):
                    yield lambda node=node, i=i: node.pop(i)
                for i, x in enumerate(node):
                    yield from walk(x, None)
            elif isinstance(node, dict):
                for k in list(node.keys()):
                    if k in ("id", "type"):
                        continue
                    yield lambda node=node, k=k: node.pop(k)
                for k, v in list(node.items()):
                    if isinstance(v, (dict, list)):
                        yield from walk(v, None)
                    if isinstance(v, list) and len(v) == 1 and isinstance(v[0], (dict, str)):
                        yield lambda node=node, k=k, v=v: node.__setitem__(k, v[0])
        yield from walk(j, None)

    progress = True
    while progress and n[0] < budget:
        progress = False
        k = 0
        while n[0] < budget:
            trial = copy.deepcopy(cur)
            cands = list(candidates(trial))
            if k >= len(cands):
                break
            cands[k]()
            n[0] += 1
            try:
                ok = still_bad(trial)
            except Exception:  # noqa: BLE001
                ok = False
            if ok:
                cur = trial
                progress = True
            else:
                k += 1
    return cur


# ---------------------------------------------------------------------- run
def compare_case(ck, drv, U, spec, tag, kind, features):
    """one specification: real pipeline vs Lean pipeline + the property's predicates on the real result.
    Returns the real outcome."""
    real = real_pipeline(U, spec)
    oc = real["outcome"]
    try:
        wire = encs(spec)
    except TypeError:
        return real
    # --- pre-passes, compared tree by tree
    if "cleaned" in real:
        rep = drv.ask("rc " + wire)
        if rep == "bad-op" or not same_json(decs(rep), real["cleaned"]):
            ck.mismatch("remove_comments differs from model", {"spec": spec, "impl": real["cleaned"],
                                                                 "model": None if rep == "bad-op" else decs(rep)})
        if drv.ask("clean " + rep) != "1":
            ck.mismatch("model's removeComments left a comment", {"spec": spec})
        rep2 = drv.ask("plates " + rep)
        if "expanded" in real:
            if not rep2.startswith("ok ") or not same_json(decs(rep2[3:]), real["expanded"]):
                ck.mismatch("expand_plates differs from model", {"spec": spec, "impl": real["expanded"], "model": rep2[:300]})
        else:
            if rep2 != "err " + oc[1]:
                ck.mismatch("expand_plates error differs from model", {"spec": spec, "impl": oc, "model": rep2[:300]})
    # --- loader
    rep = parse_load(drv.ask("main src " + wire))
    if oc[0] == "ok":
        g_py = canon_py(oc[1], oc[2])
        if rep[0] != "ok":
            ck.mismatch("implementation accepts, model rejects", {"spec": spec, "model": rep, "tag": tag})
        else:
            g_le = canon_lean(rep[1], rep[2], rep[3])
            if json.dumps(g_py, sort_keys=True) != json.dumps(g_le, sort_keys=True):
                ck.mismatch("registry / pointer graph differs from model", {"spec": spec, "impl": g_py, "model": g_le})
    elif oc[0] == "err":
        want = [tuple(x) for x in oc[1]]
        if rep[0] != "err" or [tuple(x) for x in rep[1]] != want:
            ck.mismatch("error chain differs from model", {"spec": spec, "impl": oc[1], "model": rep, "exc": real.get("exc")})
    elif oc[0] == "plate-err":
        if rep[0] != "plate-err" or rep[1] != oc[1]:
            ck.mismatch("plate error differs from model", {"spec": spec, "impl": oc, "model": rep})
    else:
        ck.mismatch("remove_comments raised", {"spec": spec, "impl": oc})
    bucket = kind + "/" + (oc[0] if oc[0] != "err" else "err:" + oc[1][-1][0])
    ck.case(key=json.dumps(spec, sort_keys=True), bucket=bucket,
            sample={"kind": kind, "tag": tag, "spec": spec, "outcome": summar(oc)} if ck.rng.random() < 0.02 or ck.evaluations < 2 else None)
    for f in features:
        ck.bucket("feature/" + f)
    return real


def summar(oc):
    if oc[0] == "ok":
        return {"accepted": True, "registry": list(oc[2].keys())}
    return {"accepted": False, "why": oc[1]}


HISTORY_RATE = [0.5]


def oracle(ck, U, spec, real, tag, found):
    """the property's predicates on the implementation's own result; appends to `found`"""
    oc = real["outcome"]
    if oc[0] == "ok":
        bad = sharing_violations(oc[1], oc[2])
        if not bad and "expanded" in real:
            ob = order_violations(real["expanded"], oc[2])
            ck.bucket("order-checked")
            if ob:
                found.append(("order:" + ob[0][0], spec, tag, [list(map(str, b)) for b in ob]))
        if not bad:
            try:
                bad = update_violations(oc[2])
            except Exception as e:  # noqa: BLE001
                ck.notes.append(f"update check raised {type(e).__name__}: {e}"[:200])
        if bad:
            found.append(("duplicate-id-accepted" if any(b[0] in ("two-objects-one-id", "update-not-seen") for b in bad)
                          else bad[0][0], spec, tag, bad))
        elif expected_reject(tag):
            sig = "duplicate-id-accepted" if tag[0].startswith("dup") else f"malformed-accepted:{tag[0]}"
            found.append((sig, spec, tag, []))
    if "expanded" in real and (len(found) == 0) and ck.rng.random() < HISTORY_RATE[0]:
        try:
            hb = history_violations(ck, U, spec, real)
        except Exception as e:  # noqa: BLE001  (hygiene: an unexpected shape is a recorded finding, not a harness crash)
            hb = [("history-check-raised", f"{type(e).__name__}: {e}"[:200])]
        if hb:
            found.append(("history:" + hb[0][0], spec, tag, [list(map(str, b)) for b in hb]))
        ck.bucket("history-checked")
    if oc[0] == "err" and oc[1] and oc[1][-1][0] == "duplicate" and "expanded" in real \
            and not dup_literal_ids(real["expanded"]):
        # "already exists" for an id that the (cleaned, expanded) specification defines exactly once
        found.append(("duplicate-reported-for-unique-id", spec, tag, [list(oc[1][-1])]))


def run(ck: Check):
    ck.rule = (
        "one case = one generated specification (top-level JSON list) run through the REAL remove_comments, "
        "expand_plates and the process_objects loop of torchtree.py, and through the Lean pipeline; distinct = "
        "distinct specification text; non-trivial = every case (each defines at least one object or reference)"
    )
    ck.assumptions += [
        "ids and type names are strings; dict keys are unique (json.load guarantees it); the top level is a list",
        "a class is abstracted to the ordered child keys its from_json hands to process_object(s); the class table "
        "lists the harness's generic classes and Parameter, ViewParameter, CatParameter, TransformedParameter, "
        "Distribution, JointDistributionModel; other classes are covered by the theorems (any class table) but not "
        "by the correspondence",
        "object identity is abstracted to allocation index; tensors/values held by objects are not modelled",
    ]
    ck.trusted += ["Python dict insertion order and identity semantics", "json / copy.deepcopy",
                   "inspect.signature of the torch distribution/transform classes (spot-checked against the model's table)"]
    lean_src, tr_ok, note = tr_loader.translate(REPO)
    ck.extra["translator_note"] = note
    ok, broken = ck.lean_side(
        {"TTGen/C13_LoaderCfg.lean": lean_src},
        ["TTModel.C13_Json", "TTModel.C13_Loader", "TTGen.C13_LoaderCfg", "TTProofs.Props.C13", "drv_c13"],
        "TTProofs/Props/C13.lean",
    )
    try:
        import c19

        ck.extra["tensor_constructors_without_dtype"] = c19.scan_tensor_constructors(
            [REPO / "torchtree" / "core" / x for x in ("utils.py", "serializable.py", "parameter.py")] + [REPO / "torchtree" / "torchtree.py"])
    except Exception:  # noqa: BLE001
        pass
    drv = ck.driver("drv_c13")
    found = []
    try:
        classes, sigs = c13_gen.parse_classes(drv.ask("classes"))
        U = setup(classes)
        check_signatures(ck, U, sigs)
        n_scale = 6 if ck.thorough() else 1
        # ---- corpus first
        for f in sorted((VERIF / "corpus" / "C13").glob("*.json")):
            obj = json.loads(f.read_text())
            real = compare_case(ck, drv, U, obj["spec"], tuple(obj["tag"]) if obj.get("tag") else None, "corpus", [])
            oracle(ck, U, obj["spec"], real, tuple(obj["tag"]) if obj.get("tag") else None, found)
        # ---- exhaustive small family: two nested/sibling literals with equal or distinct ids, all generic shapes
        for spec, tag in small_family():
            real = compare_case(ck, drv, U, spec, tag, "small", [])
            oracle(ck, U, spec, real, tag, found)
        # ---- comments x plates through the public entry point
        for spec, tag in ignored_plate_family():
            real = compare_case(ck, drv, U, spec, tag, "ignored-plate", [])
            oracle(ck, U, spec, real, tag, found)
            for sig, detail in entry_point_violations(U, spec, real):
                found.append((sig, spec, tag, detail))
            ck.bucket("entry-point-checked")
        # ---- generated streams
        for i in range(260 * n_scale):
            g = c13_gen.SpecGen(ck.rng, classes, sigs, real=(i % 3 != 0), max_depth=ck.rng.choice([2, 3, 4, 6]),
                                size=ck.rng.choice([4, 8, 14, 30]))
            mode = ["well", "comments", "plates", "malformed", "malformed"][i % 5]
            sp = g.spec(plates=(mode == "plates" or (mode == "malformed" and i % 2 == 0)))
            tag = None
            if mode == "malformed":
                tag = c13_gen.mutate(sp, ck.rng)
            spec = sp.top
            feats = sorted(sp.features) + ([tag[0]] if tag else [])
            real = compare_case(ck, drv, U, spec, tag, mode, feats)
            oracle(ck, U, spec, real, tag, found)
            if mode == "well" and real["outcome"][0] != "ok":
                ck.bucket("well-formed-rejected")
                ck.notes.append("well-formed spec rejected: " + json.dumps(spec)[:300] + " -> " + str(real["outcome"])[:200])
            if mode == "comments":
                ids = [d.get("id") for d in sp.lits if isinstance(d.get("id"), str)]
                commented = c13_gen.add_comments(spec, ck.rng, ids)
                real2 = compare_case(ck, drv, U, commented, None, "commented", [])
                real3 = real_pipeline(U, strip_comments(copy.deepcopy(commented)))
                if not same_outcome(real, real2) or not same_outcome(real3, real2):
                    found.append(("comment-has-effect", commented, None, [summar(real["outcome"]), summar(real2["outcome"])]))
                for sig, detail in entry_point_violations(U, commented, real2):
                    found.append((sig, commented, None, detail))
                ck.bucket("entry-point-checked")
            elif mode == "plates":
                for sig, detail in entry_point_violations(U, spec, real):
                    found.append((sig, spec, None, detail))
                ck.bucket("entry-point-checked")
        # ---- the specifications the CLI emits (another construction route): loaded as torchtree does, same predicates
        cli_route(ck, found)
        # ---- json_factory helpers (implementation only)
        try:
            import c13_factory

            c13_factory.run(ck, U, found)
        except ImportError:
            ck.notes.append("json_factory check not present")
    finally:
        drv.close()
    report(ck, U, ok, broken, found, note)


def same_outcome(a, b):
    oa, ob = a["outcome"], b["outcome"]
    if oa[0] != ob[0]:
        return False
    if oa[0] == "ok":
        return json.dumps(canon_py(oa[1], oa[2]), sort_keys=True) == json.dumps(canon_py(ob[1], ob[2]), sort_keys=True)
    return oa[1] == ob[1]


def small_family():
    """every pair of object literals in parent/child, grandchild, sibling, cousin and top-level position,
    with equal ids (must be rejected) and distinct ids (must be accepted)"""
    out = []
    leaf = lambda i: {"id": i, "type": "VLeaf"}  # noqa: E731
    for same in (True, False):
        b = "a" if same else "b"
        tag = ("dup-small", True, {}) if same else None
        out.append(([{"id": "a", "type": "VOne", "x": leaf(b)}], tag))                                   # child
        out.append(([{"id": "a", "type": "VOne", "x": {"id": "m", "type": "VOne", "x": leaf(b)}}], tag))  # grandchild
        out.append(([{"id": "a", "type": "VMany", "xs": [leaf("c"), leaf(b)]}], tag))                     # child in list
        out.append(([{"id": "p", "type": "VPair", "a": leaf("a"), "b": leaf(b)}], tag))                   # siblings
        out.append(([{"id": "p", "type": "VRev", "a": leaf("a"), "b": leaf(b)}], tag))
        out.append(([{"id": "p", "type": "VPair", "a": {"id": "m", "type": "VOne", "x": leaf("a")},
                      "b": {"id": "n", "type": "VOne", "x": leaf(b)}}], tag))                             # cousins
        out.append(([leaf("a"), leaf(b)], tag))                                                            # top level
        out.append(([[leaf("a"), leaf(b)]], tag))
        out.append(([leaf("a"), {"id": "p", "type": "VOne", "x": leaf(b)}], tag))                         # top vs nested
        out.append(([{"id": "p", "type": "VOne", "x": leaf("a")}, leaf(b)], tag))
        out.append(([{"id": "a", "type": "ViewParameter", "indices": "0:1",
                      "parameter": {"id": b, "type": "Parameter", "tensor": [1.0, 2.0]}}], tag))          # real classes
        out.append(([{"id": "a", "type": "CatParameter",
                      "parameters": [{"id": "c", "type": "Parameter", "tensor": [1.0]},
                                     {"id": b, "type": "Parameter", "tensor": [2.0]}]}], tag))
        out.append(([{"id": "a", "type": "Distribution", "distribution": "torch.distributions.Normal",
                      "x": {"id": "y", "type": "Parameter", "tensor": [1.0]},
                      "parameters": {"loc": 0.0, "scale": {"id": b, "type": "Parameter", "tensor": [1.0]}}}], tag))
    # a class whose from_json registers the object itself (FlexibleTimeTreeModel shape): cycle, duplicates around it
    out.append(([{"id": "t", "type": "VSelf", "pre": leaf("taxa"), "inner": {"id": "h", "type": "VOne", "x": "t"}}], None))
    out.append(([{"id": "t", "type": "VSelf", "inner": "t"}], None))
    out.append(([{"id": "t", "type": "VSelf", "inner": leaf("h"), "rest": ["t", "h", leaf("k")]}, {"id": "u", "type": "VOne", "x": "t"}], None))
    out.append(([{"id": "t", "type": "VSelf", "inner": leaf("t")}], ("dup-small", True, {})))
    out.append(([{"id": "t", "type": "VSelf", "pre": leaf("t"), "inner": leaf("h")}], ("dup-small", True, {})))
    out.append(([{"id": "t", "type": "VSelf", "pre": "t", "inner": leaf("h")}], ("forward", True, {})))
    out.append(([leaf("t"), {"id": "t", "type": "VSelf", "inner": leaf("h")}], ("dup-small", True, {})))
    out.append(([{"id": "t", "type": "VSelf", "inner": {"id": "m", "type": "VOne", "x": leaf("t")}}], ("dup-small", True, {})))
    out += tree_family()
    out += same_class_family()
    out += range_family()
    out += value_type_family()
    out += falsy_family()
    # ids that are falsy / odd strings themselves
    for odd in ("", "0", "False", "None", " a b ", "é.ü"):
        out.append(([leaf(odd), {"id": "p", "type": "VPair", "a": odd, "b": odd}], None))
        out.append(([leaf(odd), leaf(odd)], ("dup-small", True, {})))
        out.append(([{"id": odd, "type": "VOne", "x": leaf(odd)}], ("dup-small", True, {})))
        out.append(([{"id": "p", "type": "VOne", "x": odd}, leaf(odd)], ("forward", True, {})))
    # references: shared, forward, dangling, to the enclosing object
    out.append(([leaf("a"), {"id": "p", "type": "VPair", "a": "a", "b": "a"}], None))
    out.append(([{"id": "p", "type": "VOne", "x": "a"}, leaf("a")], ("forward", True, {})))
    out.append(([{"id": "p", "type": "VOne", "x": "nowhere"}], ("dangling", True, {})))
    out.append(([{"id": "p", "type": "VOne", "x": "p"}], ("ref-to-enclosing", True, {})))
    out.append(([{"id": "p", "type": "VPair", "a": leaf("a"), "b": "a"}], None))
    out.append(([{"id": "p", "type": "VRev", "a": leaf("a"), "b": "a"}], ("forward", True, {})))
    return out


def value_type_family():
    """a registered parameter of every value TYPE (int64 as written without a decimal point, bool, float32, float64, explicit
    long, 0-d, empty) REFERRED TO BY ID from every kind of consumer (each Distribution argument, x, ViewParameter,
    CatParameter, TransformedParameter), alone and shared by two consumers: after the load every holder must hold the
    registered instance whatever the type of its value (a consumer that converts the value must not keep a private copy
    under the same id)"""
    out = []
    forms = [{"tensor": [0]}, {"tensor": [1, 2]}, {"tensor": [True, False]}, {"tensor": [0.5]},
             {"tensor": [0.5], "dtype": "torch.float64"}, {"tensor": [3], "dtype": "torch.long"}, {"tensor": 1.5}, {"tensor": 2},
             {"tensor": []}, {"tensor": [0.25, 0.5], "dtype": "torch.float16"}]
    y = {"id": "y", "type": "Parameter", "tensor": [0.5, 1.5], "dtype": "torch.float64"}
    s2 = {"id": "s", "type": "Parameter", "tensor": [2.0]}
    for f in forms:
        m = dict({"id": "m", "type": "Parameter"}, **f)
        oned = isinstance(f["tensor"], list) and len(f["tensor"]) > 0
        dist = lambda i, x, pr, d="torch.distributions.Normal": {"id": i, "type": "Distribution", "distribution": d,  # noqa: E731
                                                                  "x": x, "parameters": pr}
        out.append(([copy.deepcopy(m), dist("d", copy.deepcopy(y), {"loc": "m", "scale": 1.0})], None))
        out.append(([copy.deepcopy(m), copy.deepcopy(s2), dist("d", copy.deepcopy(y), {"loc": 0.0, "scale": "m"})], None))
        out.append(([copy.deepcopy(m), dist("d", copy.deepcopy(y), {"concentration": "m", "rate": "m"}, "torch.distributions.Gamma")], None))
        out.append(([copy.deepcopy(m), dist("d", "m", {"loc": 0.0, "scale": 1.0})], None))
        out.append(([copy.deepcopy(m), copy.deepcopy(y), dist("d", "y", {"loc": "m", "scale": 1.0}),
                     dist("d2", "y", {"loc": "m", "scale": {"id": "s3", "type": "Parameter", "tensor": [3.0]}})], None))
        out.append(([copy.deepcopy(m), {"id": "t", "type": "TransformedParameter", "transform": "torch.distributions.ExpTransform", "x": "m"}], None))
        if oned:
            out.append(([copy.deepcopy(m), {"id": "v", "type": "ViewParameter", "indices": "0:1", "parameter": "m"},
                         dist("d", copy.deepcopy(y), {"loc": "m", "scale": 1.0})], None))
            out.append(([copy.deepcopy(m), {"id": "c", "type": "CatParameter", "parameters": ["m", copy.deepcopy(s2)]},
                         dist("d", copy.deepcopy(y), {"loc": 0.0, "scale": "m"})], None))
    return out


def ignored_plate_family():
    """the two pre-passes INTERACT: a Plate that is itself a comment (marked ignore, under an underscore key, inside an
    ignored object) must never be expanded - its clones would exist, collide with ids defined by hand, or be run; an ignore
    flag / underscore key INSIDE a plate's template applies to every clone; plates that are not comments expand as ever"""
    out = []
    leaf = lambda i: {"id": i, "type": "VLeaf"}  # noqa: E731

    def plate(ids, rng_="0:2", var=None, **kw):
        p = dict({"type": "Plate", "range": rng_, "object": {"id": ids, "type": "VLeaf"}}, **kw)
        if var:
            p["var"] = var
        return p
    for flag in (True, 1, "yes"):
        out.append(([leaf("a"), plate("p.*", ignore=flag), leaf("p.0"), {"id": "h", "type": "VPair", "a": "a", "b": "p.0"}], None))
        out.append(([[plate("p.${i}", var="i", ignore=flag), leaf("p.0")], leaf("p.1")], None))
    out.append(([leaf("a"), plate("p.*", ignore=False), leaf("q")], None))                      # falsy flag: a plate like any other
    out.append(([leaf("a"), plate("p.*", ignore=0), leaf("p.0")], ("dup-small", True, {})))     # … so its clone collides
    out.append(([leaf("a"), plate("p.*"), {"id": "h", "type": "VOne", "x": "p.{0:2}"}], None))
    out.append(([{"id": "m", "type": "VMany", "xs": [leaf("c"), plate("p.*", ignore=True)], "_k": [plate("u.*")]}, leaf("p.0"), leaf("u.0")], None))
    out.append(([{"id": "m", "type": "VMany", "xs": [leaf("c")], "_plates": [plate("c*", "0:1")]}], None))
    out.append(([{"id": "z", "type": "VLeaf", "ignore": True, "inner": [plate("q.*")]}, leaf("q.0")], None))
    out.append(([{"id": "m", "type": "VMany", "xs": [plate("p.*", ignore=True), plate("p.*")]}], None))
    # comments INSIDE the template: stripped from every clone
    out.append(([[{"type": "Plate", "range": "0:2", "object": {"id": "p.*", "type": "VOne", "x": {"id": "c.*", "type": "VLeaf"},
                                                               "_note": {"id": "c.*", "type": "VLeaf"}}}]], None))
    out.append(([[{"type": "Plate", "range": "0:2", "object": {"id": "p.*", "type": "VMany",
                                                               "xs": [{"id": "k.*", "type": "VLeaf"}, {"id": "k.*", "type": "VLeaf", "ignore": True}]}}]], None))
    out.append(([[{"type": "Plate", "range": "0:2", "object": {"id": "p.*", "type": "VLeaf", "ignore": True}}, leaf("p.0")]], None))
    return out


def range_family():
    """the reference SPELLING `stem{a:b}` (as in examples/advi/planar-flow.json "w.{0:3}"): it denotes the last member but
    every member stem+a … stem+(b-1) has to be defined BEFORE the reference; each member position (first / middle / last /
    all) undefined, with and without an offset, as a child, in a list slot, at top level, over plate clones (star and
    ${var} forms), defined only later, and through a real class"""
    out = []
    w = lambda i: {"id": f"w.{i}", "type": "VLeaf"}  # noqa: E731
    one = lambda ref: {"id": "p", "type": "VOne", "x": ref}  # noqa: E731
    bad = lambda pos: ("dangling-range:" + pos, True, {})  # noqa: E731
    for defined, ref, pos in (((0, 1, 2), "w.{0:3}", None), ((1, 2), "w.{0:3}", "first"), ((0, 2), "w.{0:3}", "middle"),
                              ((0, 1), "w.{0:3}", "last"), ((), "w.{0:3}", "all"), ((0, 1, 2, 3), "w.{1:3}", None),
                              ((0, 2, 3), "w.{1:3}", "first"), ((0, 1, 3), "w.{1:3}", "last"),
                              ((0, 1, 2, 3, 4), "w.{0:5}", None), ((0, 1, 3, 4), "w.{0:5}", "middle"),
                              ((9, 10, 11), "w.{9:12}", None), ((9, 11), "w.{9:12}", "middle"), ((10, 11), "w.{9:12}", "first")):
        tag = bad(pos) if pos else None
        lits = [w(i) for i in defined]
        out.append((lits + [one(ref)], tag))
        out.append((lits + [{"id": "p", "type": "VMany", "xs": ([w(7)] if 7 not in defined else []) + [ref]}], tag))
        out.append((lits + [ref], tag))
        out.append(([lits[::-1] + [{"id": "p", "type": "VPair", "a": ref, "b": ref}]], tag))
    # members defined only AFTER the reference
    out.append(([w(0), w(1), one("w.{0:3}"), w(2)], ("forward", True, {})))
    out.append(([w(1), w(2), one("w.{0:3}"), w(0)], ("forward", True, {})))
    # over plate clones
    for form, var in (("w.*", None), ("w.${i}", "i")):
        def plate(rng_, form=form, var=var):
            p = {"type": "Plate", "range": rng_, "object": {"id": form, "type": "VLeaf"}}
            if var:
                p["var"] = var
            return p
        out.append(([[plate("0:3")], one("w.{0:3}")], None))
        out.append(([[plate("1:3")], one("w.{0:3}")], bad("first")))
        out.append(([[plate("0:2")], one("w.{0:3}")], bad("last")))
        out.append(([[plate("0:1"), plate("2:3")], one("w.{0:3}")], bad("middle")))
        out.append(([[plate("0:1"), plate("2:3")], one("w.{2:3}")], None))
    # a real class: CatParameter over a range of parameters (resolves to the last one)
    q = lambda i: {"id": f"q.{i}", "type": "Parameter", "tensor": [float(i)]}  # noqa: E731
    out.append(([q(0), q(1), q(2), {"id": "c", "type": "CatParameter", "parameters": ["q.{0:3}", "q.0"]}], None))
    out.append(([q(1), q(2), {"id": "c", "type": "CatParameter", "parameters": ["q.{0:3}", "q.1"]}], bad("first")))
    out.append(([q(0), q(2), {"id": "v", "type": "ViewParameter", "indices": "0:1", "parameter": "q.{0:3}"}], bad("middle")))
    return out


def same_class_family():
    """a nested literal with the id AND THE CLASS of an enclosing one (child, grandchild, list element), generic and real
    classes: a duplicate test that looks at the class of the holder of the id (`isinstance(dic[id], klass)`) lets exactly
    these through"""
    out = []
    tag = ("dup-small", True, {})
    leaf = lambda i: {"id": i, "type": "VLeaf"}  # noqa: E731
    par = lambda i, v: {"id": i, "type": "Parameter", "tensor": v}  # noqa: E731
    one = lambda i, x: {"id": i, "type": "VOne", "x": x}  # noqa: E731
    out.append(([one("a", one("a", leaf("c")))], tag))
    out.append(([one("a", one("m", one("a", leaf("c"))))], tag))
    out.append(([{"id": "a", "type": "VMany", "xs": [leaf("c"), {"id": "a", "type": "VMany", "xs": []}]}], tag))
    out.append(([{"id": "a", "type": "VPair", "a": {"id": "a", "type": "VPair", "a": leaf("c"), "b": leaf("d")}, "b": leaf("e")}], tag))
    out.append(([{"id": "a", "type": "VPair", "a": leaf("e"), "b": {"id": "a", "type": "VPair", "a": leaf("c"), "b": leaf("d")}}], tag))
    out.append(([{"id": "a", "type": "VRev", "a": {"id": "a", "type": "VRev", "a": leaf("c"), "b": leaf("d")}, "b": leaf("e")}], tag))
    out.append(([{"id": "a", "type": "VLeaf"}, one("p", one("q", leaf("a")))], tag))
    dist = lambda i, x: {"id": i, "type": "Distribution", "distribution": "torch.distributions.Normal", "x": x,  # noqa: E731
                         "parameters": {"loc": 0.0, "scale": 1.0}}
    joint = lambda i, ds: {"id": i, "type": "JointDistributionModel", "distributions": ds}  # noqa: E731
    out.append(([joint("j", [joint("j", [dist("d", par("y", [0.5]))])])], tag))
    out.append(([joint("j", [dist("e", par("z", [1.5])), joint("k", [joint("j", [dist("d", par("y", [0.5]))])])])], tag))
    out.append(([{"id": "c", "type": "CatParameter", "parameters": [par("u", [1.0]),
                  {"id": "c", "type": "CatParameter", "parameters": [par("v", [2.0]), par("w", [3.0])]}]}], tag))
    out.append(([{"id": "v", "type": "ViewParameter", "indices": "0:1",
                  "parameter": {"id": "v", "type": "ViewParameter", "indices": "0:2", "parameter": par("u", [1.0, 2.0, 3.0])}}], tag))
    out.append(([{"id": "t", "type": "TransformedParameter", "transform": "torch.distributions.ExpTransform",
                  "x": {"id": "t", "type": "TransformedParameter", "transform": "torch.distributions.ExpTransform", "x": par("u", [0.5])}}], tag))
    out.append(([dist("d", par("y", [0.5])), joint("j", [joint("k", [dist("d", par("y2", [0.5]))])])], tag))
    return out


def tree_family():
    """the real tree-model classes with every sub-object inline: the tree's own id re-used at EVERY nested position
    (Taxa, each Taxon, each parameter, the transform and its child), sibling duplicates, forward references, sharing"""
    out = []
    DIFF = c13_gen.DIFF

    def base(ty, cyc=False):
        # list order = leaf index; neither sorted, reverse-sorted, case-folded nor numeric order; a date per taxon
        names = ["t2", "10", "T1"]
        taxons = [{"id": n, "type": "Taxon", "attributes": {"date": d}} for n, d in zip(names, (0.0, 0.5, 0.25))]
        taxa = {"id": "tx", "type": "Taxa", "taxa": taxons}
        t = {"id": "T", "type": ty, "newick": "((t2:1,10:1):1,T1:2);", "taxa": taxa}
        nested = [("taxa", taxa)] + [("taxon%d" % i, x) for i, x in enumerate(taxons)]
        par = lambda i, v: {"id": i, "type": "Parameter", "tensor": v}  # noqa: E731
        if ty == "UnRootedTreeModel":
            t["branch_lengths"] = par("bl", [0.5, 0.25, 1.0])
            nested.append(("branch_lengths", t["branch_lengths"]))
        elif ty == "TimeTreeModel" or (ty == "FlexibleTimeTreeModel" and not cyc):
            t["internal_heights"] = par("h", [1.0, 2.0])
            nested.append(("internal_heights", t["internal_heights"]))
        elif ty == "FlexibleTimeTreeModel":
            x = par("sh", [1.0, 1.0])
            t["internal_heights"] = {"id": "h", "type": "TransformedParameter", "transform": DIFF,
                                     "parameters": {"tree_model": "T"}, "x": x}
            nested += [("heights-transform", t["internal_heights"]), ("heights-transform.x", x)]
        elif cyc:   # Reparameterized with shifts
            t["shifts"] = par("sh", [1.0, 1.0])
            nested.append(("shifts", t["shifts"]))
        else:
            t["root_height"] = par("rh", [2.0])
            t["ratios"] = par("ra", [0.5])
            nested += [("root_height", t["root_height"]), ("ratios", t["ratios"])]
        return t, nested

    def rename(t, lit, new):
        old = lit["id"]
        lit["id"] = new
        if lit.get("type") == "Taxon":
            t["newick"] = t["newick"].replace(old + ":", new + ":")

    for ty in c13_gen.TREES:
        for cyc in ((False, True) if ty in ("FlexibleTimeTreeModel", "ReparameterizedTimeTreeModel") else (False,)):
            t, nested = base(ty, cyc)
            out.append(([t], None))
            # the tree's own id at every nested position
            for k in range(len(nested)):
                t, nested = base(ty, cyc)
                rename(t, nested[k][1], "T")
                out.append(([t], ("dup-tree-id:" + nested[k][0], True, {"class": ty})))
            # sibling / cousin duplicates among the nested literals
            for i in range(len(nested)):
                for j in range(i + 1, len(nested)):
                    t, nested = base(ty, cyc)
                    rename(t, nested[j][1], nested[i][1]["id"])
                    out.append(([t], ("dup-nested:%s=%s" % (nested[j][0], nested[i][0]), True, {"class": ty})))
            # forward references: the Taxa / a parameter defined only AFTER the tree that refers to it
            t, nested = base(ty, cyc)
            taxa = t["taxa"]
            t["taxa"] = "tx"
            out.append(([t, taxa], ("forward", True, {"class": ty})))
            out.append(([copy.deepcopy(taxa), copy.deepcopy(t)], None))
            t, nested = base(ty, cyc)
            key = [k for k in ("branch_lengths", "internal_heights", "shifts", "ratios") if k in t][0]
            lit = t[key]
            t[key] = lit["id"]
            out.append(([t, lit], ("forward", True, {"class": ty})))
            out.append(([copy.deepcopy(lit), copy.deepcopy(t)], None))
            # a top-level object defined BEFORE the tree with the tree's id
            t, nested = base(ty, cyc)
            out.append(([{"id": "T", "type": "VLeaf"}, t], ("dup-small", True, {"class": ty})))
    # one Taxa shared by two trees
    t1, _ = base("TimeTreeModel")
    t2, _ = base("FlexibleTimeTreeModel", True)
    taxa = t1["taxa"]
    t1["taxa"] = "tx"
    t2["taxa"] = "tx"
    t2["id"] = "T2"
    t2["internal_heights"]["parameters"]["tree_model"] = "T2"
    t2["internal_heights"]["id"] = "h2"
    out.append(([taxa, t1, t2], None))
    return out


def cli_route(ck, found):
    """construction route `torchtree-cli … | torchtree`: every id of the emitted file denotes one shared instance"""
    try:
        import c19_cli as C
        import c19_space as S
    except ImportError:
        ck.notes.append("cli route not available")
        return
    base = {"model": "HKY", "categories": 4, "invariant": True, "grid": None, "cutoff": None, "family": "meanfield",
            "distribution": "Normal", "init": None}
    cfgs = [dict(base, cmd="hmc", clock="strict", heights="ratio", treeprior="constant"),
            dict(base, cmd="mcmc", clock="ucln", heights="ratio", treeprior="skyride"),
            dict(base, cmd="advi", clock="strict", heights="ratio", treeprior="skygrid"),
            dict(base, cmd="map", clock=None, heights="ratio", treeprior=None),
            dict(base, cmd="advi", clock=None, heights="ratio", treeprior=None, model="GTR"),
            dict(base, cmd="hmc", clock="strict", heights="shift", treeprior="exponential", model="SRD06")]
    data = C.data_dir()
    try:
        for cfg in cfgs:
            cfg = S.normalise(cfg)
            argv = S.to_argv(cfg, data)
            try:
                import contextlib
                import io

                with contextlib.redirect_stdout(io.StringIO()), contextlib.redirect_stderr(io.StringIO()):
                    _em, text, _recs, _wc = C.run_cli(argv, record=False)
                    dic, objs = C.dry_load(text)
            except Exception as e:  # noqa: BLE001  (C19's business; here only what loads is examined)
                ck.bucket("cli-route/not-loaded/" + type(e).__name__)
                continue
            results = [o if isinstance(o, list) else [o] for o in objs]
            bad = sharing_violations(results, dic)
            ck.case(key="cli:" + " ".join(argv[5:]) + argv[0], bucket="cli-route/" + ("ok" if not bad else "violates"),
                    sample=None)
            if bad:
                found.append(("cli-emitted:" + bad[0][0], {"argv": " ".join(S.to_argv(cfg, Path("DATA")))}, None,
                              [list(map(str, b)) for b in bad[:5]]))
    finally:
        C.cleanup()


def falsy_family():
    """registered objects that are FALSY in Python (attribute-less Taxon = empty UserDict, empty Taxa = empty UserList,
    generic objects with __bool__ False / __len__ 0): their id is taken all the same — defining it again anywhere must be
    rejected, and references to them must resolve to the one instance"""
    out = []
    kinds = {
        "Taxon": lambda i: {"id": i, "type": "Taxon"},
        "Taxa": lambda i: {"id": i, "type": "Taxa", "taxa": []},
        "VFalsy": lambda i: {"id": i, "type": "VFalsy"},
        "VEmpty": lambda i: {"id": i, "type": "VEmpty"},
    }
    leaf = lambda i: {"id": i, "type": "VLeaf"}  # noqa: E731
    for k, mk in kinds.items():
        tag = ("dup-falsy:" + k, True, {})
        out.append(([mk("a"), mk("a")], tag))                                              # twice at top level
        out.append(([mk("a"), leaf("a")], tag))                                            # then an ordinary object
        out.append(([leaf("a"), mk("a")], tag))
        out.append(([mk("a"), {"id": "p", "type": "VOne", "x": mk("a")}], tag))            # then nested
        out.append(([{"id": "p", "type": "VOne", "x": mk("a")}, mk("a")], tag))
        out.append(([{"id": "p", "type": "VPair", "a": mk("a"), "b": mk("a")}], tag))      # siblings
        out.append(([{"id": "a", "type": "VOne", "x": mk("a")}], tag))                     # child of an object with its id
        out.append(([{"id": "t", "type": "VSelf", "pre": mk("t"), "inner": leaf("h")}], tag))
        out.append(([{"id": "t", "type": "VSelf", "inner": mk("t")}], tag))
        out.append(([mk("a"), {"id": "p", "type": "VPair", "a": "a", "b": "a"}], None))    # shared by reference
        out.append(([{"id": "p", "type": "VOne", "x": "a"}, mk("a")], ("forward", True, {})))
    # what UnRootedTreeModel.json_factory(..., taxa={...}) emits: attribute-less taxa; one of them defined twice
    bare = lambda n: {"id": n, "type": "Taxon"}  # noqa: E731
    tree = {"id": "T", "type": "UnRootedTreeModel", "newick": "((tA:1,tB:1):1,tC:2);",
            "taxa": {"id": "tx", "type": "Taxa", "taxa": [bare("tA"), bare("tB"), bare("tC")]},
            "branch_lengths": {"id": "bl", "type": "Parameter", "tensor": [0.5, 0.25, 1.0]}}
    out.append(([copy.deepcopy(tree)], None))
    out.append(([bare("tA"), copy.deepcopy(tree)], ("dup-falsy:Taxon", True, {})))
    out.append(([copy.deepcopy(tree), bare("tB")], ("dup-falsy:Taxon", True, {})))
    out.append(([{"id": "tx", "type": "Taxa", "taxa": []}, copy.deepcopy(tree)], ("dup-falsy:Taxa", True, {})))
    # mixed dtypes around a Distribution: x float64, hyper-parameters without dtype (float32), shared with other holders
    par = lambda i, v, dt=None: dict({"id": i, "type": "Parameter", "tensor": v}, **({"dtype": dt} if dt else {}))  # noqa: E731
    for dist, args in (("torch.distributions.Normal", ("loc", "scale")), ("torch.distributions.Gamma", ("concentration", "rate"))):
        for xdt, pdt in (("torch.float64", None), (None, "torch.float64"), ("torch.float64", "torch.float32")):
            out.append(([par("m", [1.0], pdt), par("s", [2.0], pdt),
                         {"id": "d", "type": "Distribution", "distribution": dist, "x": par("y", [0.5, 1.5], xdt),
                          "parameters": {args[0]: "m", args[1]: "s"}},
                         {"id": "v", "type": "ViewParameter", "parameter": "m", "indices": ":"},
                         {"id": "d2", "type": "Distribution", "distribution": dist, "x": "y",
                          "parameters": {args[0]: "m", args[1]: {"id": "s2", "type": "Parameter", "tensor": [3.0]}}}], None))
    return out


def check_signatures(ck, U, sigs):
    import inspect

    for name, args in sigs.items():
        try:
            klass = U.get_class(name)
            real = list(inspect.signature(klass.__init__).parameters)[1:]
        except Exception as e:  # noqa: BLE001
            real = ["<" + type(e).__name__ + ">"]
        if real != args:
            ck.mismatch("constructor signature table differs from torch", {"class": name, "model": args, "torch": real})


def report(ck, U, ok, broken, found, note):
    ck.extra["oracle_failures_on_implementation"] = len(found)
    if found:
        # group by signature, minimise one witness of each
        by = {}
        for sig, spec, tag, detail in found:
            if sig.startswith("factory:"):
                sig = factory_sig(sig, str(detail))
            by.setdefault(sig, []).append((spec, tag, detail))
        for sig, lst in sorted(by.items()):
            lst.sort(key=lambda x: len(json.dumps(x[0])))
            spec, tag, detail = lst[0]
            if sig.startswith("factory:"):
                ck.violation(sig, f"{spec.get('helper')}.json_factory output does not evaluate like the directly "
                                  f"constructed object ({len(lst)} argument form(s)): {str(detail)[:260]}",
                             {"factory_case": spec, "detail": detail,
                              "all_variants": [x[0].get("variant") for x in lst]})
                continue
            pred = make_pred(U, sig)
            small = shrink(spec, pred) if pred else spec
            what = {
                "duplicate-id-accepted": "two distinct object instances carry one id after an ACCEPTED load (an id was defined "
                                         "twice, or a reference did not resolve to the registered instance)",
                "registered-under-other-id": "an object is registered under a key that is not its id",
                "duplicate-reported-for-unique-id": "a specification that defines every id exactly once is rejected with "
                                                    "`already exists`",
                "holder-of-unregistered-id": "a reachable object carries an id the registry does not know",
                "comment-has-effect": "underscore keys / ignored objects change what is loaded",
                "entry-point-differs-from-helpers": "torchtree.torchtree.main builds something else than remove_comments -> "
                                                    "expand_plates -> process_objects on the same specification",
            }.get(sig, f"malformed specification accepted ({sig})")
            if sig.startswith("order:"):
                now = []
                try:
                    r = real_pipeline(U, small)
                    now = order_violations(r["expanded"], r["outcome"][2]) if r["outcome"][0] == "ok" else []
                except Exception:  # noqa: BLE001
                    pass
                now = [b for b in now if "order:" + b[0] == sig] or detail
                what = ("an accepted load does not keep the order the specification gives (lists keep their order; taxon i "
                        f"of a Taxa is leaf i) - {' '.join(map(str, now[0]))[:240]}")
            ck.violation("process_object:" + sig, what + ": " + json.dumps(small)[:300],
                         {"spec": small, "original_spec": spec if len(json.dumps(spec)) < 4000 else None, "tag": tag,
                          "detail": detail, "occurrences": len(lst), "broken_obligations": broken,
                          "replay_cmd": "./check C13 --replay <this file>"})
    elif not ok or ck.mismatches:
        ck.violation("process_object:unproved",
                     "C13 theorems or the model/implementation correspondence no longer check",
                     {"broken_obligations": broken, "mismatches": ck.mismatches[:5], "translator_note": note},
                     found_input=False)


def factory_sig(sig, detail):
    """one signature per helper and cause (not per argument form)"""
    helper = sig.split(":")[1]
    m = re.search(r"raised (\w+): ([^;(]{0,40})", detail)
    if m:
        cause = "load-raises-" + m.group(1) + "-" + re.sub(r"[^A-Za-z]+", "-", re.sub(r"`[^']*'", "", m.group(2))).strip("-")[:30]
    else:
        cause = "differs-" + re.sub(r"[^A-Za-z]+", "-", re.sub(r"\[[^\]]*\]", "", detail)[:40]).strip("-")
    return f"factory:{helper}:{cause}"


def make_pred(U, sig):
    if sig == "duplicate-id-accepted":
        def pred(spec):
            oc = real_pipeline(U, spec)["outcome"]
            if oc[0] != "ok":
                return False
            return (any(b[0] == "two-objects-one-id" for b in sharing_violations(oc[1], oc[2]))
                    or bool(update_violations(oc[2])) or bool(dup_literal_ids(spec)))
        return pred
    if sig == "duplicate-reported-for-unique-id":
        def pred3(spec):
            r = real_pipeline(U, spec)
            oc = r["outcome"]
            return (oc[0] == "err" and bool(oc[1]) and oc[1][-1][0] == "duplicate" and "expanded" in r
                    and not dup_literal_ids(r["expanded"]))
        return pred3
    if sig.startswith("order:"):
        def pred4(spec):
            r = real_pipeline(U, spec)
            oc = r["outcome"]
            return oc[0] == "ok" and "expanded" in r and any("order:" + b[0] == sig for b in order_violations(r["expanded"], oc[2]))
        return pred4
    if sig == "comment-has-effect":
        def pred2(spec):
            if not same_outcome(real_pipeline(U, spec), real_pipeline(U, strip_comments(copy.deepcopy(spec)))):
                return True
            return isinstance(spec, list) and any(s_ == sig for s_, _ in entry_point_violations(U, spec, real_pipeline(U, spec)))
        return pred2
    if sig == "entry-point-differs-from-helpers":
        def pred5(spec):
            return isinstance(spec, list) and any(s_ == sig for s_, _ in entry_point_violations(U, spec, real_pipeline(U, spec)))
        return pred5
    return None


def strip_comments(j):
    """the property's own reading of a comment, independent of remove_comments: drop keys starting with '_',
    drop dicts whose `ignore` is truthy (as list elements or dict values)"""
    def ign(v):
        return isinstance(v, dict) and bool(v.get("ignore", False))
    if isinstance(j, list):
        return [strip_comments(x) for x in j if not ign(x)]
    if isinstance(j, dict):
        return {k: strip_comments(v) for k, v in j.items() if not k.startswith("_") and not ign(v)}
    return j


def dup_literal_ids(spec):
    """ids carried by two object literals (dicts with id and type) anywhere in an ACCEPTED, comment-free,
    plate-free specification: used only to keep a shrunk witness a witness"""
    seen, dup = set(), set()

    def walk(j):
        if isinstance(j, list):
            for x in j:
                walk(x)
        elif isinstance(j, dict):
            if isinstance(j.get("id"), str) and "type" in j:
                (dup if j["id"] in seen else seen).add(j["id"])
            for v in j.values():
                walk(v)
    walk(spec)
    return sorted(dup)


def replay(path: str) -> int:
    obj = json.loads(Path(path).read_text())
    if "factory_case" in obj:
        use_repo()
        import c13_factory

        return c13_factory.replay_case(obj["factory_case"])
    if "spec" not in obj:
        print("replay names broken obligations only:", obj.get("broken_obligations"), obj.get("mismatches"))
        return 1
    # the generic classes are defined by the Lean class table: ask the driver
    from common import Driver

    drv = Driver("drv_c13")
    try:
        classes, _ = c13_gen.parse_classes(drv.ask("classes"))
    finally:
        drv.close()
    U = setup(classes)
    spec = obj["spec"]
    real = real_pipeline(U, spec)
    oc = real["outcome"]
    print("specification:", json.dumps(spec))
    if obj.get("signature", "").endswith("comment-has-effect"):
        base = strip_comments(copy.deepcopy(spec))
        real0 = real_pipeline(U, base)
        same = same_outcome(real0, real)
        print("without the comments:", json.dumps(base))
        print("  loads as  :", summar(real0["outcome"]))
        print("with them   :", summar(oc), "" if same else "  VIOLATES: comments have an effect")
        ep = entry_point_violations(U, spec, real) if isinstance(spec, list) else []
        for sig_, d in ep:
            print("  VIOLATES (through torchtree.torchtree.main):", sig_, json.dumps(d)[:400])
        return 0 if same and not ep else 1
    if obj.get("signature", "").endswith("entry-point-differs-from-helpers"):
        ep = entry_point_violations(U, spec, real)
        for sig_, d in ep:
            print("  VIOLATES (through torchtree.torchtree.main):", sig_, json.dumps(d)[:400])
        print("helpers:", summar(oc))
        return 1 if ep else 0
    if oc[0] == "ok":
        bad = sharing_violations(oc[1], oc[2])
        print("accepted; registry keys:", list(oc[2].keys()))
        if not bad and "expanded" in real:
            bad = order_violations(real["expanded"], oc[2])
        for b in bad:
            print("  VIOLATES:", b)
        if not bad and obj.get("tag") and obj["tag"][1]:
            print("  VIOLATES: malformed specification accepted:", obj["tag"][0])
            return 1
        return 1 if bad else 0
    print("rejected:", oc[1])
    return 0
