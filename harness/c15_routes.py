"""Construction routes of the MCMC operators, HMC adaptors and the leapfrog integrator (C15 / C16).

Every object is built through every route the library offers —
  * keyword constructor, positional constructor,
  * `Class.from_json(data, dic)` and `process_object(data, dic)` (short registered type name and full dotted name),
    with EVERY subset of the optional keys explicit and the rest absent, explicit values equal to the defaults
    included, key order shuffled, sub-objects referenced by id or given inline,
  * the dictionaries the CLI helpers (`torchtree.cli.operators`, `torchtree.cli.hmc`) emit —
and the route-built object must be the object the options name: same public configuration as the keyword-constructed
reference and the SAME behaviour on a scripted interaction (proposals, Hastings ratios, accept / reject bookkeeping,
tuning, `smoothed_acceptance_rate`, adaptor learning, leapfrog trajectories), compared exactly.
Also here: copy.deepcopy of an operator followed by work on the copy (the original must not move, the copy must behave
like the original), and two objects of one class built one after the other in the same process (mutable defaults,
class attributes).
"""
from __future__ import annotations

import copy
import itertools
import math
import random

from common import use_repo


def _torch():
    use_repo()
    import torch

    torch.set_num_threads(2)
    return torch


def subsets(keys):
    for k in range(len(keys) + 1):
        for c in itertools.combinations(keys, k):
            yield list(c)


def shuffled(d, rng):
    items = list(d.items())
    rng.shuffle(items)
    return dict(items)


# --------------------------------------------------------------------------- simple operators
SIMPLE = {
    "ScalerOperator": {"scale_key": "scaler", "attr": "_scaler", "json_default": 0.1, "values": [0.3, 0.5, 0.9]},
    "SlidingWindowOperator": {"scale_key": "width", "attr": "_width", "json_default": 0.1, "values": [0.25, 1.0, 2.0]},
    "DirichletOperator": {"scale_key": "scaler", "attr": "_scaler", "json_default": 1.0, "values": [1.0, 20.0, 150.0]},
}
# documented defaults of the JSON layer for keys the constructor REQUIRES, and constructor defaults for the rest
SIMPLE_DEFAULTS = {"weight": 1.0, "target_acceptance_probability": 0.24, "disable_adaptation": False}


def observe_simple(op):
    wl = next((v for k, v in vars(op).items() if "window" in k and "length" in k), None)  # by role, not by spelling
    return {"weight": op.weight, "target": op.target_acceptance_probability,
            "window_length": wl if not isinstance(wl, bool) else repr(wl),
            "scale": op.tuning_parameter, "n_parameters": len(op.parameters)}


def drive_simple(torch, op, params, seed, scripted_cls):
    """a scripted interaction: propose, accept or reject, tune, read the smoothed acceptance rate"""
    rng = random.Random(seed)
    out = []
    with scripted_cls(torch, rng):
        for k in range(10):
            hr = float(op.step())
            acc = rng.random() < 0.6
            (op.accept if acc else op.reject)()
            op.tune(torch.tensor(0.9 if acc else 0.05, dtype=torch.float64), sample=k + 1, accepted=acc)
            sm = op.smoothed_acceptance_rate()
            sd = op.state_dict()
            out.append((hr, [p.tensor.tolist() for p in params], op.tuning_parameter, sd.get("adapt_count"), sd.get("accept"), sd.get("reject"),
                        "nan" if (isinstance(sm, float) and math.isnan(sm)) else sm))
    return out


def simple_operator_routes(ck, rng, found, scripted_cls, thorough):
    torch = _torch()
    from torchtree.cli.operators import create_scaler_operator, create_sliding_window_operator
    from torchtree.core.parameter import Parameter
    from torchtree.core.utils import process_object
    import torchtree.inference.mcmc.operator as M

    def fresh_params(dirichlet):
        if dirichlet:
            return [Parameter("w", torch.tensor([0.2, 0.3, 0.5], dtype=torch.float64))]
        return [Parameter("a", torch.tensor([0.5, -1.25], dtype=torch.float64)),
                Parameter("b", torch.tensor([2.0], dtype=torch.float64))]

    for cname, info in SIMPLE.items():
        cls = getattr(M, cname)
        keys = ["weight", "target_acceptance_probability", "disable_adaptation", "acceptance_window_length", info["scale_key"]]
        all_subsets = list(subsets(keys))
        if not thorough:
            all_subsets = [s for s in all_subsets if len(s) in (0, 1, len(keys))] + rng.sample(all_subsets, 4)
        for sub in all_subsets:
            vals = {"weight": rng.choice([1.0, 2.5]), "target_acceptance_probability": rng.choice([0.24, 0.5]),
                    "disable_adaptation": rng.choice([False, True]), "acceptance_window_length": rng.choice([100, 1, 3]),
                    info["scale_key"]: rng.choice(info["values"] + [info["json_default"]])}
            explicit = {k: vals[k] for k in sub}
            eff = dict(SIMPLE_DEFAULTS)
            eff[info["scale_key"]] = info["json_default"]
            eff.update(explicit)
            seed = rng.randrange(1 << 30)
            dirich = cname == "DirichletOperator"
            # reference: keyword constructor; an option that is not named keeps the CONSTRUCTOR's default
            ps = fresh_params(dirich)
            kw = {"disable_adaptation": eff["disable_adaptation"]}
            if "acceptance_window_length" in explicit:
                kw["acceptance_window_length"] = explicit["acceptance_window_length"]
            ref = cls(id_="op", parameters=ps, weight=eff["weight"],
                      target_acceptance_probability=eff["target_acceptance_probability"],
                      **{info["scale_key"]: eff[info["scale_key"]]}, **kw)
            ref_obs, ref_run = observe_simple(ref), drive_simple(torch, ref, ps, seed, scripted_cls)
            routes = {}
            ps2 = fresh_params(dirich)
            routes["positional constructor"] = (cls("op", ps2, eff["weight"], eff["target_acceptance_probability"],
                                                    eff[info["scale_key"]], **kw), ps2)
            for rname, tname in (("from_json", None), ("process_object short type", cname),
                                 ("process_object dotted type", "torchtree.inference.mcmc.operator." + cname)):
                ps3 = fresh_params(dirich)
                dic = {p.id: p for p in ps3}
                data = {"id": "op", "parameters": [p.id for p in ps3] if len(ps3) > 1 or rng.random() < 0.5 else ps3[0].id}
                data.update(explicit)
                data = shuffled(data, rng)
                try:
                    if tname is None:
                        obj = cls.from_json(data, dic)
                    else:
                        obj = process_object(dict(data, type=tname), dic)
                    routes[rname] = (obj, ps3)
                except Exception as e:
                    routes[rname] = (("EXC", f"{type(e).__name__}: {e}"), ps3)
            for rname, (obj, psr) in routes.items():
                ck.case(("route", cname, rname, tuple(sub)), {"via": f"{cname} built by {rname}", "explicit_keys": sub},
                        bucket=f"routes/{cname}/{rname}")
                if isinstance(obj, tuple):
                    ck.mismatch("route raised", {"class": cname, "route": rname, "explicit": explicit, "error": obj[1]})
                    found.append((f"{cname}:construction-route", {"clause": f"{rname} raised: {obj[1]}"},
                                  {"route_case": {"class": cname, "explicit": explicit}}, 0))
                    continue
                obs, run_ = observe_simple(obj), drive_simple(torch, obj, psr, seed, scripted_cls)
                if obs != ref_obs or run_ != ref_run:
                    diff = {k: (obs[k], ref_obs[k]) for k in obs if obs[k] != ref_obs[k]}
                    first = next((i for i, (a, b) in enumerate(zip(run_, ref_run)) if a != b), None)
                    found.append((f"{cname}:construction-route",
                                  {"clause": f"the object built by {rname} is not the object the options name: it differs from "
                                             "the keyword-constructed operator with the same options",
                                   "explicit_keys": sub, "configuration (route, constructor)": diff,
                                   "first_differing_interaction": None if first is None else
                                   {"step": first, "route": run_[first][-1], "constructor": ref_run[first][-1],
                                    "observable": "smoothed_acceptance_rate / state / scale"}},
                                  {"route_case": {"class": cname, "route": rname, "explicit": explicit, "seed": seed}}, 0))
        # the dictionaries the CLI emits
        if cname in ("ScalerOperator", "SlidingWindowOperator"):
            mk = create_scaler_operator if cname == "ScalerOperator" else create_sliding_window_operator
            for plist in ([{"id": "a", "type": "Parameter", "tensor": [0.5, -1.25]}],
                          [{"id": "a", "type": "Parameter", "tensor": [0.5, -1.25]}, {"id": "b", "type": "Parameter", "tensor": [2.0]}]):
                ps4 = fresh_params(False)[: len(plist)]
                dic = {p.id: p for p in ps4}
                try:
                    data = mk("x", "joint", plist, None)
                    obj = process_object(data, dic)
                    o = observe_simple(obj)
                    want = {"weight": float(sum(len(p["tensor"]) for p in plist)), "scale": data[info["scale_key"]],
                            "n_parameters": len(plist), "target": 0.24}
                    ck.case(("route-cli", cname, len(plist)), {"via": f"{cname} from the CLI's dictionary", "json": data},
                            bucket=f"routes/{cname}/cli")
                    if any(o[k] != want[k] for k in want):
                        found.append((f"{cname}:construction-route",
                                      {"clause": "operator built from the CLI's dictionary does not have the options it names",
                                       "json": data, "observed": o, "expected": want}, {"route_case": {"class": cname, "cli": True}}, 0))
                except Exception as e:
                    ck.mismatch("CLI dictionary route raised", {"class": cname, "error": f"{type(e).__name__}: {e}"})


# --------------------------------------------------------------------------- integrator and adaptors
def integrator_routes(ck, rng, found):
    torch = _torch()
    from torchtree.core.utils import process_object
    from torchtree.inference.hmc.integrator import LeapfrogIntegrator

    for sub in subsets(["steps", "step_size"]):
        vals = {"steps": rng.choice([1, 3, 10]), "step_size": rng.choice([0.01, 0.125, 0.5])}
        explicit = {k: vals[k] for k in sub}
        eff = {"steps": 10, "step_size": 0.01}
        eff.update(explicit)
        ref = LeapfrogIntegrator(id_="lf", steps=eff["steps"], step_size=eff["step_size"])
        objs = {"positional constructor": LeapfrogIntegrator("lf", eff["steps"], eff["step_size"])}
        for rname, tname in (("from_json", None), ("process_object short type", "LeapfrogIntegrator"),
                             ("process_object dotted type", "torchtree.inference.hmc.integrator.LeapfrogIntegrator")):
            data = shuffled(dict({"id": "lf"}, **explicit), rng)
            try:
                objs[rname] = LeapfrogIntegrator.from_json(data, {}) if tname is None else process_object(dict(data, type=tname), {})
            except Exception as e:
                objs[rname] = ("EXC", f"{type(e).__name__}: {e}")
        for rname, o in objs.items():
            ck.case(("route", "LeapfrogIntegrator", rname, tuple(sub)), {"via": f"LeapfrogIntegrator built by {rname}", "explicit_keys": sub},
                    bucket=f"routes/LeapfrogIntegrator/{rname}")
            if isinstance(o, tuple) or (o.steps, o.step_size, type(o.steps)) != (ref.steps, ref.step_size, type(ref.steps)) \
                    or o.state_dict() != ref.state_dict():
                found.append(("LeapfrogIntegrator:construction-route",
                              {"clause": f"integrator built by {rname} differs from the constructor-built one",
                               "explicit": explicit, "route": o if isinstance(o, tuple) else (o.steps, o.step_size),
                               "constructor": (ref.steps, ref.step_size)}, {"route_case": {"class": "LeapfrogIntegrator", "explicit": explicit}}, 0))


def adaptor_routes(ck, rng, found, thorough):
    """AdaptiveStepSize / DualAveragingStepSize / MassMatrixAdaptor through from_json with every subset of optional keys
    against the keyword constructor with the same options; behaviour compared on a sequence of learn() calls"""
    torch = _torch()
    from torchtree.core.parameter import Parameter
    from torchtree.core.utils import process_object
    from torchtree.inference.hmc.adaptation import AdaptiveStepSize, DualAveragingStepSize, MassMatrixAdaptor
    from torchtree.inference.hmc.integrator import LeapfrogIntegrator

    def learn_seq(ad, integ, seed, params=None):
        r = random.Random(seed)
        out = []
        for k in range(14):
            acc = r.random() < 0.7
            if params is not None:
                for p in params:
                    p.tensor = torch.tensor([r.gauss(0, 1) for _ in range(p.shape[-1])], dtype=torch.float64)
            ad.learn(torch.tensor(r.random(), dtype=torch.float64), k + 1, acc)
            out.append((float(integ.step_size), ad.state_dict().get("call_counter")))
        return out

    specs = [
        ("AdaptiveStepSize", ["target_acceptance_probability", "start", "end", "use_acceptance_rate"],
         lambda: {"target_acceptance_probability": rng.choice([0.8, 0.6]), "start": rng.choice([1, 3]), "end": rng.choice([8, 20]),
                  "use_acceptance_rate": rng.choice([False, True])}),
        ("DualAveragingStepSize", ["mu", "target_acceptance_probability", "gamma", "kappa", "t0", "start", "end"],
         lambda: {"mu": rng.choice([0.5, -1.0]), "target_acceptance_probability": rng.choice([0.8, 0.65]), "gamma": rng.choice([0.05, 0.1]),
                  "kappa": rng.choice([0.75, 0.6]), "t0": rng.choice([10, 5]), "start": rng.choice([0, 2]), "end": rng.choice([9, 30])}),
    ]
    for cname, keys, mkvals in specs:
        cls = {"AdaptiveStepSize": AdaptiveStepSize, "DualAveragingStepSize": DualAveragingStepSize}[cname]
        subs = list(subsets(keys))
        if not thorough and len(subs) > 20:
            subs = [s for s in subs if len(s) in (0, 1, len(keys))] + rng.sample(subs, 6)
        for sub in subs:
            vals = mkvals()
            explicit = {k: vals[k] for k in sub}
            seed = rng.randrange(1 << 30)
            step0 = rng.choice([0.1, 0.25])
            i_ref = LeapfrogIntegrator("lf", 3, step0)
            win = {k: explicit[k] for k in ("start", "end") if k in explicit}
            if cname == "AdaptiveStepSize":
                ref = AdaptiveStepSize("ad", i_ref, explicit.get("target_acceptance_probability", 0.8),
                                       use_acceptance_rate=explicit.get("use_acceptance_rate", False), **win)
            else:
                ref = DualAveragingStepSize("ad", i_ref, mu=explicit.get("mu", math.log(10.0 * step0)),
                                            delta=explicit.get("target_acceptance_probability", 0.8),
                                            gamma=explicit.get("gamma", 0.05), kappa=explicit.get("kappa", 0.75),
                                            t0=explicit.get("t0", 10), **win)
            ref_run = learn_seq(ref, i_ref, seed)
            for rname, inline in (("from_json, integrator by id", False), ("process_object, integrator inline", True)):
                i2 = LeapfrogIntegrator("lf", 3, step0)
                dic = {} if inline else {"lf": i2}
                data = dict({"id": "ad", "integrator": {"id": "lf", "type": "LeapfrogIntegrator", "steps": 3, "step_size": step0}
                             if inline else "lf"}, **explicit)
                data = shuffled(data, rng)
                try:
                    obj = process_object(dict(data, type=cname), dic) if inline else cls.from_json(data, dic)
                    integ = dic["lf"]
                    run_ = learn_seq(obj, integ, seed)
                except Exception as e:
                    run_ = ("EXC", f"{type(e).__name__}: {e}")
                ck.case(("route", cname, rname, tuple(sub)), {"via": f"{cname} built by {rname}", "explicit_keys": sub},
                        bucket=f"routes/{cname}/{rname}")
                if run_ != ref_run:
                    first = None if isinstance(run_, tuple) else next((i for i, (a, b) in enumerate(zip(run_, ref_run)) if a != b), None)
                    found.append((f"{cname}:construction-route",
                                  {"clause": f"adaptor built by {rname} does not behave like the keyword-constructed one with the same options",
                                   "explicit": explicit, "first_differing_learn_call": first,
                                   "route": run_ if isinstance(run_, tuple) else run_[first or 0],
                                   "constructor": ref_run[first or 0]},
                                  {"route_case": {"class": cname, "explicit": explicit, "seed": seed}}, 0))
    # MassMatrixAdaptor: configuration only (its estimator is exercised in the hmc_adapt runs)
    keys = ["regularize", "start", "end", "update_frequency", "restart_frequency", "variance_window"]
    subs = [s for s in subsets(keys) if len(s) in (0, 1, len(keys))] + rng.sample(list(subsets(keys)), 5)
    for sub in subs:
        vals = {"regularize": rng.choice([True, False]), "start": 2, "end": 40, "update_frequency": rng.choice([5, 10]),
                "restart_frequency": 30, "variance_window": 1}
        explicit = {k: vals[k] for k in sub}
        p1 = Parameter("x", torch.tensor([0.1, 0.2], dtype=torch.float64))
        m1 = Parameter("mass", torch.tensor([1.0, 2.0], dtype=torch.float64))
        kw = {k: explicit[k] for k in explicit if k != "regularize"}
        ref = MassMatrixAdaptor("ad", [p1], m1, explicit.get("regularize", True), **kw)
        p2 = Parameter("x", torch.tensor([0.1, 0.2], dtype=torch.float64))
        m2 = Parameter("mass", torch.tensor([1.0, 2.0], dtype=torch.float64))
        try:
            obj = MassMatrixAdaptor.from_json(shuffled(dict({"id": "ad", "parameters": ["x"], "mass_matrix": "mass"}, **explicit), rng),
                                              {"x": p2, "mass": m2})
            o = (obj._regularize, obj._start, obj._end, obj._frequency, obj._restart_frequency, obj._variance_window, obj._swap_every)
        except Exception as e:
            o = ("EXC", f"{type(e).__name__}: {e}")
        want = (ref._regularize, ref._start, ref._end, ref._frequency, ref._restart_frequency, ref._variance_window, ref._swap_every)
        ck.case(("route", "MassMatrixAdaptor", tuple(sub)), {"via": "MassMatrixAdaptor.from_json", "explicit_keys": sub},
                bucket="routes/MassMatrixAdaptor/from_json")
        if o != want:
            found.append(("MassMatrixAdaptor:construction-route",
                          {"clause": "adaptor built by from_json does not have the configuration of the constructor-built one",
                           "explicit": explicit, "route": o, "constructor": want},
                          {"route_case": {"class": "MassMatrixAdaptor", "explicit": explicit}}, 0))


# --------------------------------------------------------------------------- deepcopy / second object
def deepcopy_cases(ck, rng, found, scripted_cls):
    """copy.deepcopy of an operator (with its parameters), then work on the copy: the original's parameters and tunables
    must not move, and the copy must do exactly what the original does from the same state"""
    torch = _torch()
    from torchtree.core.parameter import Parameter
    import torchtree.inference.mcmc.operator as M

    for cname, info in SIMPLE.items():
        cls = getattr(M, cname)
        for _ in range(3):
            vals = [0.2, 0.3, 0.5] if cname == "DirichletOperator" else [0.5, -1.25, 2.0]
            p = Parameter("p", torch.tensor(vals, dtype=torch.float64))
            op = cls("op", [p], 1.0, 0.24, rng.choice(info["values"]))
            seed = rng.randrange(1 << 30)
            drive_simple(torch, op, [p], seed, scripted_cls)  # some history first
            before = (p.tensor.tolist(), op.tuning_parameter, {k: v for k, v in op.state_dict().items() if k != "id"})
            ck.case(("deepcopy", cname, seed), {"via": f"copy.deepcopy({cname}) then 10 interactions on the copy"}, bucket=f"history/deepcopy/{cname}")
            try:
                cp = copy.deepcopy(op)
                seed2 = rng.randrange(1 << 30)
                run_copy = drive_simple(torch, cp, cp.parameters, seed2, scripted_cls)
            except Exception as e:
                ck.mismatch("deepcopy of an operator raised", {"class": cname, "error": f"{type(e).__name__}: {e}"})
                continue
            after = (p.tensor.tolist(), op.tuning_parameter, {k: v for k, v in op.state_dict().items() if k != "id"})
            run_orig = drive_simple(torch, op, [p], seed2, scripted_cls)
            if before != after:
                found.append((f"{cname}:deepcopy", {"clause": "work on a deep copy changed the original operator or its parameter",
                                                    "before": before, "after": after}, {"route_case": {"class": cname, "deepcopy": True}}, 0))
            elif run_copy != run_orig:
                found.append((f"{cname}:deepcopy", {"clause": "a deep copy does not behave like the original from the same state"},
                              {"route_case": {"class": cname, "deepcopy": True}}, 0))
