"""C07 — cross-cutting coverage (fourth wave): how a transform / TransformedParameter is REACHED.

 1. construction routes of TransformedParameter: positional / keyword constructor, x as one parameter or a list
    (CatParameter), from_json with every subset of the transform's optional constructor arguments (absent, explicit
    default, set), shuffled key order, x inline / referenced / list, transform parameters as numbers, lists or
    references, short vs full class names, the JSON make_unconstrained (CLI) emits — the route-built object must
    carry the transform the options name and evaluate like the keyword-built one.
 2. dtype regimes (default dtype x parameter dtype) for every transform.
 5. deepcopy of a TransformedParameter followed by updates on the copy; interleaved instances.
 6. batch size equal to the event dimension; one row holding a special value.
 7. special but valid inputs (zeros, 1.0 under log, minimum sizes).
 8. failure paths.
"""
from __future__ import annotations

import copy
import itertools
import math
import random

from common import use_repo

use_repo()
import torch  # noqa: E402
from torch.autograd.functional import jacobian  # noqa: E402

import c06_gen as G  # noqa: E402

DT = torch.float64


def shuffled(d, rng):
    ks = list(d)
    rng.shuffle(ks)
    return {k: d[k] for k in ks}


def pjson(id_, values, tname="Parameter"):
    return {"id": id_, "type": tname, "tensor": values, "dtype": "torch.float64"}


def tree_and_dic(rng):
    n = rng.randrange(3, 6)
    t = G.random_flip(G.random_topology(n, rng), rng)
    dates = G.date_schemes(n, rng)[rng.choice(["isochronous", "ages", "calendar"])]
    leaf = G.expected_leaf_heights(dates)
    hts = [max(leaf) + 1.0 + 0.5 * i for i in range(n - 1)]
    m = G.make_timetree(t, dates, hts)
    return n, t, dates, m


def transform_specs(rng):
    """(name, class path(s), required args, optional args with defaults and a non-default value, domain draw)"""
    n, t, dates, tree = tree_and_dic(rng)
    leaf = G.expected_leaf_heights(dates)
    ratio_x = lambda: [rng.uniform(0.1, 0.9) for _ in range(n - 2)] + [max(leaf) + rng.uniform(0.5, 4.0)]  # noqa: E731
    pos = lambda m_: [rng.uniform(0.1, 3.0) for _ in range(m_)]  # noqa: E731
    real = lambda m_: [rng.uniform(-2.0, 2.0) for _ in range(m_)]  # noqa: E731
    loc, scale = rng.choice([0.5, 2.0, -1.25]), rng.choice([1.0, 2.0, 0.5])
    return [
        {"name": "DifferenceNodeHeightTransform",
         "paths": ["torchtree.evolution.tree_height_transform.DifferenceNodeHeightTransform"],
         "required": {"tree_model": ("ref", "tree", tree)}, "optional": {"k": (0.0, 2.0), "cache_size": (0, 1)},
         "draw": lambda: pos(n - 1), "tree": tree},
        {"name": "GeneralNodeHeightTransform",
         "paths": ["torchtree.evolution.tree_height_transform.GeneralNodeHeightTransform"],
         "required": {"tree": ("ref", "tree", tree)}, "optional": {"cache_size": (0, 1)}, "draw": ratio_x, "tree": tree},
        {"name": "LogDifferenceRateTransform",
         "paths": ["torchtree.evolution.rate_transform.LogDifferenceRateTransform", "LogDifferenceRateTransform"],
         "required": {"tree_model": ("ref", "tree", tree)}, "optional": {"cache_size": (0, 1)},
         "draw": lambda: pos(2 * n - 2), "tree": tree},
        {"name": "torch.AffineTransform", "paths": ["torch.distributions.AffineTransform", "torch.distributions.transforms.AffineTransform"],
         "required": {"loc": ("num", loc), "scale": ("num", scale)}, "optional": {"event_dim": (0, 1), "cache_size": (0, 1)},
         "draw": lambda: real(3)},
        {"name": "torch.ExpTransform", "paths": ["torch.distributions.ExpTransform", "torch.distributions.transforms.ExpTransform"],
         "required": {}, "optional": {"cache_size": (0, 1)}, "draw": lambda: real(3)},
        {"name": "LogTransform", "paths": ["torchtree.distributions.transforms.LogTransform", "LogTransform"],
         "required": {}, "optional": {"cache_size": (0, 1)}, "draw": lambda: pos(3)},
        {"name": "CumSumExpTransform", "paths": ["torchtree.distributions.transforms.CumSumExpTransform", "CumSumExpTransform"],
         "required": {}, "optional": {"cache_size": (0, 1)}, "draw": lambda: real(4)},
    ]


def build_keyword(spec, chosen):
    """the reference: the transform built with KEYWORD arguments naming exactly the chosen options"""
    from torchtree.core.utils import get_class

    klass = get_class(spec["paths"][0])
    kw = {}
    for k, v in spec["required"].items():
        kw[k] = v[2] if v[0] == "ref" else v[1]
    kw.update(chosen)
    return klass(**kw)


def observe(tp):
    val = tp.tensor.detach().clone()
    try:
        ld = tp().detach().clone()
    except NotImplementedError:
        ld = None
    return val, ld


def section_routes(ck, rng, record):
    from torchtree import Parameter, TransformedParameter

    reps = 3 if ck.thorough() else 1
    for _ in range(reps):
        for spec in transform_specs(rng):
            opt_names = list(spec["optional"])
            # every subset of the optional arguments, each member either at its explicit default or set
            assignments = []
            for r in range(len(opt_names) + 1):
                for sub in itertools.combinations(opt_names, r):
                    for vals in itertools.product(*[(0, 1)] * len(sub)):
                        assignments.append({k: spec["optional"][k][v] for k, v in zip(sub, vals)})
            rng.shuffle(assignments)
            for chosen in assignments:  # every subset of the optional arguments x (explicit default | set): at most 9
                x = spec["draw"]()
                rep = {"type": "tp-route", "transform": spec["name"], "options": chosen, "x": x}
                ck.case(key=("tp-route", spec["name"], tuple(sorted(chosen.items())), tuple(x)),
                        bucket=f"route/TransformedParameter/{spec['name']}/{len(chosen)} optional")
                try:
                    ref_t = build_keyword(spec, chosen)
                    ref = observe(TransformedParameter("y", Parameter("x", torch.tensor(x, dtype=DT)), ref_t))
                except Exception as e:
                    record(f"tp-route:{spec['name']}:reference", f"keyword construction with {chosen} raises {type(e).__name__}: {e}", rep, (1, 1))
                    continue
                routes = {}
                # constructor routes
                routes["ctor-positional"] = lambda: TransformedParameter("y", Parameter("x", torch.tensor(x, dtype=DT)), build_keyword(spec, chosen))
                routes["ctor-keyword"] = lambda: TransformedParameter(id_="y", x=Parameter("x", torch.tensor(x, dtype=DT)), transform=build_keyword(spec, chosen))
                if len(x) >= 2:
                    routes["ctor-list"] = lambda: TransformedParameter("y", [Parameter("a", torch.tensor(x[:1], dtype=DT)), Parameter("b", torch.tensor(x[1:], dtype=DT))], build_keyword(spec, chosen))

                def fj(path, x_mode, seed):
                    def build():
                        r = random.Random(seed)
                        dic = {}
                        params = {}
                        for k, v in spec["required"].items():
                            if v[0] == "ref":
                                dic[v[1]] = v[2]
                                params[k] = v[1]
                            else:
                                params[k] = v[1]
                        params.update(chosen)
                        js = {"id": "y", "type": r.choice(["TransformedParameter", "torchtree.TransformedParameter"]), "transform": path}
                        if params:
                            js["parameters"] = shuffled(params, r)
                        if x_mode == "inline":
                            js["x"] = shuffled(pjson("x", x), r)
                        elif x_mode == "ref":
                            dic["x"] = Parameter("x", torch.tensor(x, dtype=DT))
                            js["x"] = "x"
                        else:
                            dic["b"] = Parameter("b", torch.tensor(x[1:], dtype=DT))
                            js["x"] = [pjson("a", x[:1]), "b"]
                        return TransformedParameter.from_json(shuffled(js, r), dic)
                    return build

                for path in spec["paths"]:
                    for x_mode in (["inline", "ref"] + (["list"] if len(x) >= 2 else [])):
                        routes[f"from_json[{path.split('.')[0] if '.' in path else 'short-name'},x={x_mode}]"] = fj(path, x_mode, rng.randrange(10 ** 6))
                for rname, build in routes.items():
                    try:
                        tp = build()
                        got = observe(tp)
                        probs = []
                        if type(tp.transform) is not type(ref_t):
                            probs.append(f"carries {type(tp.transform).__name__} instead of {type(ref_t).__name__}")
                        for k in chosen:
                            have = getattr(tp.transform, k, getattr(tp.transform, "_" + k, None))
                            if have is not None and have != chosen[k]:
                                probs.append(f"option {k} = {have!r} although the configuration says {chosen[k]!r}")
                        if got[0].shape != ref[0].shape or not torch.allclose(got[0], ref[0], rtol=1e-12, atol=1e-12):
                            probs.append(f"value {got[0].tolist()} instead of {ref[0].tolist()}")
                        if (got[1] is None) != (ref[1] is None) or (got[1] is not None and (
                                got[1].shape != ref[1].shape or not torch.allclose(got[1], ref[1], rtol=1e-12, atol=1e-12))):
                            probs.append(f"log-Jacobian {None if got[1] is None else got[1].tolist()} instead of "
                                         f"{None if ref[1] is None else ref[1].tolist()}")
                    except Exception as e:
                        probs = [f"raises {type(e).__name__}: {str(e)[:140]}"]
                    for w in probs[:1]:
                        kind = rname.split("[")[0]
                        record(f"tp-route:{spec['name']}:{kind}:{'+'.join(sorted(chosen)) or 'none'}",
                               f"TransformedParameter over {spec['name']} with options {chosen} reached through {rname}: {w}",
                               dict(rep, route=rname), (len(chosen), 1))


def section_cli_unconstrained(ck, rng, record):
    """the JSON make_unconstrained (torchtree-cli) emits for constrained parameters: the object built from it must have
    the constrained value that was asked for, and its log-Jacobian(s) must match AD of the constrained-from-
    unconstrained map"""
    from torchtree.cli.utils import make_unconstrained
    from torchtree.core.utils import process_object

    cases = []
    for _ in range(6 if ck.thorough() else 2):
        m = rng.randrange(1, 5)
        cases += [
            ("lower=0", {"id": "p", "type": "Parameter", "tensor": [rng.uniform(0.1, 5.0) for _ in range(m)], "@lower": 0.0}),
            ("lower=0,upper=1", {"id": "p", "type": "Parameter", "tensor": [rng.uniform(0.05, 0.95) for _ in range(m)], "@lower": 0.0, "@upper": 1.0}),
            ("lower>0", {"id": "p", "type": "Parameter", "tensor": [rng.uniform(2.6, 6.0) for _ in range(m)], "@lower": 2.5}),
            ("simplex", {"id": "p", "type": "Parameter", "tensor": (lambda v: [a / sum(v) for a in v])([rng.uniform(0.2, 1.0) for _ in range(m + 1)]), "@simplex": True}),
        ]
    for label, js in cases:
        want = list(js["tensor"])
        rep = {"type": "cli-unconstrained", "constraint": label, "json": copy.deepcopy(js)}
        ck.case(key=("cli-unres", label, tuple(want)), bucket="route/make_unconstrained/" + label)
        try:
            make_unconstrained(js)
            dic = {}
            obj = process_object(js, dic)
            got = obj.tensor.detach().to(DT)
            probs = []
            if got.shape != torch.Size([len(want)]) or not torch.allclose(got, torch.tensor(want, dtype=DT), rtol=2e-6, atol=2e-6):
                probs.append(f"constrained value {got.tolist()} instead of {want}")
            # log-Jacobian: sum over the nesting, against AD of unconstrained -> constrained
            chain, cur = [], obj
            while hasattr(cur, "transform"):
                chain.append(cur)
                cur = cur.x
            leaf = cur
            u = leaf.tensor.detach().clone().to(DT)

            def fwd(v):
                for lvl in reversed(chain):
                    v = lvl.transform(v)
                return v

            if not chain:
                raise AssertionError("make_unconstrained left the parameter constrained (no TransformedParameter emitted)")
            total = sum(lvl().to(DT).sum() for lvl in chain)
            J = jacobian(lambda v: fwd(v)[..., : len(u)], u)
            true = torch.linalg.slogdet(J)[1]
            if not math.isclose(total.item(), true.item(), rel_tol=1e-5, abs_tol=1e-5):
                probs.append(f"log-Jacobians of the nesting sum to {total.item()} but AD of the map has {true.item()}")
        except Exception as e:
            probs = [f"raises {type(e).__name__}: {str(e)[:140]}"]
        for w in probs[:1]:
            record(f"cli-unconstrained:{label}", f"parameter with constraint {label} through make_unconstrained: {w}", rep, (len(want), 1))


def section_dtypes(ck, rng, record):
    from torchtree.distributions import transforms as T

    old = torch.get_default_dtype()
    table = {}
    n, t, dates, tree = tree_and_dic(rng)
    try:
        for dflt in (torch.float32, torch.float64):
            for xd in (torch.float64, torch.float32):
                torch.set_default_dtype(dflt)
                from torchtree.evolution.rate_transform import LogDifferenceRateTransform

                tree_d = G.make_timetree(t, dates, [max(G.expected_leaf_heights(dates)) + 1.0 + 0.5 * i for i in range(n - 1)])
                items = [("CumSumTransform", T.CumSumTransform(), [0.5, -1.0, 2.0]),
                         ("CumSumExpTransform", T.CumSumExpTransform(), [0.5, -1.0, 2.0]),
                         ("CumSumSoftPlusTransform", T.CumSumSoftPlusTransform(), [0.5, -1.0, 2.0]),
                         ("SoftPlusTransform", T.SoftPlusTransform(), [0.5, -1.0, 2.0]),
                         ("LogTransform", T.LogTransform(), [0.5, 1.0, 2.0]),
                         ("LogDifferenceRateTransform", LogDifferenceRateTransform(tree_d), [0.5 + 0.25 * i for i in range(2 * n - 2)])]
                for name, tr, xs in items:
                    ck.case(key=("dtype", str(dflt), str(xd), name), bucket=f"dtype/default={dflt}/param={xd}")
                    rep = {"type": "c07-dtype", "transform": name, "default": str(dflt), "param": str(xd), "x": xs}
                    try:
                        x = torch.tensor(xs, dtype=xd)
                        y = tr(x)
                        ld = tr.log_abs_det_jacobian(x, y)
                        table[f"default={dflt},param={xd},{name}"] = {"forward": str(y.dtype), "log_det": str(ld.dtype)}
                        probs = []
                        if xd == torch.float64 and (y.dtype != torch.float64 or ld.dtype != torch.float64):
                            probs.append(f"forward / log-det come back as {y.dtype} / {ld.dtype} for a float64 input")
                        torch.set_default_dtype(torch.float64)
                        x64 = torch.tensor(xs, dtype=DT)
                        y64 = tr(x64) if name != "LogDifferenceRateTransform" else LogDifferenceRateTransform(tree_d)(x64)
                        ld64 = tr.log_abs_det_jacobian(x64, y64)
                        torch.set_default_dtype(dflt)
                        tol = 1e-10 if xd == torch.float64 else 1e-5
                        if not (torch.allclose(y.to(DT), y64, rtol=tol, atol=tol) and torch.allclose(ld.to(DT), ld64, rtol=tol, atol=tol)):
                            probs.append(f"forward / log-det {y.tolist()} / {ld.tolist()} but {y64.tolist()} / {ld64.tolist()} in float64")
                    except Exception as e:
                        probs = [f"raises {type(e).__name__}: {str(e)[:140]}"]
                    for w in probs[:1]:
                        record(f"dtype:{name}:default={dflt}:param={xd}", f"default dtype {dflt}, input {xd}: {w}", rep, (1, 1))
    finally:
        torch.set_default_dtype(old)
    ck.extra["result_dtypes"] = table


def section_instances(ck, rng, record):
    """deepcopy of a TransformedParameter, updates on the copy; a second instance in between"""
    from torchtree import Parameter, TransformedParameter
    from torchtree.distributions import transforms as T

    for i in range(24 if ck.thorough() else 8):
        ctor = rng.choice([T.CumSumExpTransform, T.CumSumSoftPlusTransform, T.LogTransform, T.SoftPlusTransform,
                           lambda: torch.distributions.ExpTransform(), lambda: torch.distributions.StickBreakingTransform()])
        m = rng.randrange(1, 5)
        xa = [rng.uniform(0.2, 2.0) for _ in range(m)]
        xb = [rng.uniform(0.2, 2.0) for _ in range(m)]
        ck.case(key=("tp-deepcopy", i, tuple(xa)), bucket="instances/TransformedParameter deepcopy")
        try:
            pa = Parameter("x", torch.tensor(xa, dtype=DT))
            A = TransformedParameter("y", pa, ctor())
            a0 = observe(A)
            other = TransformedParameter("z", Parameter("w", torch.tensor(xb, dtype=DT)), ctor())
            _ = observe(other)
            C = copy.deepcopy(A)
            C.x.tensor = torch.tensor(xb, dtype=DT)
            want = observe(TransformedParameter("y", Parameter("x", torch.tensor(xb, dtype=DT)), ctor()))
            gotC, gotA = observe(C), observe(A)
            probs = []
            if not (torch.equal(gotC[0], want[0]) and torch.equal(gotC[1], want[1])):
                probs.append(f"deepcopy updated to {xb} gives {gotC[0].tolist()} / {gotC[1].tolist()} instead of {want[0].tolist()} / {want[1].tolist()}")
            if not (torch.equal(gotA[0], a0[0]) and torch.equal(gotA[1], a0[1])):
                probs.append("the original changed when its deepcopy was updated")
        except Exception as e:
            probs = [f"raises {type(e).__name__}: {str(e)[:140]}"]
        for w in probs[:1]:
            record("tp-deepcopy", w, {"type": "tp-deepcopy", "x": xa, "x2": xb}, (m, 1))


def section_batches_special(ck, rng, record, run_point):
    """batch size equal to the event dimension; one row with special values (zeros; 1.0 under log)"""
    fails = []
    for name, special in (("CumSumTransform", 0.0), ("CumSumExpTransform", 0.0), ("CumSumSoftPlusTransform", 0.0),
                          ("SoftPlusTransform", 0.0), ("LogTransform", 1.0)):
        for _ in range(4 if ck.thorough() else 2):
            m = rng.randrange(2, 6)
            dom = (lambda: rng.uniform(0.2, 3.0)) if name == "LogTransform" else (lambda: rng.uniform(-2.0, 2.0))
            rows = [[dom() for _ in range(m)] for _ in range(m)]  # B == m
            rows[rng.randrange(m)] = [special] * m
            ck.case(key=("batch-special", name, m, tuple(map(tuple, rows))), bucket=f"batch/B=m+special-row/{name}")
            run_point(name, rows, True, fails)
            for f in fails:
                record(f[0] + ":B=m", f"batch of {m} rows of dimension {m} with one row of {special}: " + f[1],
                       {"type": "point", "transform": name, "x": rows, "batched": True}, (m, m))
            fails.clear()


def section_failures(ck, rng, record):
    from torchtree import TransformedParameter

    table = [
        ("unknown transform class", {"id": "y", "type": "TransformedParameter", "transform": "torch.distributions.NoSuchTransform",
                                     "x": pjson("x", [1.0])}, (AttributeError, ModuleNotFoundError, KeyError)),
        ("missing required transform argument", {"id": "y", "type": "TransformedParameter", "transform": "torch.distributions.AffineTransform",
                                                 "parameters": {"loc": 1.0}, "x": pjson("x", [1.0])}, (TypeError,)),
        ("x references an unknown id", {"id": "y", "type": "TransformedParameter", "transform": "torch.distributions.ExpTransform",
                                        "x": "nobody"}, (Exception,)),
    ]
    observed = {}
    for name, js, expect in table:
        ck.case(key=("c07-failure", name), bucket="failure-path")
        try:
            r = TransformedParameter.from_json(js, {})
            observed[name] = f"returns {type(r).__name__}"
            record("failure:" + name.replace(" ", "-"), f"{name}: no error is raised", {"type": "c07-failure", "name": name}, (1, 1))
        except expect as e:
            observed[name] = f"raises {type(e).__name__}"
        except BaseException as e:
            observed[name] = f"raises {type(e).__name__}"
            record("failure:" + name.replace(" ", "-"), f"{name}: raises {type(e).__name__} instead of {[x.__name__ for x in expect]}",
                   {"type": "c07-failure", "name": name}, (1, 1))
    ck.extra["failure_paths"] = observed


def replay_tp_route(obj):
    """rebuild a TransformedParameter with the recorded transform and option subset through from_json and compare it
    with the keyword-built one"""
    from torchtree import Parameter, TransformedParameter

    rng = random.Random(0)
    spec = next(sp for sp in transform_specs(rng) if sp["name"] == obj["transform"])
    chosen = obj["options"]
    x = spec["draw"]()
    ref_t = build_keyword(spec, chosen)
    ref = observe(TransformedParameter("y", Parameter("x", torch.tensor(x, dtype=DT)), ref_t))
    dic, params = {}, {}
    for k, v in spec["required"].items():
        if v[0] == "ref":
            dic[v[1]] = v[2]
            params[k] = v[1]
        else:
            params[k] = v[1]
    params.update(chosen)
    js = {"id": "y", "type": "TransformedParameter", "transform": spec["paths"][0], "parameters": params, "x": pjson("x", x)}
    print("JSON:", js)
    tp = TransformedParameter.from_json(js, dic)
    bad = 0
    for k in chosen:
        have = getattr(tp.transform, k, getattr(tp.transform, "_" + k, None))
        print(f"option {k}: configured {chosen[k]!r}, object has {have!r}")
        bad |= have is not None and have != chosen[k]
    got = observe(tp)
    same = torch.allclose(got[0], ref[0]) and ((got[1] is None) == (ref[1] is None)) and (got[1] is None or (
        got[1].shape == ref[1].shape and torch.allclose(got[1], ref[1])))
    print("value / log-Jacobian:", got[0].tolist(), None if got[1] is None else got[1].tolist(),
          "keyword-built:", ref[0].tolist(), None if ref[1] is None else ref[1].tolist())
    return int(bad or not same)
