"""In-process runner of the REAL torchtree-cli builders, the `torchtree --dry` loader and the density
evaluation used by the C19 check.  Nothing here re-implements CLI logic: the parser is built by the
library's own create_*_parser functions and the JSON by the function argparse dispatches to."""
from __future__ import annotations

import argparse
import contextlib
import copy
import importlib
import io
import json
import logging
import math
import os
import tempfile
from pathlib import Path

SEQS = {
    "A_2000":   "ACGTACGTTAGCCGATAGCTAGGCTTAACGGATCGATTTACGGCATCGAT",
    "B_2001":   "ACGTACGTTAGCCGATAGCTAGGCTTAACGGATCGATTTACGGCATCGAA",
    "C_2002.5": "ACGTACGATAGCCGATAGCTAGGCTTAACGGATCGATTTACGGCATCGAA",
    "D_2003":   "ACGTTCGTTAGCCGATGGCTAGGCTTAACGGATCCATTTACGGCATCGAT",
    "E_2004":   "ACGTTCGTTAGCCGATGGCTAGGCTTTACGGATCCATTTACGGCATCCAT",
    "F_2004":   "ACGTTCGTTAGCCGTTGGCTAGGCTTTACGGATCCATTTACGGCTTCCAT",
}
# the same taxa with richer content, for the starting values DERIVED from the alignment: all six substitution types occur,
# each with its own pair count (AC 32, AG 26, AT 7, CG 9, CT 47, GT 16 over all 15 pairs), four distinct frequencies; the
# FASTA order is neither the tree's nor the sorted one
SEQS_RICH = {
    "D_2003":   "GGCACTGACCTCAGGACTCTGGGGCACGTTCGAGCAGACTACGAAGACATGCCACTACGT",
    "A_2000":   "GGCACCGACCTCATGATTGTAGGGCACGTTCGAGCAGAAGACGAAGACATGCTACTACGC",
    "F_2004":   "GGCACCGACCTCAGGACTCTGGGGCATGCTCGAGCAGACTACGCAAACATGCCACTACGC",
    "B_2001":   "GGCACTGATCTCAGGATTATGGGGCACGTTCGAGCAGACAACGAAGACATGCAACTACGA",
    "E_2004":   "GGCACCGACCTCAGGACTCTGGGGCACGTTCGACCAGACTACGGAAACATGCCAATACGC",
    "C_2002.5": "GGCACTGATCTCAGGATTATGGAGCACGTTCGAGCAGACGATGAAGACATGCAACTACTA",
}

ROOTED = "((((E_2004:1,F_2004:1):1,D_2003:1):3,(C_2002.5:2,B_2001:0.5):1.5):1,A_2000:2);"
# same topology, branch lengths in substitutions (about 0.01 per year, deliberately not clock-like): root-to-tip regression
ROOTED_SUBST = ("((((E_2004:0.011,F_2004:0.0095):0.0105,D_2003:0.0088):0.031,(C_2002.5:0.0215,B_2001:0.0042):0.0148):0.0112,"
                "A_2000:0.0192);")
# every branch has its own length (dyadic-free but distinct): a value attached to another branch / taxon shows
UNROOTED = "(A_2000:0.1,B_2001:0.2,(C_2002.5:0.12,(D_2003:0.08,(E_2004:0.15,F_2004:0.05):0.07):0.11):0.09);"

YMD = {"A_2000": "2000-01-01", "B_2001": "2001-01-01", "C_2002.5": "2002-07-02", "D_2003": "2003-01-01",
       "E_2004": "2004-01-01", "F_2004": "2004-01-01"}
# contemporaneous data: the same sequences, every name ends in _2009; an ultrametric tree (years / substitutions)
SAME = {k: k.rsplit("_", 1)[0] + "_2009" for k in SEQS}
ROOTED_SAME = "((((E_2009:1,F_2009:1):1,D_2009:2):3,(C_2009:2,B_2009:2):3):1,A_2009:6);"
ROOTED_SAME_SUBST = "((((E_2009:0.011,F_2009:0.0095):0.0105,D_2009:0.0188):0.031,(C_2009:0.0215,B_2009:0.0182):0.0298):0.0112,A_2009:0.0592);"
# CALENDAR dates: six sets of six dates covering every month (first and last day), Feb 28/29, Dec 31, leap, common and
# century years (1900 is not a leap year, 2000 is); each set is written with the dates in the names in five field orders,
# as decimal years (computed with datetime), and as a csv of calendar strings
CAL_SETS = [
    ["1996-01-01", "1996-01-31", "1996-02-01", "1996-02-15", "1996-02-28", "1996-02-29"],
    ["1996-03-01", "1996-03-31", "1996-04-01", "1996-04-30", "1996-12-31", "1997-02-28"],
    ["1997-03-01", "1997-05-01", "1997-05-31", "1997-06-01", "1997-06-30", "1997-12-31"],
    ["2001-07-01", "2001-07-31", "2001-08-01", "2001-08-31", "2001-09-01", "2001-09-30"],
    ["2003-10-01", "2003-10-31", "2003-11-01", "2003-11-30", "2003-12-01", "2003-12-31"],
    ["1900-02-28", "1900-03-01", "1900-12-31", "2000-02-29", "2000-03-01", "2000-12-31"],
]
CAL_FORMATS = ["yyyy-MM-dd", "yyyy/MM/dd", "dd/MM/yyyy", "dd-MM-yyyy", "MM/dd/yyyy"]
CAL_REGEX = r"_(\d+)_(\d+)_(\d+)$"
CAL_TREE = "((((E:1,F:1):1,D:1):3,(C:2,B:0.5):1.5):1,A:2);"


def decimal_year(ymd):
    """independent oracle (Python's calendar): year + (days since Jan 1) / (days in that year)"""
    import datetime

    y, m, d = (int(x) for x in ymd.split("-"))
    day = datetime.date(y, m, d)
    return y + (day - datetime.date(y, 1, 1)).days / (datetime.date(y + 1, 1, 1) - datetime.date(y, 1, 1)).days


def cal_fields(ymd, fmt):
    import re as _re

    y, m, d = ymd.split("-")
    part = {"yyyy": y, "MM": m, "dd": d}
    return [part[f] for f in _re.split(r"[/-]", fmt)]


def cal_names(k, fmt):
    """taxon names of set k: letter + the date fields in the order of fmt (None: decimal year)"""
    out = {}
    for letter, ymd in zip("ABCDEF", CAL_SETS[k]):
        out[letter] = f"{letter}_{decimal_year(ymd)!r}" if fmt is None else letter + "_" + "_".join(cal_fields(ymd, fmt))
    return out


def cal_tag(fmt):
    return "dec" if fmt is None else fmt.replace("/", "s").replace("-", "d")


CSV_SHIFT = 0.25   # the csv deliberately disagrees with the dates in the names
_DATA = {}


def data_dir() -> Path:
    if "d" not in _DATA:
        d = Path(tempfile.mkdtemp(prefix="c19-data-"))
        (d / "aln.fa").write_text("".join(f">{k}\n{v}\n" for k, v in SEQS.items()))
        (d / "aln_rich.fa").write_text("".join(f">{k}\n{v}\n" for k, v in SEQS_RICH.items()))
        (d / "rooted.nwk").write_text(ROOTED + "\n")
        (d / "rooted_subst.nwk").write_text(ROOTED_SUBST + "\n")
        # the same data with sampling dates given three other ways
        (d / "dates.csv").write_text("strain,date\n" + "".join(f"{k},{float(k.rsplit('_', 1)[1]) + CSV_SHIFT}\n" for k in SEQS))
        # equivalent SPELLINGS of the same dates: a csv that repeats the dates of the names; contemporaneous data
        (d / "dates_exact.csv").write_text("strain,date\n" + "".join(f"{k},{float(k.rsplit('_', 1)[1])}\n" for k in SEQS))
        (d / "aln_same.fa").write_text("".join(f">{SAME[k]}\n{v}\n" for k, v in SEQS.items()))
        (d / "rooted_same.nwk").write_text(ROOTED_SAME + "\n")
        (d / "rooted_same_subst.nwk").write_text(ROOTED_SAME_SUBST + "\n")
        (d / "dates_same.csv").write_text("strain,date\n" + "".join(f"{v},2009.0\n" for v in SAME.values()))
        for k in range(len(CAL_SETS)):
            for fmt in [None] + CAL_FORMATS:
                nm = cal_names(k, fmt)
                seqs = {nm[key[0]]: v for key, v in SEQS.items()}
                (d / f"aln_cal{k}_{cal_tag(fmt)}.fa").write_text("".join(f">{a}\n{b}\n" for a, b in seqs.items()))
                t = CAL_TREE
                for letter, name in nm.items():
                    t = t.replace(letter + ":", name + ":")
                (d / f"rooted_cal{k}_{cal_tag(fmt)}.nwk").write_text(t + "\n")
                if fmt is not None:
                    sep = "/" if "/" in fmt else "-"
                    (d / f"dates_cal{k}_{cal_tag(fmt)}.csv").write_text(
                        "strain,date\n" + "".join(f"{nm[letter]},{sep.join(cal_fields(ymd, fmt))}\n" for letter, ymd in zip("ABCDEF", CAL_SETS[k])))
        ren = {k: k.rsplit("_", 1)[0] + "_" + YMD[k] for k in SEQS}
        (d / "aln_ymd.fa").write_text("".join(f">{ren[k]}\n{v}\n" for k, v in SEQS.items()))
        t = ROOTED
        for k, v in ren.items():
            t = t.replace(k + ":", v + ":")
        (d / "rooted_ymd.nwk").write_text(t + "\n")
        # a codon alignment (48 sites, in-frame stop codons replaced) for MG94
        def nostop(q):
            cod = [q[i:i + 3] for i in range(0, 48, 3)]
            return "".join("GCT" if c in ("TAA", "TAG", "TGA") else c for c in cod)
        (d / "aln_codon.fa").write_text("".join(f">{k}\n{nostop(v)}\n" for k, v in SEQS.items()))
        (d / "meta.csv").write_text("strain,date,location\n" + "".join(
            f"{k},{k.rsplit('_', 1)[1]},{'north' if i % 2 else 'south'}\n" for i, k in enumerate(SEQS)))
        (d / "unrooted.nwk").write_text(UNROOTED + "\n")
        _DATA["d"] = d
    return _DATA["d"]


def cleanup():
    import shutil

    if "d" in _DATA:
        shutil.rmtree(_DATA.pop("d"), ignore_errors=True)


class CliExit(Exception):
    def __init__(self, code, stderr):
        super().__init__(f"exit {code}: {stderr[-300:]}")
        self.code, self.stderr = code, stderr


_HOOKS = {"records": None}


def install_hooks():
    """record (deep copy of input, outputs) of every REAL outermost call of the public functions make_unconstrained /
    create_jacobians / create_variational_model.  The functions are wrapped BY IDENTITY in every loaded torchtree.cli module
    that holds them (where they are defined and wherever they are imported or re-exported), so it does not matter which
    module a builder - or a helper the builders delegate to - looks them up in; nested (recursive) calls are not recorded.
    Idempotent."""
    import sys

    import torchtree.cli.advi as advi
    import torchtree.cli.hmc  # noqa: F401
    import torchtree.cli.jacobians as jacobians
    import torchtree.cli.map  # noqa: F401
    import torchtree.cli.mcmc  # noqa: F401
    import torchtree.cli.utils as utils

    if getattr(install_hooks, "done", False):
        return
    install_hooks.done = True
    depth = {}

    def wrap(real, kind, idx=0):
        def w(*a, **k):
            rec = _HOOKS["records"]
            outer = depth.get(kind, 0) == 0
            before = copy.deepcopy(a[idx]) if rec is not None and outer and len(a) > idx else None
            depth[kind] = depth.get(kind, 0) + 1
            try:
                out = real(*a, **k)
            finally:
                depth[kind] -= 1
            if rec is not None and outer and len(a) > idx:
                rec.append({"fn": kind, "module": _HOOKS.get("cmd"), "before": before,
                            "after": copy.deepcopy(a[idx]), "out": copy.deepcopy(out)})
            return out

        w.__wrapped__ = real
        for name, mod in list(sys.modules.items()):
            if mod is None or not name.startswith("torchtree.cli"):
                continue
            for attr, val in list(vars(mod).items()):
                if val is real:
                    setattr(mod, attr, w)

    for mod, name, kind, idx in ((utils, "make_unconstrained", "make_unconstrained", 0),
                                 (jacobians, "create_jacobians", "create_jacobians", 0),
                                 (advi, "create_variational_model", "variational", 1)):
        real = getattr(mod, name, None)
        if callable(real):
            wrap(real, kind, idx)


def build_parser():
    from torchtree.cli.advi import create_variational_parser
    from torchtree.cli.hmc import create_hmc_parser
    from torchtree.cli.map import create_map_parser
    from torchtree.cli.mcmc import create_mcmc_parser

    parser = argparse.ArgumentParser(prog="torchtree-cli")
    parser.add_argument("--debug", action="store_true")
    sub = parser.add_subparsers()
    create_variational_parser(sub)
    create_map_parser(sub)
    create_mcmc_parser(sub)
    create_hmc_parser(sub)
    return parser


def run_cli(argv, record=True):
    """what torchtree.cli.cli.main does after building the parser. Returns (json_list, text, records).
    argparse errors / sys.exit -> CliExit; any other exception propagates (the caller classifies it)."""
    import torch
    from torchtree.cli import evolution
    from torchtree.cli.utils import remove_constraints

    install_hooks()
    parser = build_parser()
    err = io.StringIO()
    recs = [] if record else None
    _HOOKS["records"] = recs
    _HOOKS["cmd"] = argv[0] if argv else None
    old_dtype = torch.get_default_dtype()
    torch.set_default_dtype(torch.float32)  # the CLI process never changes torch's default
    try:
        with contextlib.redirect_stderr(err), contextlib.redirect_stdout(io.StringIO()):
            try:
                arg = parser.parse_args(argv)
                if not hasattr(arg, "func"):
                    raise CliExit(2, "no sub-command")
                evolution.check_arguments(arg, parser)
                json_dic = arg.func(arg)
                with_constraints = copy.deepcopy(json_dic)
                if not arg.debug:
                    remove_constraints(json_dic)
            except SystemExit as e:
                raise CliExit(e.code, err.getvalue()) from None
        text = json.dumps(json_dic, indent=2)
        return json_dic, text, recs or [], with_constraints
    finally:
        _HOOKS["records"] = None
        torch.set_default_dtype(old_dtype)


_REG = {"done": False}


def register_all():
    if _REG["done"]:
        return
    from torchtree.core.utils import package_contents

    for module in package_contents("torchtree"):
        try:
            importlib.import_module(module)
        except Exception:  # noqa: BLE001  optional plugins
            pass
    _REG["done"] = True


class _Cap(logging.Handler):
    def __init__(self):
        super().__init__()
        self.msgs = []

    def emit(self, record):
        self.msgs.append(str(record.msg))


def dry_load(text):
    """what `torchtree --dry file.json` does (torchtree.py:main) — float64 default dtype, remove_comments,
    expand_plates, process_objects for every element.  Returns (dic, objs) or raises LoadFailure."""
    import torch
    import torchtree.core.utils as U

    register_all()
    data = json.loads(text)
    cap = _Cap()
    root = logging.getLogger()
    old = root.handlers[:]
    root.handlers[:] = [cap]
    old_dtype = torch.get_default_dtype()
    torch.set_default_dtype(torch.float64)
    try:
        U.remove_comments(data)
        U.expand_plates(data)
        dic, objs = {}, []
        try:
            for element in data:
                objs.append(U.process_objects(element, dic))
        except Exception as e:  # noqa: BLE001
            raise LoadFailure(type(e).__name__, str(e)[:300], cap.msgs[:3], list(dic.keys())[-3:]) from None
        return dic, objs
    finally:
        root.handlers[:] = old
        torch.set_default_dtype(old_dtype)


class LoadFailure(Exception):
    def __init__(self, exc, msg, logged, last_ids):
        super().__init__(f"{exc}: {msg}")
        self.exc, self.msg, self.logged, self.last_ids = exc, msg, logged, last_ids

    def signature(self):
        import re

        first = (self.logged[0] if self.logged else self.msg)
        return self.exc + ":" + re.sub(r"[^A-Za-z`'_. ]+", "#", first)[:80]
